"""C12 — the checker is total: no crash, no internal error, well-formed output.

Three parts (DESIGN §6/C12).

(1) WHOLE-PROGRAM totality — *searched, not proved* (evidence label: exploration).
    stream `prog`   : grammar fuzzer (harness/props/c12_gen.py): syntactically valid modules that import successfully,
                      deliberately ill-typed inside function bodies, under several enabled-code configurations
                      (everything on, the harness default, everything off, a random subset). Oracle (pyanalyze-independent):
                      check() returns (no exception, CPU-time limit), no `internal_error` diagnostic, every diagnostic has a
                      registered code, 1 <= lineno <= #lines, 0 <= col_offset <= len(line) (UTF-8 bytes, the unit of
                      ast.col_offset), a non-empty description and message. Failing programs are shrunk (delta debugging over
                      statements and expressions) before they are reported.
                      Known classes: a *failure signature* (exception type + innermost pyanalyze frame) plus a syntactic
                      predicate on the reported node; defined in Python (there is no Lean model of the whole checker), except
                      `unsupportedAnnotNode`, whose predicate is the Lean `D12_unsupportedAnnotNode` printed by the driver.
(2) VALUE API totality
    stream `value`  : pairs / triples of generated Values (shared generators + TypeVars + TypedDict / DictIncomplete /
                      Callable / exact type[...] built directly): can_assign (both modes), is_assignable, can_overlap in
                      every OverlapMode, unite_values, unite_and_simplify, substitute_typevars, simplify, get_type_value,
                      str, hash, == : none may raise. Correspondence with the Lean models `ca`, `unite`, `subst`, `Ty.beq`
                      (an exception is the token EXC:…, which no model output equals) and the *bounds* the theorems state
                      (members of a union come from the flattened operands, weight / depth bounds of a substitution) are
                      evaluated on the real objects.
(3) DIAGNOSTIC WELL-FORMEDNESS on the emit model
    stream `emit`   : (file lines, disabled codes, sequence of show_error calls) fed to the real NameCheckVisitor and to
                      the Lean model `C12.check` (C11's filter + the Failure construction and message / context
                      rendering): code, lineno, col_offset, description and message must agree, and the model's
                      `wellFormed` verdict must equal the harness oracle's.
    stream `emit-e2e`: the raw show_error stream recorded while checking the fuzzer's programs, same comparison.
    stream `annot`  : annotation expressions (every ast expression kind) through the real `annotations._Visitor` vs the
                      Lean model `annVisit` (which node kind raises NotImplementedError first).
"""
import ast, contextlib, io, json, linecache, os, random, re, signal, sys, time, traceback, types, warnings

from harness.common import lean, pya
from harness.props import c12_gen

PROP = "C12"
LEAN_PROP = "PyaModel.Props.C12"
NAMESPACE = "Pya.C12"
LEAN_TARGETS = ["PyaModel.Spec.Total"]

from pyanalyze.error_code import ErrorCode  # noqa: E402
from pyanalyze.name_check_visitor import NameCheckVisitor  # noqa: E402

REGISTRY = {e.name for e in ErrorCode}


# =================================================================== (1) whole programs
class CpuTimeout(BaseException):
    pass


def _on_vt(*_):
    raise CpuTimeout()


@contextlib.contextmanager
def cpu_limit(seconds):
    """CPU-time limit for the enclosed block (ITIMER_VIRTUAL: independent of the load on the machine and of the
    SIGALRM wall-clock limit harness/main.py installs)."""
    old = signal.signal(signal.SIGVTALRM, _on_vt)
    signal.setitimer(signal.ITIMER_VIRTUAL, seconds)
    try:
        yield
    finally:
        signal.setitimer(signal.ITIMER_VIRTUAL, 0)
        signal.signal(signal.SIGVTALRM, old)


_MODN = [0]


def load_module(src):
    """Import `src` as a module: like pyanalyze.analysis_lib.make_module, but — as a real import does — the module is in
    sys.modules while its body runs (dataclasses / NamedTuple with string annotations look themselves up there).
    Raises whatever the module raises."""
    from pyanalyze.analysis_lib import _FakeLoader
    _MODN[0] += 1
    name = "c12mod_%d" % _MODN[0]
    mod = types.ModuleType(name)
    scope = mod.__dict__
    scope["__file__"] = name + ".py"
    scope["__loader__"] = _FakeLoader(src)
    linecache.lazycache(name + ".py", scope)
    code = compile(src, name + ".py", "exec")
    sys.modules[name] = mod
    try:
        with contextlib.redirect_stderr(io.StringIO()), contextlib.redirect_stdout(io.StringIO()), cpu_limit(5):
            exec(code, scope)
    except BaseException:
        sys.modules.pop(name, None)
        raise
    return mod


def unload(mod):
    sys.modules.pop(mod.__name__, None)
    linecache.cache.pop(mod.__dict__.get("__file__"), None)


def importable(src):
    """None if `src` is in the property's domain (compiles and imports), else the reason."""
    with warnings.catch_warnings():
        warnings.simplefilter("ignore")
        try:
            mod = load_module(src)
        except SyntaxError as e:
            return "syntax:%s" % e.msg
        except CpuTimeout:
            return "import-timeout"
        except BaseException as e:
            return "import:%s" % type(e).__name__
    unload(mod)
    return None


ALL_ON = {c: True for c in ErrorCode}
ALL_OFF = {c: False for c in ErrorCode}


def config_settings(name, rng=None):
    if name == "all-on":
        return dict(ALL_ON)
    if name == "default":
        return pya.default_settings()
    if name == "all-off":
        return dict(ALL_OFF)
    st = {c: rng.random() < 0.5 for c in ErrorCode}
    st[ErrorCode.internal_error] = True   # keeps the search sensitive; `all-off` covers the disabled case
    return st


_KW = {}


def kwargs_for(settings, fresh=False):
    key = tuple(sorted(c.name for c, on in settings.items() if on))
    if fresh or key not in _KW:
        while len(_KW) >= 12:
            _KW.pop(next(iter(_KW)))
        _KW[key] = _rec_class().prepare_constructor_kwargs({"settings": settings})
    return _KW[key]


_REC = None


def _rec_class():
    global _REC
    if _REC is None:
        class Rec(NameCheckVisitor):
            """Records every show_error call (the raw stream fed to the emit model)."""
            _rec = None

            def show_error(self, node, e=None, error_code=None, **kw):
                if self._rec is not None and not getattr(self, "_in_eof", False):
                    self._rec.append((self.caught_errors is not None, node, error_code, e, kw.get("obey_ignore", True),
                                      kw.get("save", True), kw.get("detail"), kw.get("ignore_comment")))
                return super().show_error(node, e, error_code, **kw)

            def show_errors_for_unused_ignores(self, error_code):
                self._in_eof = True
                try:
                    return super().show_errors_for_unused_ignores(error_code)
                finally:
                    self._in_eof = False

            def show_errors_for_bare_ignores(self, error_code):
                self._in_eof = True
                try:
                    return super().show_errors_for_bare_ignores(error_code)
                finally:
                    self._in_eof = False

        _REC = Rec
    return _REC


def signature_of(description):
    """(exception type, file::function of the innermost pyanalyze frame) of an internal_error description."""
    frames = re.findall(r'File "([^"]+)", line \d+, in (\S+)', description)
    last = description.strip().split("\n")[-1]
    m = re.match(r"Internal error: (\w+)", last)
    inner = [(f.split("/")[-1], fn) for f, fn in frames if "/pyanalyze/" in f]
    if m is None:
        return ("no-traceback", re.sub(r"[^A-Za-z ]+.*", "", last)[:40].strip())
    return (m.group(1), "%s::%s" % inner[-1] if inner else "?")


def run_check(src, settings, fresh=False, record=False, cpu=30):
    """Check `src` with the real pyanalyze. Returns dict(outcome=…, failures=[raw dicts], raw=[…], problems=[…]).
    problems: list of (kind, signature, detail dict) — the property's oracle."""
    with warnings.catch_warnings():
        warnings.simplefilter("ignore")
        mod = load_module(src)
    tree = ast.parse(src)
    problems, res, rec = [], [], None
    try:
        kw = kwargs_for(settings, fresh)
        with contextlib.redirect_stderr(io.StringIO()), contextlib.redirect_stdout(io.StringIO()), cpu_limit(cpu), \
                warnings.catch_warnings():
            warnings.simplefilter("ignore")
            v = _rec_class()(mod.__name__, src, tree, module=mod, **kw)
            if record:
                v._rec = rec = []
            res = v.check()
    except CpuTimeout:
        problems.append(("timeout", ("timeout", "cpu>%ds" % cpu), {}))
        res = []
    except BaseException as e:
        tb = traceback.extract_tb(e.__traceback__)
        inner = [(f.filename.split("/")[-1], f.name) for f in tb if "/pyanalyze/" in f.filename]
        problems.append(("raises", (type(e).__name__, "%s::%s" % inner[-1] if inner else "?"), {"exception": repr(e)[:300]}))
        res = []
    finally:
        unload(mod)
    problems += diagnostics_oracle(src, res)
    return {"failures": res, "raw": rec, "problems": problems}


def diagnostics_oracle(src, res):
    """The well-formedness half of the property on a list of pyanalyze failure dicts; independent of pyanalyze: the lines
    are the source split at newlines (the tokenizer's notion), columns are UTF-8 byte offsets (ast.col_offset)."""
    lines = src.split("\n")
    if lines and lines[-1] == "":
        lines.pop()
    out = []
    for f in res:
        code = f.get("code")
        cname = getattr(code, "name", None)
        ln, col = f.get("lineno"), f.get("col_offset")
        where = {"code": cname, "lineno": ln, "col": col}
        if cname == "internal_error":
            out.append(("internal_error", signature_of(f.get("description", "")), dict(where, tail=pya.norm(f.get("description", "")).strip().split("\n")[-1][:200])))
            continue   # its position is reported as part of the same defect
        if cname is None or cname not in REGISTRY:
            out.append(("no-code", ("no-code", (f.get("description") or "")[:40]), where))
        if not isinstance(ln, int) or not (1 <= ln <= len(lines)):
            out.append(("bad-line", ("bad-line", cname), where))
        elif not isinstance(col, int) or not (0 <= col <= len(lines[ln - 1].encode("utf-8"))):
            out.append(("bad-col", ("bad-col", cname), dict(where, linelen=len(lines[ln - 1].encode("utf-8")))))
        if not f.get("description") or not f.get("message"):
            out.append(("empty-message", ("empty-message", cname), where))
    return out


# ------------------------------------------------------------------ shrinking (delta debugging over the AST)
def _edits(tree):
    """Enumerate reduction steps as (node, field, op, arg) in a deterministic order: big things first."""
    out_stmt, out_other, out_expr = [], [], []
    for node in ast.walk(tree):
        for field, val in ast.iter_fields(node):
            if isinstance(val, list):
                for j in range(len(val) - 1, -1, -1):
                    item = val[j]
                    if isinstance(item, ast.stmt):
                        out_stmt.append((node, field, "del", j))
                        if isinstance(item, (ast.If, ast.For, ast.While, ast.With, ast.Try, ast.AsyncFor, ast.AsyncWith)) or (hasattr(ast, "TryStar") and isinstance(item, ast.TryStar)):
                            out_stmt.append((node, field, "hoist", j))
                    elif isinstance(item, ast.AST):
                        out_other.append((node, field, "del", j))
            elif isinstance(val, ast.expr):
                if field in ("returns", "annotation", "msg", "cause", "guard", "step", "lower", "upper", "optional_vars", "exc", "type", "format_spec") or \
                        (field == "value" and isinstance(node, (ast.Return, ast.AnnAssign))):
                    out_other.append((node, field, "drop", None))
                kids = [c for c in ast.iter_child_nodes(val) if isinstance(c, ast.expr)]
                for k in range(len(kids)):
                    out_expr.append((node, field, "child", k))
                if not isinstance(val, (ast.Constant, ast.Name)):
                    out_expr.append((node, field, "const", None))
    return out_stmt + out_other + out_expr


def _apply(edit):
    """Apply in place; returns an undo closure (or None if not applicable)."""
    node, field, op, arg = edit
    val = getattr(node, field)
    if op == "del":
        item = val[arg]
        del val[arg]
        if not val and field == "body":
            val.append(ast.Pass())

            def undo():
                val.clear()
                val.append(item)
            return undo
        return lambda: val.insert(arg, item)
    if op == "hoist":
        item = val[arg]
        inner = list(getattr(item, "body", []))
        val[arg:arg + 1] = inner

        def undo():
            val[arg:arg + len(inner)] = [item]
        return undo
    if op == "drop":
        setattr(node, field, None)
        return lambda: setattr(node, field, val)
    if op == "child":
        kids = [c for c in ast.iter_child_nodes(val) if isinstance(c, ast.expr)]
        if arg >= len(kids):
            return None
        setattr(node, field, kids[arg])
        return lambda: setattr(node, field, val)
    if op == "const":
        setattr(node, field, ast.Constant(value=None))
        return lambda: setattr(node, field, val)
    return None


def shrink(src, still_fails, max_tests=600, max_seconds=40):
    """Greedy delta debugging: returns the smallest source found on which still_fails() holds."""
    t0 = time.time()
    try:
        best = ast.unparse(ast.parse(src)) + "\n"
    except Exception:
        return src
    if not still_fails(best):
        return src
    tests = 0
    progress = True
    while progress:
        progress = False
        tree = ast.parse(best)
        edits = _edits(tree)
        i = 0
        while i < len(edits):
            if tests >= max_tests or time.time() - t0 > max_seconds:
                return best
            undo = None
            try:
                undo = _apply(edits[i])
            except Exception:
                undo = None
            if undo is None:
                i += 1
                continue
            try:
                cand = ast.unparse(ast.fix_missing_locations(tree)) + "\n"
            except Exception:
                cand = None
            ok = False
            if cand is not None and len(cand) < len(best):
                tests += 1
                ok = still_fails(cand)
            if ok:
                best = cand
                progress = True
                # the tree changed under the remaining edits: re-enumerate, keep the position
                tree = ast.parse(best)
                edits = _edits(tree)
            else:
                try:
                    undo()
                except Exception:
                    tree = ast.parse(best)
                    edits = _edits(tree)
                i += 1
    return best


def fails_with(signature, settings):
    def test(src):
        if importable(src) is not None:
            return False
        try:
            r = run_check(src, settings, cpu=10 if signature[0] == "timeout" else 30)
        except BaseException:
            return False
        return any(sig == signature for _, sig, _ in r["problems"])
    return test
