"""C12 — the checker is total: no crash, no internal error, well-formed output.

Three parts (DESIGN §6/C12).

(1) WHOLE-PROGRAM totality — *searched, not proved* (evidence label: exploration).
    stream `prog`   : grammar fuzzer (harness/props/c12_gen.py): syntactically valid modules that import successfully,
                      deliberately ill-typed inside function bodies, under several enabled-code configurations
                      (everything on, the harness default, everything off, a random subset). Oracle (pyanalyze-independent):
                      check() returns (no exception, CPU-time limit), no `internal_error` diagnostic, every diagnostic has a
                      registered code, 1 <= lineno <= #lines, 0 <= col_offset <= len(line) (UTF-8 bytes, the unit of
                      ast.col_offset), a non-empty description and message. Failing programs are shrunk (delta debugging over
                      statements and expressions) before they are reported.
                      Known classes: a *failure signature* (exception type + innermost pyanalyze frame) plus a syntactic
                      predicate on the reported node; defined in Python (there is no Lean model of the whole checker), except
                      `unsupportedAnnotNode`, whose predicate is the Lean `D12_unsupportedAnnotNode` printed by the driver.
(2) VALUE API totality
    stream `value`  : pairs / triples of generated Values (shared generators + TypeVars + TypedDict / DictIncomplete /
                      Callable / exact type[...] built directly): can_assign (both modes), is_assignable, can_overlap in
                      every OverlapMode, unite_values, unite_and_simplify, substitute_typevars, simplify, get_type_value,
                      str, hash, == : none may raise. Correspondence with the Lean models `ca`, `unite`, `subst`, `Ty.beq`
                      (an exception is the token EXC:…, which no model output equals) and the *bounds* the theorems state
                      (members of a union come from the flattened operands, weight / depth bounds of a substitution) are
                      evaluated on the real objects.
(3) DIAGNOSTIC WELL-FORMEDNESS on the emit model
    stream `emit`   : (file lines, disabled codes, sequence of show_error calls) fed to the real NameCheckVisitor and to
                      the Lean model `C12.check` (C11's filter + the Failure construction and message / context
                      rendering): code, lineno, col_offset, description and message must agree, and the model's
                      `wellFormed` verdict must equal the harness oracle's.
    stream `emit-e2e`: the raw show_error stream recorded while checking the fuzzer's programs, same comparison.
    stream `annot`  : annotation expressions (every ast expression kind) through the real `annotations._Visitor` vs the
                      Lean model `annVisit`: the visitor must not raise (fix 9c1e869) and must report exactly the model's list
                      of unsupported node kinds, in order.
"""
import ast, contextlib, io, json, linecache, os, random, re, signal, sys, time, traceback, types, warnings

from harness.common import lean, pya
from harness.props import c12_gen

WIDEN_FACTOR = 3  # the anchor-/obligation-widened quick run stays well inside the time limit
PROP = "C12"
LEAN_PROP = "PyaModel.Props.C12"
NAMESPACE = "Pya.C12"
LEAN_TARGETS = ["PyaModel.Spec.Total"]

from pyanalyze.error_code import ErrorCode  # noqa: E402
from pyanalyze.name_check_visitor import NameCheckVisitor  # noqa: E402

REGISTRY = {e.name for e in ErrorCode}


# =================================================================== (1) whole programs
class CpuTimeout(BaseException):
    pass


def _on_vt(*_):
    raise CpuTimeout()


@contextlib.contextmanager
def cpu_limit(seconds):
    """CPU-time limit for the enclosed block (ITIMER_VIRTUAL: independent of the load on the machine and of the
    SIGALRM wall-clock limit harness/main.py installs)."""
    old = signal.signal(signal.SIGVTALRM, _on_vt)
    signal.setitimer(signal.ITIMER_VIRTUAL, seconds)
    try:
        yield
    finally:
        signal.setitimer(signal.ITIMER_VIRTUAL, 0)
        signal.signal(signal.SIGVTALRM, old)


_MODN = [0]


def load_module(src):
    """Import `src` as a module: like pyanalyze.analysis_lib.make_module, but — as a real import does — the module is in
    sys.modules while its body runs (dataclasses / NamedTuple with string annotations look themselves up there).
    Raises whatever the module raises."""
    from pyanalyze.analysis_lib import _FakeLoader
    _MODN[0] += 1
    name = "c12mod_%d" % _MODN[0]
    mod = types.ModuleType(name)
    scope = mod.__dict__
    scope["__file__"] = name + ".py"
    scope["__loader__"] = _FakeLoader(src)
    linecache.lazycache(name + ".py", scope)
    code = compile(src, name + ".py", "exec")
    sys.modules[name] = mod
    try:
        with contextlib.redirect_stderr(io.StringIO()), contextlib.redirect_stdout(io.StringIO()), cpu_limit(5):
            exec(code, scope)
    except BaseException:
        sys.modules.pop(name, None)
        raise
    return mod


def unload(mod):
    sys.modules.pop(mod.__name__, None)
    linecache.cache.pop(mod.__dict__.get("__file__"), None)


def importable(src):
    """None if `src` is in the property's domain (compiles and imports), else the reason."""
    with warnings.catch_warnings():
        warnings.simplefilter("ignore")
        try:
            mod = load_module(src)
        except SyntaxError as e:
            return "syntax:%s" % e.msg
        except CpuTimeout:
            return "import-timeout"
        except BaseException as e:
            return "import:%s" % type(e).__name__
    unload(mod)
    return None


ALL_ON = {c: True for c in ErrorCode}
ALL_OFF = {c: False for c in ErrorCode}


def config_settings(name, rng=None):
    if name == "all-on":
        return dict(ALL_ON)
    if name == "default":
        return pya.default_settings()
    if name == "all-off":
        return dict(ALL_OFF)
    # a handful of random subsets per run (each needs its own Checker, ~0.1 s to build)
    if not _RANDOM_CONFIGS or _RANDOM_CONFIGS[0] is not rng:
        _RANDOM_CONFIGS[:] = [rng] + [{c: rng.random() < 0.5 for c in ErrorCode} for _ in range(5)]
        for st in _RANDOM_CONFIGS[1:]:
            st[ErrorCode.internal_error] = True   # keeps the search sensitive; `all-off` covers the disabled case
    return dict(rng.choice(_RANDOM_CONFIGS[1:]))


_KW = {}
_RANDOM_CONFIGS = []


def kwargs_for(settings, fresh=False):
    key = tuple(sorted(c.name for c, on in settings.items() if on))
    if fresh or key not in _KW:
        while len(_KW) >= 12:
            _KW.pop(next(iter(_KW)))
        _KW[key] = _rec_class().prepare_constructor_kwargs({"settings": settings})
    return _KW[key]


_REC = None


def _rec_class():
    global _REC
    if _REC is None:
        class Rec(NameCheckVisitor):
            """Records every show_error call (the raw stream fed to the emit model)."""
            _rec = None

            def show_error(self, node, e=None, error_code=None, **kw):
                if self._rec is not None and not getattr(self, "_in_eof", False):
                    self._rec.append((self.caught_errors is not None, node, error_code, e, kw.get("obey_ignore", True),
                                      kw.get("save", True), kw.get("detail"), kw.get("ignore_comment")))
                return super().show_error(node, e, error_code, **kw)

            def show_errors_for_unused_ignores(self, error_code):
                self._in_eof = True
                try:
                    return super().show_errors_for_unused_ignores(error_code)
                finally:
                    self._in_eof = False

            def show_errors_for_bare_ignores(self, error_code):
                self._in_eof = True
                try:
                    return super().show_errors_for_bare_ignores(error_code)
                finally:
                    self._in_eof = False

        _REC = Rec
    return _REC


def signature_of(description):
    """(exception type, file::function of the innermost pyanalyze frame) of an internal_error description."""
    frames = re.findall(r'File "([^"]+)", line \d+, in (\S+)', description)
    last = description.strip().split("\n")[-1]
    m = re.match(r"Internal error: (\w+)", last)
    inner = [(f.split("/")[-1], fn) for f, fn in frames if "/pyanalyze/" in f]
    if m is None:
        return ("no-traceback", re.sub(r"[^A-Za-z ]+.*", "", last)[:40].strip())
    if m.group(1) == "RecursionError":
        # the frame in which the limit is hit depends on the depth the check was started from: name the cycle instead
        names = [fn for _, fn in inner]
        cyc = sorted({n for n in names if names.count(n) >= 8})
        return ("RecursionError", "cycle:" + ",".join(cyc)[:160])
    return (m.group(1), "%s::%s" % inner[-1] if inner else "?")


_STD_FDS = []


def _restore_std_fds():
    """pyanalyze evaluates quoted / deferred annotations (eval), i.e. it can run code of the checked module; a generated
    `with open(True): ...` reached that way closes the harness's own stdout. Keep duplicates and put them back."""
    if not _STD_FDS:
        for fd in (0, 1, 2):
            try:
                _STD_FDS.append(os.dup(fd))
            except OSError:
                _STD_FDS.append(None)
        return
    for fd, saved in zip((0, 1, 2), _STD_FDS):
        try:
            os.fstat(fd)
        except OSError:
            if saved is not None:
                os.dup2(saved, fd)


def run_check(src, settings, fresh=False, record=False, cpu=30):
    if not _STD_FDS:
        _restore_std_fds()
    """Check `src` with the real pyanalyze. Returns dict(outcome=…, failures=[raw dicts], raw=[…], problems=[…]).
    problems: list of (kind, signature, detail dict) — the property's oracle."""
    with warnings.catch_warnings():
        warnings.simplefilter("ignore")
        mod = load_module(src)
    tree = ast.parse(src)
    problems, res, rec = [], [], None
    try:
        kw = kwargs_for(settings, fresh)
        with contextlib.redirect_stderr(io.StringIO()), contextlib.redirect_stdout(io.StringIO()), cpu_limit(cpu), \
                warnings.catch_warnings():
            warnings.simplefilter("ignore")
            v = _rec_class()(mod.__name__, src, tree, module=mod, **kw)
            if record:
                v._rec = rec = []
            res = v.check()
    except CpuTimeout:
        problems.append(("timeout", ("timeout", "cpu>%ds" % cpu), {}))
        res = []
    except BaseException as e:
        tb = traceback.extract_tb(e.__traceback__)
        inner = [(f.filename.split("/")[-1], f.name) for f in tb if "/pyanalyze/" in f.filename]
        problems.append(("raises", (type(e).__name__, "%s::%s" % inner[-1] if inner else "?"),
                         {"exception": repr(e)[:300], "description": "".join(traceback.format_tb(e.__traceback__))}))
        res = []
    finally:
        unload(mod)
        _restore_std_fds()
    problems += diagnostics_oracle(src, res)
    return {"failures": res, "raw": rec, "problems": problems}


def diagnostics_oracle(src, res):
    """The well-formedness half of the property on a list of pyanalyze failure dicts; independent of pyanalyze: the lines
    are the source split at newlines (the tokenizer's notion), columns are UTF-8 byte offsets (ast.col_offset)."""
    lines = src.split("\n")
    if lines and lines[-1] == "":
        lines.pop()
    out = []
    for f in res:
        code = f.get("code")
        cname = getattr(code, "name", None)
        ln, col = f.get("lineno"), f.get("col_offset")
        where = {"code": cname, "lineno": ln, "col": col}
        if cname == "internal_error":
            out.append(("internal_error", signature_of(f.get("description", "")), dict(where, tail=pya.norm(f.get("description", "")).strip().split("\n")[-1][:200],
                                                                                             description=f.get("description", ""))))
            continue   # its position is reported as part of the same defect
        if cname is None or cname not in REGISTRY:
            out.append(("no-code", ("no-code", (f.get("description") or "")[:40]), where))
        if not isinstance(ln, int) or not (1 <= ln <= len(lines)):
            out.append(("bad-line", ("bad-line", cname), where))
        elif not isinstance(col, int) or not (0 <= col <= len(lines[ln - 1].encode("utf-8"))):
            out.append(("bad-col", ("bad-col", cname), dict(where, linelen=len(lines[ln - 1].encode("utf-8")))))
        if not f.get("description") or not f.get("message"):
            out.append(("empty-message", ("empty-message", cname), where))
    return out


# ------------------------------------------------------------------ shrinking (delta debugging over the AST)
def _edits(tree):
    """Enumerate reduction steps as (node, field, op, arg) in a deterministic order: big things first."""
    out_stmt, out_other, out_expr = [], [], []
    for node in ast.walk(tree):
        for field, val in ast.iter_fields(node):
            if isinstance(val, list):
                for j in range(len(val) - 1, -1, -1):
                    item = val[j]
                    if isinstance(item, ast.stmt):
                        out_stmt.append((node, field, "del", j))
                        if isinstance(item, (ast.If, ast.For, ast.While, ast.With, ast.Try, ast.AsyncFor, ast.AsyncWith)) or (hasattr(ast, "TryStar") and isinstance(item, ast.TryStar)):
                            out_stmt.append((node, field, "hoist", j))
                    elif isinstance(item, ast.AST):
                        out_other.append((node, field, "del", j))
            elif isinstance(val, ast.expr):
                if field in ("returns", "annotation", "msg", "cause", "guard", "step", "lower", "upper", "optional_vars", "exc", "type", "format_spec") or \
                        (field == "value" and isinstance(node, (ast.Return, ast.AnnAssign))):
                    out_other.append((node, field, "drop", None))
                kids = [c for c in ast.iter_child_nodes(val) if isinstance(c, ast.expr)]
                for k in range(len(kids)):
                    out_expr.append((node, field, "child", k))
                if not isinstance(val, (ast.Constant, ast.Name)):
                    out_expr.append((node, field, "const", None))
    return out_stmt + out_other + out_expr


def _apply(edit):
    """Apply in place; returns an undo closure (or None if not applicable)."""
    node, field, op, arg = edit
    val = getattr(node, field)
    if op == "del":
        item = val[arg]
        del val[arg]
        if not val and field == "body":
            val.append(ast.Pass())

            def undo():
                val.clear()
                val.append(item)
            return undo
        return lambda: val.insert(arg, item)
    if op == "hoist":
        item = val[arg]
        inner = list(getattr(item, "body", []))
        val[arg:arg + 1] = inner

        def undo():
            val[arg:arg + len(inner)] = [item]
        return undo
    if op == "drop":
        setattr(node, field, None)
        return lambda: setattr(node, field, val)
    if op == "child":
        kids = [c for c in ast.iter_child_nodes(val) if isinstance(c, ast.expr)]
        if arg >= len(kids):
            return None
        setattr(node, field, kids[arg])
        return lambda: setattr(node, field, val)
    if op == "const":
        setattr(node, field, ast.Constant(value=None))
        return lambda: setattr(node, field, val)
    return None


def shrink(src, still_fails, max_tests=600, max_seconds=40):
    """Greedy delta debugging: returns the smallest source found on which still_fails() holds."""
    t0 = time.time()
    try:
        best = ast.unparse(ast.parse(src)) + "\n"
    except Exception:
        return src
    if not still_fails(best):
        return src
    tests = 0
    progress = True
    while progress:
        progress = False
        tree = ast.parse(best)
        edits = _edits(tree)
        i = 0
        while i < len(edits):
            if tests >= max_tests or time.time() - t0 > max_seconds:
                return best
            undo = None
            try:
                undo = _apply(edits[i])
            except Exception:
                undo = None
            if undo is None:
                i += 1
                continue
            try:
                cand = ast.unparse(ast.fix_missing_locations(tree)) + "\n"
            except Exception:
                cand = None
            ok = False
            if cand is not None and len(cand) < len(best):
                tests += 1
                ok = still_fails(cand)
            if ok:
                best = cand
                progress = True
                # the tree changed under the remaining edits: re-enumerate, keep the position
                tree = ast.parse(best)
                edits = _edits(tree)
            else:
                try:
                    undo()
                except Exception:
                    tree = ast.parse(best)
                    edits = _edits(tree)
                i += 1
    return best


def fails_with(signature, settings):
    def test(src):
        if importable(src) is not None:
            return False
        try:
            r = run_check(src, settings, cpu=10 if signature[0] == "timeout" else 30)
        except BaseException:
            return False
        return any(sig == signature for _, sig, _ in r["problems"])
    return test


# =================================================================== translator: tables regenerated from the live tree
def _lean_str(s):
    out = ['"']
    for ch in s:
        if ch == "\\":
            out.append("\\\\")
        elif ch == '"':
            out.append('\\"')
        elif ch == "\n":
            out.append("\\n")
        elif ch == "\t":
            out.append("\\t")
        elif ord(ch) < 32 or ord(ch) == 127:
            out.append("\\x%02x" % ord(ch))
        else:
            out.append(ch)
    out.append('"')
    return "".join(out)


def visitor_methods():
    from pyanalyze import annotations
    return sorted(n[len("visit_"):] for n in dir(annotations._Visitor) if n.startswith("visit_"))


FOLD_FILES = ["name_check_visitor.py", "implementation.py", "format_strings.py", "boolability.py", "predicates.py", "value.py"]
_FOLD_BUILTINS = {"format", "ascii", "repr", "str", "int", "len", "hash", "bool", "iter", "next", "sorted", "float", "abs", "divmod", "pow", "round", "isinstance",
                  "issubclass", "list", "tuple", "set", "dict"}


def _uses_val(n):
    return any(isinstance(x, ast.Attribute) and x.attr == "val" for x in ast.walk(n))


def _fold_reasons(body):
    """Why a `try:` body counts as executing an operation on statically known values (`.val` of KnownValues)."""
    why = set()
    for st in body:
        for n in ast.walk(st):
            if isinstance(n, ast.Call):
                f = n.func
                fname = f.id if isinstance(f, ast.Name) else None
                if fname in _FOLD_BUILTINS and (any(_uses_val(a) for a in n.args) or (fname in ("format", "ascii", "repr", "str", "int", "len", "hash", "iter") and
                                                                                      any(isinstance(a, ast.Name) for a in n.args))):
                    why.add(fname + "()")
                if isinstance(f, ast.Attribute) and isinstance(f.value, ast.Name) and f.value.id == "operator":
                    why.add("operator." + f.attr)
                if fname in ("op", "op_func", "operator_func", "func", "fn", "callee", "predicate") or (isinstance(f, ast.Attribute) and f.attr == "val"):
                    why.add("call:" + (fname or "x.val"))
            if isinstance(n, (ast.BinOp, ast.Compare, ast.UnaryOp, ast.Subscript)) and _uses_val(n) and not isinstance(getattr(n, "ctx", None), ast.Store):
                why.add(type(n).__name__ + " on .val")
    return sorted(why)


def fold_sites():
    """(sites, unguarded): every `try:` of the constant-folding files whose body applies an operation to known values, with the
    exception classes its handlers name; and the fold expressions that sit outside every try."""
    repo = os.environ.get("VERIF_REPO", "/repo")
    sites, unguarded = [], []
    for fn in FOLD_FILES:
        tree = ast.parse(open(os.path.join(repo, "pyanalyze", fn)).read())

        def visit(node, qual, in_try):
            for field, val in ast.iter_fields(node):
                for ch in (val if isinstance(val, list) else [val]):
                    if not isinstance(ch, ast.AST):
                        continue
                    q = qual
                    if isinstance(ch, (ast.FunctionDef, ast.AsyncFunctionDef, ast.ClassDef)):
                        q = (qual + "." if qual else "") + ch.name
                    t = in_try or (isinstance(node, ast.Try) and field == "body")
                    if isinstance(ch, ast.Try):
                        why = _fold_reasons(ch.body)
                        if why:
                            caught = []
                            for h in ch.handlers:
                                if h.type is None:
                                    caught.append("BaseException")
                                else:
                                    caught += [ast.unparse(x) for x in (h.type.elts if isinstance(h.type, ast.Tuple) else [h.type])]
                            sites.append((fn, qual, caught, why))
                    if not t:
                        txt = None
                        if isinstance(ch, ast.Call) and isinstance(ch.func, ast.Name) and ch.func.id in (
                                "format", "ascii", "repr", "int", "len", "hash", "iter", "float", "sorted", "divmod", "pow", "abs", "round", "str") and any(_uses_val(a) for a in ch.args):
                            txt = ast.unparse(ch)
                        elif isinstance(ch, (ast.BinOp, ast.UnaryOp)) and not isinstance(getattr(ch, "op", None), ast.Not) and all(not isinstance(x, ast.Call) for x in ast.walk(ch)) and \
                                any(isinstance(x, ast.Attribute) and x.attr == "val" for x in (getattr(ch, "left", None), getattr(ch, "right", None), getattr(ch, "operand", None))):
                            txt = ast.unparse(ch)
                        elif isinstance(ch, ast.Compare) and any(isinstance(o, (ast.Lt, ast.LtE, ast.Gt, ast.GtE, ast.In, ast.NotIn)) for o in ch.ops) and \
                                any(isinstance(x, ast.Attribute) and x.attr == "val" for x in [ch.left] + ch.comparators):
                            txt = ast.unparse(ch)
                        elif isinstance(ch, ast.FormattedValue) and ch.conversion in (ord("r"), ord("a"), ord("s")) and _uses_val(ch.value):
                            txt = "f'{%s!%s}'" % (ast.unparse(ch.value), chr(ch.conversion))
                        if txt is not None:
                            unguarded.append((fn, qual, txt[:80]))
                    visit(ch, q, t)
        visit(tree, "", False)
    return sites, unguarded


def forwardref_routes():
    """[(description, re-enters the evaluator, inside `with ctx.add_evaluation(val)`)] for every `return` of the ForwardRef
    branch of annotations._type_from_runtime (found by its test `is_instance_of_typing_name(val, "ForwardRef")`)."""
    import inspect, textwrap
    from pyanalyze import annotations
    tree = ast.parse(textwrap.dedent(inspect.getsource(annotations._type_from_runtime)))
    branch = None
    for n in ast.walk(tree):
        if isinstance(n, ast.If) and any(isinstance(c, ast.Constant) and c.value == "ForwardRef" for c in ast.walk(n.test)):
            branch = n
            break
    if branch is None:
        raise ValueError("_type_from_runtime: the ForwardRef branch was not found")
    RECURSIVE = {"_type_from_runtime", "_eval_forward_ref", "type_from_runtime", "_type_from_value", "_type_from_ast"}
    out = []

    def walk(stmts, guarded):
        for st in stmts:
            if isinstance(st, ast.Return):
                calls = [c.func.id if isinstance(c.func, ast.Name) else getattr(c.func, "attr", "?") for c in ast.walk(st) if isinstance(c, ast.Call)]
                rec = any(c in RECURSIVE for c in calls)
                out.append((",".join(calls) or "value", rec, guarded))
            elif isinstance(st, (ast.With, ast.AsyncWith)):
                g = guarded or any(isinstance(c, ast.Call) and getattr(c.func, "attr", None) == "add_evaluation" for it in st.items for c in ast.walk(it.context_expr))
                walk(st.body, g)
            elif isinstance(st, ast.If):
                walk(st.body, guarded)
                walk(st.orelse, guarded)
            elif isinstance(st, ast.Try):
                walk(st.body, guarded)
                for h in st.handlers:
                    walk(h.body, guarded)
                walk(st.orelse, guarded)
                walk(st.finalbody, guarded)
            elif isinstance(st, (ast.For, ast.While)):
                walk(st.body, guarded)
                walk(st.orelse, guarded)
    walk(branch.body, False)
    if not out:
        raise ValueError("_type_from_runtime: no return in the ForwardRef branch")
    return out


def translate(ctx):
    """Generated/TotalTables.lean: the error-code registry (name, description), the node kinds `annotations._Visitor`
    has a visit_ method for, BaseNodeVisitor.CONTEXT_LINES."""
    from pyanalyze import node_visitor
    codes = [(e.name, e.description) for e in ErrorCode]
    if not codes or len({n for n, _ in codes}) != len(codes):
        raise ValueError("ErrorCode registry is empty or has duplicate names")
    meths = visitor_methods()
    if "generic_visit" in meths or not meths:
        raise ValueError("annotations._Visitor: unexpected visit_ methods %r" % meths)
    text = (
        "/-! Regenerated by harness/props/c12.py `translate` from the live pyanalyze; do not edit. -/\n"
        "namespace Pya.C12.Gen\n\n"
        "/-- `pyanalyze.error_code.ErrorCode`: (name, description) in registration order -/\n"
        "def errorCodes : List (String × String) := [\n  %s]\n\n"
        "/-- node kinds `X` for which `pyanalyze.annotations._Visitor` defines `visit_X` -/\n"
        "def visitorMethods : List String := [%s]\n\n"
        "/-- `BaseNodeVisitor.CONTEXT_LINES` -/\n"
        "def contextLines : Nat := %d\n\n"
        "end Pya.C12.Gen\n"
    ) % (",\n  ".join("(%s, %s)" % (_lean_str(n), _lean_str(d)) for n, d in codes), ", ".join(_lean_str(m) for m in meths),
         int(node_visitor.BaseNodeVisitor.CONTEXT_LINES))
    lean.write_if_changed(os.path.join(lean.LEAN, "PyaModel", "Generated", "TotalTables.lean"), text)
    routes = forwardref_routes()
    rtext = (
        "/-! Regenerated by harness/props/c12.py `translate` from the live pyanalyze; do not edit. -/\n"
        "namespace Pya.C12.Gen\n\n"
        "/-- the `return` paths of the ForwardRef branch of `annotations._type_from_runtime`, in source order:\n"
        "(what is returned, does it re-enter the evaluator, does it sit inside `with ctx.add_evaluation(val)`) -/\n"
        "def forwardRefRoutes : List (String × Bool × Bool) := [%s]\n\n"
        "end Pya.C12.Gen\n"
    ) % ", ".join("(%s, %s, %s)" % (_lean_str(d), "true" if rec else "false", "true" if guarded else "false") for d, rec, guarded in routes)
    lean.write_if_changed(os.path.join(lean.LEAN, "PyaModel", "Generated", "TfrRoutes.lean"), rtext)
    from pyanalyze import format_strings
    rx = format_strings._FORMAT_STRING_REGEX
    if not isinstance(rx, str) or "conversion_type" not in rx:
        raise ValueError("format_strings._FORMAT_STRING_REGEX is no longer the verbose pattern text")
    lean.write_if_changed(os.path.join(lean.LEAN, "PyaModel", "Generated", "FormatRegexC12.lean"),
                          "/-! Regenerated by harness/props/c12.py `translate` from the live pyanalyze; do not edit. -/\n"
                          "namespace Pya.C12.Gen\n\n/-- `pyanalyze.format_strings._FORMAT_STRING_REGEX` (source text) -/\n"
                          "def formatStringRegex : String := %s\n\nend Pya.C12.Gen\n" % _lean_str(rx))
    sites, unguarded = fold_sites()
    if len(sites) < 10:
        raise ValueError("fold-site scan found only %d try blocks: the scanned files changed shape" % len(sites))
    ftext = (
        "/-! Regenerated by harness/props/c12.py `translate` from the live pyanalyze; do not edit. -/\n"
        "namespace Pya.C12.Gen\n\n"
        "/-- every `try:` whose body executes an operation on statically known values: (file, function, exception classes caught) -/\n"
        "def foldSites : List (String × String × List String) := [\n  %s]\n\n"
        "/-- such operations outside every `try:`: (file, function, expression) -/\n"
        "def unguardedFolds : List (String × String × String) := [\n  %s]\n\n"
        "end Pya.C12.Gen\n"
    ) % (",\n  ".join("(%s, %s, [%s])" % (_lean_str(f), _lean_str(q), ", ".join(_lean_str(c) for c in caught)) for f, q, caught, _ in sites),
         ",\n  ".join("(%s, %s, %s)" % (_lean_str(f), _lean_str(q), _lean_str(t)) for f, q, t in unguarded))
    lean.write_if_changed(os.path.join(lean.LEAN, "PyaModel", "Generated", "FoldSites.lean"), ftext)
    if ctx is not None:
        ctx.extra["fold_sites"] = {"try_sites": len(sites), "narrow": [(f, q, c) for f, q, c, _ in sites if "Exception" not in c and "BaseException" not in c],
                                   "outside_any_try": unguarded}
    from harness.common import values as V
    tb, changed = V.regenerate_class_table()
    if ctx is not None:
        ctx.extra["tables_regenerated"] = {"error_codes": len(codes), "visitor_methods": meths, "class_table_changed_on_disk": changed}


# =================================================================== annotation expressions -> AExpr (Lean model input)
SUPPORTED_SHAPES = {"Name", "Constant", "Attribute", "Subscript", "Tuple", "List", "Set", "Dict", "BinOp", "UnaryOp", "Call"}


def _ctor_of(node, ns):
    """Which of the callees visit_Call treats specially a Name / dotted name evaluates to (ns = namespace the
    annotation context resolves names in)."""
    import typing
    n = node
    while isinstance(n, ast.Attribute):
        n = n.value
    if not isinstance(n, ast.Name) or ns is None:
        return "-"
    try:
        obj = eval(compile(ast.Expression(body=node), "<ann>", "eval"), dict(ns))
    except Exception:
        return "-"
    try:
        import typing_extensions as te
    except ImportError:  # pragma: no cover
        te = typing
    if obj is typing.NewType or obj is getattr(te, "NewType", None):
        return "nt"
    if obj is typing.TypeVar or obj is getattr(te, "TypeVar", None):
        return "tv"
    if obj is typing.ParamSpec or obj is getattr(te, "ParamSpec", None):
        return "ps"
    if obj is getattr(te, "deprecated", None) or obj is getattr(__import__("warnings"), "deprecated", None):
        return "dep"
    return "-"


def aexpr_sexp(node, ns=None):
    """s-expression of an annotation AST for the Lean driver (`toAExpr`)."""
    r = lambda n: aexpr_sexp(n, ns)
    if isinstance(node, ast.Name):
        return "(name %s)" % _ctor_of(node, ns)
    if isinstance(node, ast.Constant):
        return "const"
    if isinstance(node, ast.Attribute):
        return "(attr %s %s)" % (r(node.value), _ctor_of(node, ns))
    if isinstance(node, ast.Subscript):
        return "(sub %s %s)" % (r(node.value), r(node.slice))
    if isinstance(node, (ast.Tuple, ast.List, ast.Set)):
        return "(%s%s)" % (type(node).__name__.lower(), "".join(" " + r(e) for e in node.elts))
    if isinstance(node, ast.Dict):
        return "(dict (%s) (%s))" % (" ".join(r(k) for k in node.keys if k is not None), " ".join(r(v) for v in node.values))
    if isinstance(node, ast.BinOp):
        return "(binop %d %s %s)" % (isinstance(node.op, ast.BitOr), r(node.left), r(node.right))
    if isinstance(node, ast.UnaryOp):
        return "(unary %d %s)" % (isinstance(node.op, ast.USub), r(node.operand))
    if isinstance(node, ast.Call):
        return "(call %s (%s) (%s))" % (r(node.func), " ".join(r(a) for a in node.args), " ".join(r(k.value) for k in node.keywords))
    return "(other %s)" % type(node).__name__


def annotation_exprs(nodes):
    """Annotation expressions found under the given AST nodes (parameter / return / variable annotations), plus the
    parsed content of every string constant inside them (forward references)."""
    out = []
    for top in nodes:
        for n in ast.walk(top):
            anns = []
            if isinstance(n, ast.arg) and n.annotation is not None:
                anns.append(n.annotation)
            if isinstance(n, (ast.FunctionDef, ast.AsyncFunctionDef)) and n.returns is not None:
                anns.append(n.returns)
            if isinstance(n, ast.AnnAssign):
                anns.append(n.annotation)
            for a in anns:
                todo, depth = [a], 0
                while todo and depth < 5:          # a quoted annotation may itself contain quoted annotations
                    nxt = []
                    for x in todo:
                        out.append(x)
                        for c in ast.walk(x):
                            if isinstance(c, ast.Constant) and isinstance(c.value, str):
                                try:
                                    nxt.append(ast.parse(c.value, mode="eval").body)
                                except SyntaxError:
                                    pass
                    todo, depth = nxt, depth + 1
    return out


# =================================================================== known classes of the program search
def nodes_at(tree, ln, col):
    return [n for n in ast.walk(tree) if getattr(n, "lineno", None) == ln and getattr(n, "col_offset", None) == col]


def header_nodes(node):
    """The node without the statement lists nested in it (errors inside those are caught at the inner statement)."""
    if not isinstance(node, (ast.stmt, ast.ExceptHandler, ast.match_case)):
        return [node]
    out = []
    if isinstance(node, ast.Match):      # patterns and guards are evaluated by visit_Match itself
        for c in node.cases:
            out.append(c.pattern)
            if c.guard is not None:
                out.append(c.guard)
    for field, val in ast.iter_fields(node):
        if field in ("body", "orelse", "finalbody", "handlers", "cases") and isinstance(val, list):
            continue
        if isinstance(val, list):
            out += [v for v in val if isinstance(v, ast.AST)]
        elif isinstance(val, ast.AST):
            out.append(val)
    return out or [node]


def _under(tree, ln, col):
    """AST nodes the diagnostic at (ln, col) can stem from: the subtrees of the nodes at that position, statement
    bodies excluded."""
    out = []
    for n in nodes_at(tree, ln, col):
        for h in header_nodes(n):
            out += list(ast.walk(h))
        out.append(n)
    return out


def _in_function(tree, target):
    parents = {}
    for p in ast.walk(tree):
        for c in ast.iter_child_nodes(p):
            parents[c] = p
    n = target
    while n in parents:
        n = parents[n]
        if isinstance(n, (ast.FunctionDef, ast.AsyncFunctionDef, ast.Lambda)):
            return True
    return False


def _int_const(n):
    if isinstance(n, ast.UnaryOp) and isinstance(n.op, (ast.USub, ast.UAdd)):
        return _int_const(n.operand)
    return n.value if isinstance(n, ast.Constant) and type(n.value) is int else None


PINNED_VISITOR_KINDS = {"Attribute", "BinOp", "Call", "Constant", "Dict", "Expr", "List", "Name", "Set", "Subscript", "Tuple", "UnaryOp"}  # = Spec/Total.lean pinnedSup


def _p_annot_kind(tree, ln, col, det, ctxd):
    m = re.search(r"no visitor implemented for <ast\.(\w+) ", det.get("tail", ""))
    kind = m.group(1) if m else None
    if kind in PINNED_VISITOR_KINDS:
        return False      # a kind the pinned visitor handles: not this class
    has = lambda anns: [a for a in anns if kind is not None and any(type(c).__name__ == kind for c in ast.walk(a))]
    hits = has(annotation_exprs(nodes_at(tree, ln, col))) or has(annotation_exprs([tree]))
    ctxd["annots"] = hits[:3]
    return bool(hits)


def _p_annot_call(tree, ln, col, det, ctxd):
    anns = annotation_exprs(nodes_at(tree, ln, col)) + annotation_exprs([tree])
    for a in anns:
        for c in ast.walk(a):
            if isinstance(c, ast.Call):
                f = c.func
                nm = f.id if isinstance(f, ast.Name) else f.attr if isinstance(f, ast.Attribute) else None
                if nm in ("NewType", "TypeVar", "ParamSpec", "deprecated"):
                    return True
    return False


def _p_string_position(tree, ln, col, det, ctxd):
    """(ln, col) is the position of a node *inside* some annotation string: a quoted annotation, or — under
    `from __future__ import annotations` — the text Python stores for an unquoted one (ast.unparse of the expression)."""
    if ln is None or col is None:
        return False
    texts = [n.value for n in ast.walk(tree) if isinstance(n, ast.Constant) and isinstance(n.value, str)]
    future = any(isinstance(n, ast.ImportFrom) and n.module == "__future__" and any(a.name == "annotations" for a in n.names) for n in tree.body)
    if future:
        for n in ast.walk(tree):
            anns = []
            if isinstance(n, ast.arg) and n.annotation is not None:
                anns.append(n.annotation)
            if isinstance(n, (ast.FunctionDef, ast.AsyncFunctionDef)) and n.returns is not None:
                anns.append(n.returns)
            if isinstance(n, ast.AnnAssign):
                anns.append(n.annotation)
            for a in anns:
                try:
                    texts.append(ast.unparse(a))
                except Exception:
                    pass
    seen = 0
    while texts and seen < 4000:
        t = texts.pop()
        seen += 1
        try:
            inner = ast.parse(t, mode="eval")
        except (SyntaxError, ValueError, RecursionError):
            continue
        for c in ast.walk(inner):
            if getattr(c, "lineno", None) == ln and getattr(c, "col_offset", None) == col:
                return True
            if isinstance(c, ast.Constant) and isinstance(c.value, str) and c.value != t:
                texts.append(c.value)
    return False


def _p_huge_power(tree, ln, col, det, ctxd):
    """A `**` / `<<` whose right operand is not a small integer literal (a huge literal, or a name / expression that may
    be bound to one), and — confirming that this is what hangs — the same module with those operators replaced by 0
    is checked within the limit."""
    class Patch(ast.NodeTransformer):
        hits = 0

        def visit_BinOp(self, n):
            self.generic_visit(n)
            if isinstance(n.op, (ast.Pow, ast.LShift)):
                r = _int_const(n.right)
                if r is None or abs(r) >= 10 ** 4:
                    Patch.hits += 1
                    return ast.copy_location(ast.Constant(value=0), n)
            return n

        def visit_AugAssign(self, n):
            self.generic_visit(n)
            if isinstance(n.op, (ast.Pow, ast.LShift)):
                Patch.hits += 1
                return ast.copy_location(ast.Expr(value=ast.Constant(value=0)), n)
            return n

    Patch.hits = 0
    patched = ast.fix_missing_locations(Patch().visit(ast.parse(ast.unparse(tree))))
    if not Patch.hits:
        return False
    src2 = ast.unparse(patched) + "\n"
    # module-level constants such as K = 10 ** 30 are patched as well, so the module still imports
    if importable(src2) is not None:
        return True
    try:
        r = run_check(src2, ctxd["settings"], cpu=CPU_LIMIT)
    except BaseException:
        return True
    return not any(k == "timeout" for k, _, _ in r["problems"])


def _p_newtype_nonclass(tree, ln, col, det, ctxd):
    """NewType(name, X) with X not a plain (dotted) name, anywhere in the module (annotations included)."""
    trees = [tree] + annotation_exprs([tree])
    for t in trees:
        for n in ast.walk(t):
            if isinstance(n, ast.Call) and len(n.args) == 2:
                f = n.func
                if (f.id if isinstance(f, ast.Name) else f.attr if isinstance(f, ast.Attribute) else None) == "NewType" and \
                        not isinstance(n.args[1], (ast.Name, ast.Attribute)):
                    return True
    return False


def _p_version_info_compare(tree, ln, col, det, ctxd):
    """An ordering comparison whose left operand is (an alias of) sys.version_info, under the reported node."""
    def is_vi(n):
        return (isinstance(n, ast.Attribute) and n.attr == "version_info") or (isinstance(n, ast.Name) and n.id == "version_info")
    for n in _under(tree, ln, col):
        if isinstance(n, ast.Compare):
            operands = [n.left] + list(n.comparators)
            for i, op in enumerate(n.ops):
                if isinstance(op, (ast.Lt, ast.LtE, ast.Gt, ast.GtE)) and is_vi(operands[i]):
                    return True
    return False


def _sub_name(n):
    v = n.value
    return v.id if isinstance(v, ast.Name) else v.attr if isinstance(v, ast.Attribute) else None


def _p_callable_arglist(tree, ln, col, det, ctxd):
    """An annotation Callable[[a, b, ...], r] whose parameter list has at least two entries (a ParamSpec that is not the
    only / last entry makes Signature.validate raise)."""
    for a in annotation_exprs(nodes_at(tree, ln, col)) + annotation_exprs([tree]):
        for n in ast.walk(a):
            if isinstance(n, ast.Subscript) and _sub_name(n) == "Callable" and isinstance(n.slice, ast.Tuple) and n.slice.elts and \
                    isinstance(n.slice.elts[0], ast.List) and len(n.slice.elts[0].elts) >= 2:
                return True
    return False


def _p_annotated_empty(tree, ln, col, det, ctxd):
    for a in annotation_exprs(nodes_at(tree, ln, col)) + annotation_exprs([tree]):
        for n in ast.walk(a):
            if isinstance(n, ast.Subscript) and _sub_name(n) == "Annotated" and isinstance(n.slice, ast.Tuple) and not n.slice.elts:
                return True
    return False


def _p_typevar_constraints(tree, ln, col, det, ctxd):
    for n in ast.walk(tree):
        if isinstance(n, ast.Call) and len(n.args) >= 3:
            f = n.func
            if (f.id if isinstance(f, ast.Name) else f.attr if isinstance(f, ast.Attribute) else None) == "TypeVar":
                return True
    return False


def _user_frames(det):
    return bool(re.search(r'File "c12mod_\d+\.py"', det.get("description", "")))


KNOWN_CLASSES = [
    # Repaired in /repo and therefore no longer classes (a crash with one of these signatures is a NEW violation; their
    # witnesses stay in corpus/C12.jsonl as regression cases): annotCtorCall 0e3888a, whileOutsideFunction 211255f,
    # classKeywordImplicitAny 3858618, sliceLiteralBounds 97cec89, overloadDetailEllipsis 633bfb7, suggestedTypeOfMetaclass fcd36f7, matchValueNotLiteral 9d3b0d2,
    # constrainedTypeVarBoolability 67ee234, overloadStarArgs 5bac5ce, versionInfoCompareRaises 8c71858, protocolCacheKeyUnhashable 9d530d5,
    # moduleAnnotationUncaught dd2d4d8, annotatedEmptyArgs 98aa7df, callableParamSpecNotLast c190182, unsupportedAnnotNode 9c1e869, boundsDedupUnhashable 766092b,
    # recursiveTypeVarConstraint 69dd78e, pep695AliasUnhashableArgs 6363fee, formatFieldUnicodeDigit 3ae974f,
    # hugeIntRepr 891931a, hugeRangeLen fe3a397, starArgsSelfNodeMissing 4c8e2b0, typeAliasBoolability 6baa009.
    # (class, kinds, signature test, syntactic predicate on (tree, lineno, col, detail, ctx))
    ("userCodeRaises", ("internal_error", "raises"), lambda s, d: _user_frames(d), lambda *a: True),
    ("metaclassAttrRecursion", ("internal_error",), lambda s, d: s[0] == "RecursionError" and "has_attribute" in s[1],
     lambda t, ln, col, d, c: any(isinstance(n, ast.Attribute) and ((isinstance(n.value, ast.Attribute) and n.value.attr == "__class__") or
                                                                     (isinstance(n.value, ast.Call) and isinstance(n.value.func, ast.Name) and n.value.func.id == "type"))
                                  for n in _under(t, ln, col))),
    ("constrainedTypeVarAttribute", ("internal_error",), lambda s, d: s == ("TypeError", "attributes.py::get_attribute") and "unwrap MultiValuedValue" in d.get("tail", ""),
     # get_root_value() unwraps Annotated / TypeVar / TypeAliasValue down to a union: a constrained TypeVar, or a PEP 695 alias of a union
     lambda t, ln, col, d, c: _p_typevar_constraints(t, ln, col, d, c) or any(isinstance(n, ast.TypeAlias) for n in ast.walk(t))),
    ("inlineParamSpecRecursion", ("internal_error",), lambda s, d: s[0] == "RecursionError" and "substitute_typevars" in s[1],
     lambda t, ln, col, d, c: any(isinstance(n, ast.Call) and (getattr(n.func, "id", None) == "ParamSpec" or getattr(n.func, "attr", None) == "ParamSpec")
                                  for a in annotation_exprs([t]) for n in ast.walk(a))),
    ("deepLiteralRecursion", ("internal_error",), lambda s, d: s[0] == "RecursionError" and s[1] == "cycle:" and "while getting the repr" in d.get("description", "") + d.get("tail", "") or
     (s[0] == "RecursionError" and s[1] == "cycle:"),
     lambda t, ln, col, d, c: any(isinstance(n, (ast.For, ast.While)) and any(isinstance(a, ast.Assign) and isinstance(a.targets[0], ast.Name) and
                                                                              any(isinstance(x, ast.Name) and x.id == a.targets[0].id for x in ast.walk(a.value))
                                                                              for a in ast.walk(n)) for n in t.body)),
    # 891931a repaired KnownValue.__str__ only; the other repr-of-a-known-value sites (MultiValuedValue.__str__, stacked_scopes
    # CompositeVariable.__str__, the f'{key.val!r}' messages of implementation.py) still raise: same class until they are repaired
    ("hugeIntRepr", ("internal_error",), lambda s, d: s[0] == "ValueError" and "Exceeds the limit" in d.get("tail", "") and "integer string conversion" in d.get("tail", ""),
     lambda t, ln, col, d, c: True),
    ("newTypeOfNonClass", ("internal_error",), lambda s, d: s == ("AttributeError", "typeshed.py::_get_info_for_name"), _p_newtype_nonclass),
    ("stringAnnotationPosition", ("bad-col", "bad-line"), lambda s, d: True, _p_string_position),
    ("hugeConstantPower", ("timeout",), lambda s, d: True, _p_huge_power),
]


def classify(src, kind, sig, det, settings):
    """(class name or None, conforms, aux) for one problem of the program search."""
    try:
        tree = ast.parse(src)
    except SyntaxError:
        return None, True, {}
    ln, col = det.get("lineno"), det.get("col")
    ctxd = {"implicit_any": bool(settings.get(ErrorCode.implicit_any, False)), "settings": settings}
    for name, kinds, sigtest, pred in KNOWN_CLASSES:
        if kind not in kinds:
            continue
        try:
            if sigtest(sig, det) and pred(tree, ln, col, det, ctxd):
                return name, True, ctxd
        except Exception:
            continue
    return None, True, ctxd


# =================================================================== (3) emit model: protocol + streams
def str_hash(s):
    h = 7
    for ch in s:
        h = (h * 131 + ord(ch)) % 1000000007
    return h


def enc_text(s):
    if s is None:
        return "-"
    if s == "":
        return "+"
    return ".".join(str(ord(c)) for c in s)


def enc_line(l):
    return ".".join(str(ord(c)) for c in l) if l else "-"


def encode_calls(rec):
    """Recorded show_error calls -> protocol tokens; None if a call is outside the protocol."""
    ids, out = {}, []
    for cap, node, code, e, obey, save, detail, ic in rec:
        if ic is not None and ic != "# static analysis: ignore":
            return None
        if node is None:
            nk = "-"
        elif type(node).__name__ == "_FakeNode":
            nk = "f%d.%d" % (node.lineno, node.col_offset)
        else:
            nk = "n%d" % ids.setdefault(id(node), len(ids))
        has_pos = bool(node) and hasattr(node, "lineno") and hasattr(node, "col_offset")
        cname = getattr(code, "name", None) if code is not None else None
        if code is not None and (cname is None or "," in cname or " " in cname):
            return None
        out.append(",".join([str(int(cap)), nk, cname or "-", enc_text(None if e is None else str(e)),
                             enc_text(None if detail is None else str(detail)),
                             str(node.lineno) if has_pos else "-", str(node.col_offset) if has_pos else "-",
                             str(int(obey)), str(int(save))]))
    return out


def emit_line(fname, off, lines, calls):
    return "E|%s|%s|%s|%s" % (fname, ",".join(sorted(off)) or "-", " ".join(enc_line(l) for l in lines), " ".join(calls))


def impl_failures(res, lines):
    """Real failure dicts in the driver's output format (with the harness oracle's well-formedness bit)."""
    out = []
    for f in res:
        code = getattr(f.get("code"), "name", None)
        ln, col = f.get("lineno"), f.get("col_offset")
        pos = "-" if ln is None and col is None else "%s.%s" % ("-" if ln is None else ln, "-" if col is None else col)
        wf = (code in REGISTRY and isinstance(ln, int) and isinstance(col, int) and 1 <= ln <= len(lines)
              and 0 <= col <= len(lines[ln - 1]) and bool(f.get("description")) and bool(f.get("message")))
        out.append("%s@%s:%d:%d:%d" % (code or "-", pos, str_hash(f.get("description", "")), str_hash(f.get("message", "")), int(wf)))
    return ";".join(out) if out else "-"


LINE_KINDS = ["x = 1", "", "# static analysis: ignore", "# static analysis: ignore[undefined_name]", "y = foo  # static analysis: ignore",
              "z = bar  # static analysis: ignore[undefined_name]", "    indented = 2", "# comment", "w = 'é'", "pass",
              "a = 1 \x0c # static analysis: ignore", "s = '\x1c'"]
UNIT_CODES = ["undefined_name", "incompatible_call", "internal_error", "unused_ignore", None]


class _Node:
    """Stand-in for an AST node handed to show_error (anything with lineno / col_offset attributes works)."""
    def __init__(self, lineno=None, col_offset=None):
        if lineno is not None:
            self.lineno = lineno
        if col_offset is not None:
            self.col_offset = col_offset


def gen_unit_case(rng, nodes):
    lines = [rng.choice(LINE_KINDS) for _ in range(rng.randint(1, 6))]
    off = [c for c in ("undefined_name", "unused_ignore", "bare_ignore") if rng.random() < 0.25]
    calls = []
    for _ in range(rng.randint(1, 5)):
        r = rng.random()
        if r < 0.08:
            node = None
        elif r < 0.14:
            node = _Node(rng.randint(1, len(lines)))            # no col_offset
        elif r < 0.22:
            node = _Node(rng.randint(0, len(lines) + 2), rng.randint(0, 30))   # possibly outside the file
        else:
            ln = rng.randint(1, len(lines))
            node = _Node(ln, rng.randint(0, len(lines[ln - 1]) + (2 if rng.random() < 0.1 else 0)))
        if nodes and rng.random() < 0.15:
            node = rng.choice(nodes)
        nodes.append(node)
        code = rng.choice(UNIT_CODES)
        e = rng.choice([None, None, "msg", "", "two\nlines", "ünï"])
        calls.append(dict(node=node, code=code, e=e, detail=rng.choice([None, None, "more", ""]),
                          obey=rng.random() < 0.85, save=rng.random() < 0.9))
    return lines, off, calls


def run_unit_case(lines, off, calls):
    """Feed synthetic show_error calls to a real NameCheckVisitor over the given file. Returns (outcome, recorded)."""
    Rec = _rec_class()
    src = "\n".join(lines) + "\n"
    st = dict(ALL_ON)
    for c in off:
        st[getattr(ErrorCode, c)] = False
    kw = kwargs_for(st)
    v = Rec("unit.py", src, ast.parse("pass"), module=types.ModuleType("unit"), **kw)
    v._rec = []
    try:
        with contextlib.redirect_stderr(io.StringIO()):
            for c in calls:
                code = None if c["code"] is None else getattr(ErrorCode, c["code"])
                v.show_error(c["node"], c["e"], code, detail=c["detail"], obey_ignore=c["obey"], save=c["save"])
            v.show_errors_for_unused_ignores(ErrorCode.unused_ignore)
            v.show_errors_for_bare_ignores(ErrorCode.bare_ignore)
    except (IndexError, AssertionError) as e:
        return "EXC", v._rec
    return impl_failures(v.all_failures, lines), v._rec


def emit_unit_stream(ctx, with_model=True):
    rng = ctx.rng
    cases, lines_out = [], []
    for _ in range(ctx.n(400, 6000)):
        nodes = []
        lines, off, calls = gen_unit_case(rng, nodes)
        impl, rec = run_unit_case(lines, off, calls)
        toks = encode_calls(rec)
        if toks is None:
            continue
        cases.append((lines, off, calls, impl))
        lines_out.append(emit_line("unit.py", off, lines, toks))
    outs = lean.run_driver("C12", lines_out) if with_model and lines_out else [None] * len(cases)
    for (lines, off, calls, impl), mo, ln in zip(cases, outs, lines_out):
        ctx.count(1, emit_unit=1)
        case = {"stream": "emit", "lines": lines, "off": off,
                "calls": [dict(c, node=None if c["node"] is None else [getattr(c["node"], "lineno", None), getattr(c["node"], "col_offset", None)]) for c in calls]}
        bad = impl != "EXC" and impl != "-" and any(x.endswith(":0") for x in impl.split(";"))
        if impl == "EXC" or bad:
            ctx.nontriv("emit|" + ln)
        if mo is None:
            continue
        model, _, dcls = mo.partition(" D=")
        ctx.corr("emit")
        if model != impl:
            ctx.disagree("emit", dict(case, driver_line=ln), impl, model)
        if len(ctx.samples) < 6 and (bad or impl == "EXC") and not any(isinstance(s, dict) and s.get("stream") == "emit" for s in ctx.samples):
            ctx.sample({"stream": "emit", "lines": lines, "impl": impl, "model": model, "D": dcls})
        # the model's theorem on this input: every call inside the file (D = '-') => no exception, all records well-formed
        if dcls == "-" and (impl == "EXC" or bad):
            ctx.candidate(case, "show_error calls with registered codes, positions inside the file and non-empty messages gave %s" % impl,
                          cls=None, conforms=(model == impl), stream="emit")


# =================================================================== annotation visitor stream
def _ann_namespace():
    import typing
    try:
        from typing_extensions import deprecated
    except ImportError:  # pragma: no cover
        from warnings import deprecated
    mod = types.SimpleNamespace(NT=typing.NewType, TV=typing.TypeVar, x=3, C=int, List=typing.List)
    return {"NT": typing.NewType, "TV": typing.TypeVar, "PS": typing.ParamSpec, "dep": deprecated, "int": int, "str": str,
            "List": typing.List, "Optional": typing.Optional, "obj": 3, "mod": mod, "C": dict, "tuple": tuple}


def gen_ann_src(rng, d=3):
    """Source text of a random annotation expression over every ast expression kind."""
    a = lambda: gen_ann_src(rng, d - 1)
    leaf = lambda: rng.choice(["int", "str", "List", "Optional", "obj", "undef", "C", "tuple", "1", "'s'", "None", "...", "mod.x", "mod.C", "mod.zz", "NT", "TV"])
    if d <= 0:
        return leaf()
    k = rng.choice(["leaf", "leaf", "sub", "sub", "sub2", "tuple", "list", "set", "dict", "bitor", "binop", "usub", "unary", "call", "ctor", "ctor", "attr",
                    "starred", "slice", "lambda", "ifexp", "compare", "boolop", "fstring", "listcomp", "genexp", "dictcomp", "walrus", "await", "yield"])
    if k == "leaf":
        return leaf()
    if k == "sub":
        return "%s[%s]" % (rng.choice(["List", "Optional", "tuple", "C", "undef", a()]), a())
    if k == "sub2":
        return "%s[%s, %s]" % (rng.choice(["tuple", "C", "mod.List"]), a(), a())
    if k == "tuple":
        return "(%s, %s)" % (a(), a())
    if k == "list":
        return "[%s]" % ", ".join(a() for _ in range(rng.randint(0, 2)))
    if k == "set":
        return "{%s}" % ", ".join(a() for _ in range(rng.randint(1, 2)))
    if k == "dict":
        return "{%s: %s%s}" % (a(), a(), rng.choice(["", ", **%s" % a()]))
    if k == "bitor":
        return "(%s | %s)" % (a(), a())
    if k == "binop":
        return "(%s %s %s)" % (a(), rng.choice(["+", "-", "&", "@"]), a())
    if k == "usub":
        return "(-%s)" % a()
    if k == "unary":
        return "(%s%s)" % (rng.choice(["~", "not ", "+"]), a())
    if k == "call":
        f = rng.choice(["int", "obj", "undef", "C", "mod.C", "mod.x", "List", "(%s)" % a()])
        return "%s(%s)" % (f, ", ".join([a() for _ in range(rng.randint(0, 2))] + (["k=%s" % a()] if rng.random() < 0.3 else [])))
    if k == "ctor":
        c = rng.choice(["NT", "TV", "PS", "dep", "mod.NT", "mod.TV"])
        if rng.random() < 0.3:     # arguments that do not fit the runtime constructor (reported, not raised, since 0e3888a)
            return "%s(%s)" % (c, ", ".join([a() for _ in range(rng.randint(0, 3))] + (["k=%s" % a()] if rng.random() < 0.3 else [])))
        if c in ("NT", "mod.NT"):
            return "%s('N', %s)" % (c, a())
        if c in ("TV", "mod.TV"):
            return "%s('T'%s%s)" % (c, rng.choice(["", ", " + a()]), rng.choice(["", ", bound=" + a(), ", covariant=" + a()]))
        if c == "PS":
            return "PS('P'%s)" % rng.choice(["", ", " + a(), ", bound=" + a()])
        return "dep('m'%s%s)" % (rng.choice(["", ", " + a()]), rng.choice(["", "", ", category=" + a()]))
    if k == "attr":
        return "(%s).%s" % (a(), rng.choice(["x", "NT", "real", "zz"]))
    if k == "starred":
        return rng.choice(["(%s, *%s)", "tuple[%s, *%s]", "[%s, *%s]", "int(%s, *%s)"]) % (a(), a())
    if k == "slice":
        return "%s[%s:%s]" % (rng.choice(["tuple", "C", "obj"]), a(), rng.choice(["", a()]))
    if k == "lambda":
        return "(lambda: %s)" % a()
    if k == "ifexp":
        return "(%s if %s else %s)" % (a(), a(), a())
    if k == "compare":
        return "(%s < %s)" % (a(), a())
    if k == "boolop":
        return "(%s and %s)" % (a(), a())
    if k == "fstring":
        return "f'{int}'"
    if k == "listcomp":
        return "[%s for q in %s]" % (a(), a())
    if k == "genexp":
        return "(%s for q in %s)" % (a(), a())
    if k == "dictcomp":
        return "{%s: %s for q in %s}" % (a(), a(), a())
    if k == "walrus":
        return "(q := %s)" % a()
    if k == "await":
        return "(await %s)" % a()
    return "(yield %s)" % a()


def annot_stream(ctx, with_model=True):
    """Random annotation expressions through the real `annotations._Visitor`: it must never raise (since fix 9c1e869
    unsupported nodes are reported), and the kinds it reports as unsupported, in order, must be the Lean model's."""
    from pyanalyze import annotations
    ns = _ann_namespace()
    reported = []

    class Ctx(annotations.Context):
        def get_name(self, node):
            return self.get_name_from_globals(node.id, ns)

        def show_error(self, message, error_code=None, node=None):
            m = re.match(r"Unsupported syntax in annotation: (\w+)", message)
            if m:
                reported.append(m.group(1))

    rng = ctx.rng
    fixed = ["tuple[int, *tuple[str, ...]]", "tuple[1:2]", "int | str", "int + tuple[1:2]", "~(lambda: 1)", "undef(*int)", "NT('N', *int)", "TV('T', bound=lambda: 1)",
             "dep('m', *int, category=1)", "dep('m', *int)", "int(lambda: 1)", "NT()", "NT(1, 2, 3)", "TV()", "TV(1)", "TV(obj, mod.C)", "PS(1)", "PS()", "NT('N', int, k=1)",
             "{**int}", "{int: (yield)}", "mod.NT('N', (q := 1))", "(mod.x)(lambda: 1)", "-(lambda: 1)", "(lambda: 1, f'{int}', [1 < 2])", "(lambda: 1)[await int]",
             "(lambda: 1)(f'')", "(lambda: 1).x", "TV('T', (lambda: 1), bound=(1 < 2))"]
    srcs = fixed + [gen_ann_src(rng, rng.choice([1, 2, 2, 3])) for _ in range(ctx.n(600, 8000))]
    cases = []
    for s in srcs:
        try:
            body = ast.parse(s, mode="eval").body
        except (SyntaxError, RecursionError, ValueError):
            continue
        del reported[:]
        try:
            with contextlib.redirect_stderr(io.StringIO()):
                annotations._Visitor(Ctx()).visit(body)
            impl = ",".join(reported) or "-"
        except Exception as e:
            impl = "EXC:%s" % type(e).__name__
        cases.append((s, aexpr_sexp(body, ns), impl))
    outs = lean.run_driver("C12", ["A " + sx for _, sx, _ in cases]) if with_model and cases else [None] * len(cases)
    for (s, sx, impl), mo in zip(cases, outs):
        ctx.count(1, annot=1, **{"annot_" + ("EXC" if impl.startswith("EXC") else "clean" if impl == "-" else "reports"): 1})
        if impl != "-":
            ctx.nontriv("annot|" + s)
        case = {"stream": "annot", "annotation": s, "aexpr": sx}
        model = None
        if mo is not None:
            m = re.match(r"res=(\S+) old=(\S+)$", mo)
            model = m.group(1) if m else mo
            ctx.corr("annot")
            if model != impl:
                ctx.disagree("annot", case, impl, model)
            if len([x for x in ctx.samples if isinstance(x, dict) and x.get("stream") == "annot"]) < 1 and impl not in ("-",):
                ctx.sample(dict(case, impl=impl, model=model, old_visitor=m.group(2) if m else None))
        if impl.startswith("EXC"):
            ctx.candidate(case, "annotations._Visitor raised: %s" % impl, cls=None, conforms=False, stream="annot")


# =================================================================== runtime-annotation graphs (the recursion guard)
def gen_rt_graph(rng):
    """A graph of typing objects: leaves, aliases over older nodes, ForwardRefs (evaluated or not) to any node."""
    n = rng.choice([2, 3, 3, 4, 5, 6, 7])
    nodes = []
    for i in range(n):
        r = rng.random()
        if i == 0 or r < 0.25:
            nodes.append(("l", rng.randrange(3)) if (i > 0 or rng.random() < 0.5) and not (i == 0 and rng.random() < 0.5) else ("f", rng.randrange(n + 1), int(rng.random() < 0.5)))
        elif r < 0.65:
            nodes.append(("a", [rng.randrange(i) for _ in range(rng.choice([1, 1, 2]))]))
        else:
            nodes.append(("f", rng.randrange(n + 1), int(rng.random() < 0.5)))
    nodes = [(k, t, ev if t < n else 0) if k == "f" else (k, t) for k, t, *rest in nodes for ev in [rest[0] if rest else 0]]
    return nodes, rng.randrange(n)


_RT_CASE = [0]


def rt_objects(nodes):
    import typing
    leaf = [int, str, float]
    objs, frefs = [], []
    # typing caches List[ForwardRef("x")] globally by the reference's *text*: every case and every node gets its own
    # spelling, otherwise an alias silently contains the ForwardRef object of an earlier case
    _RT_CASE[0] += 1
    tag = "G%d_" % _RT_CASE[0]
    for i, nd in enumerate(nodes):
        if nd[0] == "l":
            objs.append(leaf[nd[1]])
        elif nd[0] == "a":
            args = [objs[a] for a in nd[1]]
            objs.append(typing.List[args[0]] if len(args) == 1 else typing.Dict[args[0], args[1]])
        else:
            fr = typing.ForwardRef("(" * i + tag + "N%d" % nd[1] + ")" * i)
            objs.append(fr)
            frefs.append((fr, nd))
    for fr, nd in frefs:
        if nd[2]:
            fr.__forward_evaluated__ = True
            fr.__forward_value__ = objs[nd[1]]
    return objs, {tag + "N%d" % i: o for i, o in enumerate(objs)}


def shape_of(v):
    from pyanalyze import value as PV
    if isinstance(v, PV.AnyValue):
        return "any"
    if isinstance(v, PV.GenericValue) and v.typ in (list, dict):
        return "(A %s)" % " ".join(shape_of(a) for a in v.args)
    if type(v) is PV.TypedValue and v.typ in (int, str, float):
        return "L%d" % [int, str, float].index(v.typ)
    return "?%s" % v


def rt_sexp(nodes, start):
    enc = lambda nd: "(l %d)" % nd[1] if nd[0] == "l" else "(a %s)" % " ".join(map(str, nd[1])) if nd[0] == "a" else "(f %d %d)" % (nd[1], nd[2])
    return "T %d %s" % (start, " ".join(enc(nd) for nd in nodes))


def tfr_stream(ctx, with_model=True, cases=None):
    """Real `type_from_runtime` on generated graphs of typing objects (recursive aliases through ForwardRefs, resolved by
    typing or not) vs the Lean model `tfr`: same value shape, no exception."""
    from pyanalyze.annotations import type_from_runtime
    rng = ctx.rng
    fixed = [([("f", 1, 1), ("a", [0])], 1), ([("f", 1, 0), ("a", [0])], 1), ([("f", 1, 1), ("a", [0])], 0), ([("f", 2, 1), ("f", 3, 1), ("a", [1]), ("a", [0, 2])], 3),
             ([("f", 0, 1)], 0), ([("f", 0, 0)], 0), ([("l", 0), ("f", 3, 0), ("a", [0, 1]), ("a", [2, 1])], 3)]
    if cases is None:
        cases = fixed + [gen_rt_graph(rng) for _ in range(ctx.n(400, 5000))]
    done = []
    old_limit = sys.getrecursionlimit()
    for nodes, start in cases:
        try:
            objs, ns = rt_objects(nodes)
        except Exception as e:
            ctx.tag("tfr_unbuildable")
            continue
        sys.setrecursionlimit(600)       # a RecursionError is the failure looked for: reach it quickly
        try:
            with contextlib.redirect_stderr(io.StringIO()):
                impl = shape_of(type_from_runtime(objs[start], globals=ns))
        except RecursionError:
            impl = "EXC:RecursionError"
        except Exception as e:
            impl = "EXC:%s" % type(e).__name__
        finally:
            sys.setrecursionlimit(old_limit)
        done.append((nodes, start, impl))
    outs = lean.run_driver("C12", [rt_sexp(n_, s_) for n_, s_, _ in done]) if with_model and done else [None] * len(done)
    for (nodes, start, impl), mo in zip(done, outs):
        cyc = any(nd[0] == "f" for nd in nodes)
        ctx.count(1, tfr=1, **{"tfr_" + ("EXC" if impl.startswith("EXC") else "any" if "any" in impl else "closed"): 1})
        if cyc:
            ctx.nontriv(rt_sexp(nodes, start))
        case = {"stream": "tfr", "nodes": nodes, "start": start, "graph": rt_sexp(nodes, start)}
        if mo is not None:
            ctx.corr("tfr")
            if mo != impl:
                ctx.disagree("tfr", case, impl, mo)
            if "any" in impl and not any(isinstance(x, dict) and x.get("stream") == "tfr" for x in ctx.samples):
                ctx.sample(dict(case, impl=impl, model=mo))
        if impl.startswith("EXC"):
            ctx.candidate(case, "type_from_runtime raised on a graph of typing objects: %s" % impl, cls=None, conforms=(mo is None or mo == impl), stream="tfr")


# =================================================================== (2) value API
def tw(t):
    k = t[0]
    if k in ("generic", "seq"):
        return 2 + sum(tw(x) for x in t[2])
    if k == "many":
        return 1 + tw(t[1])
    if k == "union":
        return 1 + sum(tw(x) for x in t[1])
    if k == "annotated":
        return tw(t[1])
    return 2


def tdepth(t):
    k = t[0]
    if k in ("generic", "seq"):
        return 1 + max([tdepth(x) for x in t[2]] or [0])
    if k == "union":
        return 1 + max([tdepth(x) for x in t[1]] or [0])
    if k in ("many", "annotated"):
        return 1 + tdepth(t[1])
    return 1


def tsize(t):
    k = t[0]
    if k in ("generic", "seq"):
        return 1 + sum(tsize(x) for x in t[2])
    if k == "union":
        return 1 + sum(tsize(x) for x in t[1])
    if k in ("many", "annotated"):
        return 1 + tsize(t[1])
    return 1


def ext_values(rng):
    """Values of classes outside the Lean term language, built directly."""
    from pyanalyze.signature import ParameterKind, SigParameter, Signature, ANY_SIGNATURE
    from pyanalyze import value as PV
    from harness.common import values as V
    leaf = [PV.TypedValue(int), PV.TypedValue(str), PV.KnownValue(1), PV.KnownValue(None), PV.AnyValue(PV.AnySource.explicit),
            PV.TypeVarValue(V.TYPEVARS[0]), PV.GenericValue(list, [PV.TypedValue(int)]), PV.NO_RETURN_VALUE,
            PV.MultiValuedValue([PV.TypedValue(int), PV.KnownValue(None)])]
    k = rng.choice(["typeddict", "typeddict", "dictinc", "callable", "callable_any", "subclass_exact", "subclass_tv", "annotated_ext", "tvar_bound",
                    "unbound_method", "kvunion", "seq_set", "literal_only"])
    L = lambda: rng.choice(leaf)
    if k == "typeddict":
        items = {key: PV.TypedDictEntry(L(), required=rng.random() < 0.7, readonly=rng.random() < 0.2) for key in rng.sample(["a", "b", "c"], rng.randint(0, 3))}
        return k, PV.TypedDictValue(items, extra_keys=L()) if rng.random() < 0.3 else PV.TypedDictValue(items)
    if k == "dictinc":
        return k, PV.DictIncompleteValue(dict, [PV.KVPair(L(), L(), is_many=rng.random() < 0.3, is_required=rng.random() < 0.8) for _ in range(rng.randint(0, 3))])
    if k == "callable":
        ps = [SigParameter("p%d" % i, rng.choice([ParameterKind.POSITIONAL_ONLY, ParameterKind.POSITIONAL_OR_KEYWORD, ParameterKind.KEYWORD_ONLY]), annotation=L())
              for i in range(rng.randint(0, 3))]
        ps.sort(key=lambda p: p.kind.value)
        return k, PV.CallableValue(Signature.make(ps, L()))
    if k == "callable_any":
        return k, PV.CallableValue(ANY_SIGNATURE)
    if k == "subclass_exact":
        return k, PV.SubclassValue(PV.TypedValue(rng.choice([int, str, list, object])), exactly=True)
    if k == "subclass_tv":
        return k, PV.SubclassValue(PV.TypeVarValue(V.TYPEVARS[1]))
    if k == "annotated_ext":
        return k, PV.AnnotatedValue(L(), [PV.KnownValue("m"), PV.KnownValue(2)])
    if k == "tvar_bound":
        return k, PV.TypeVarValue(V.TYPEVARS[2], bound=L()) if rng.random() < 0.5 else PV.TypeVarValue(V.TYPEVARS[2], constraints=(PV.TypedValue(int), PV.TypedValue(str)))
    if k == "unbound_method":
        from pyanalyze.stacked_scopes import Composite
        return k, PV.UnboundMethodValue("append", Composite(PV.TypedValue(list)))
    if k == "kvunion":
        return k, PV.MultiValuedValue([PV.TypedDictValue({"a": PV.TypedDictEntry(L())}), PV.DictIncompleteValue(dict, [PV.KVPair(PV.KnownValue("a"), L())])])
    if k == "seq_set":
        return k, PV.SequenceValue(rng.choice([set, list, tuple]), [(rng.random() < 0.3, L()) for _ in range(rng.randint(0, 3))])
    return k, PV.TypedValue(str, literal_only=True)


VALUE_OPS = ["can_assign", "can_assign_exclude_any", "is_assignable", "can_overlap_IS", "can_overlap_MATCH", "can_overlap_EQ", "unite_values",
             "unite_and_simplify", "substitute_typevars", "simplify", "get_type_value", "str", "hash", "eq"]


def value_ops(checker, va, vb, vc, tvmap):
    """Every public operation of the property on concrete Values; returns {op: result or 'EXC:…'}."""
    from pyanalyze import value as PV
    out = {}

    def run(name, f):
        try:
            out[name] = f()
        except Exception as e:
            out[name] = "EXC:%s: %s @%s" % (type(e).__name__, str(e)[:80], traceback.extract_tb(e.__traceback__)[-1].name)

    run("can_assign", lambda: va.can_assign(vb, checker))

    def excl():
        with checker.set_exclude_any():
            return va.can_assign(vb, checker)
    run("can_assign_exclude_any", excl)
    run("is_assignable", lambda: va.is_assignable(vb, checker))
    for mode in PV.OverlapMode:
        run("can_overlap_" + mode.name, lambda mode=mode: va.can_overlap(vb, checker, mode))
    run("unite_values", lambda: PV.unite_values(va, vb, vc))
    run("unite_and_simplify", lambda: PV.unite_and_simplify(va, vb, vc, limit=2))
    run("substitute_typevars", lambda: va.substitute_typevars(tvmap))
    run("simplify", lambda: va.simplify())
    run("get_type_value", lambda: va.get_type_value())
    run("str", lambda: str(va))
    run("hash", lambda: hash(va))
    run("eq", lambda: va == vb)
    return out


def gen_value_terms(ctx):
    from harness.common import gen_values as G
    from harness.props.c14 import plant, near
    rng, depth = ctx.rng, ctx.n(2, 3)
    out = []
    for _ in range(ctx.n(900, 12000)):
        a = G.gen_ty(rng, depth, allow_any=rng.random() < 0.3)
        if rng.random() < 0.1:
            a = ("known", G.gen_obj(rng, 2))
        b = near(rng, a, depth) if rng.random() < 0.6 else G.gen_ty(rng, depth, allow_any=rng.random() < 0.3)
        c = G.gen_ty(rng, rng.choice([1, depth]), allow_any=rng.random() < 0.2)
        if rng.random() < 0.35:
            a = plant(rng, a)
        if rng.random() < 0.2:
            b = plant(rng, b)
        r = rng.random()
        if r < 0.12 and hasattr(G, "gen_big_union"):
            # unions of >= 10 members take MultiValuedValue's hash-set fast path (_get_known_subvals); literals, incl. unhashable
            # ones, on either side
            a = G.gen_big_union(rng, allow_any=rng.random() < 0.2)
            b = rng.choice([("known", G.gen_obj(rng, 2)), ("known", rng.choice([("list", []), ("dict", [], []), ("set", [("int", 1), ("int", 2)]), ("list", [("int", 1)])])),
                            rng.choice(a[1]), G.gen_big_union(rng), b])
            if rng.random() < 0.3:
                a, b = b, a
            if rng.random() < 0.3:
                c = G.gen_big_union(rng)
            ctx.tag("value_big_union")
        a, b, c = G.norm_term(a), G.norm_term(b), G.norm_term(c)
        if "many" in (a[0], b[0], c[0]):
            continue
        out.append((a, b, c))
    return out


def corpus_entries():
    path = os.path.join(lean.HERE, "corpus", "C12.jsonl")
    out = []
    if os.path.exists(path):
        for l in open(path):
            if l.strip():
                out.append(json.loads(l))
    return out


def value_stream(ctx, with_model=True, triples=None):
    from pyanalyze import value as PV
    from harness.common import values as V, gen_values as G
    from harness.props.c03 import subterms, totuple
    from harness.props.c04 import unmodelled, proto_set
    checker = pya.make_checker()
    rng = ctx.rng
    if triples is None:
        triples = [tuple(totuple(x) for x in e["ops"]) for e in corpus_entries() if e.get("stream") == "value"] + gen_value_terms(ctx)
    P = proto_set()
    jobs, lines = [], []
    for a, b, c in triples:
        m = {0: G.norm_term(G.gen_ty(rng, 1)), 1: G.norm_term(G.gen_ty(rng, 1, allow_any=True))}
        if any(v[0] == "many" for v in m.values()):
            m = {0: ("typed", G.INT), 1: ("any",)}
        sa, sb, sc = V.ty_sexp(a), V.ty_sexp(b), V.ty_sexp(c)
        msexp = "(" + " ".join("(%d %s)" % (i, V.ty_sexp(v)) for i, v in m.items()) + ")"
        jobs.append((a, b, c, m, msexp))
        lines += ["ca 0 %s %s" % (sa, sb), "ca 1 %s %s" % (sa, sb), "unite %s %s %s" % (sa, sb, sc), "ubound %s %s %s" % (sa, sb, sc),
                  "subst %s %s" % (msexp, sa), "sbound %s %s" % (msexp, sa), "beq %s %s" % (sa, sb), "meas %s" % sa]
    outs = lean.run_driver("C12", lines) if with_model and lines else None
    closed = lambda t: not any(s[0] == "tvar" for s in subterms(t))

    def dec(v):
        try:
            return V.ty_sexp(V.value_to_ty(v))
        except V.Unencodable:
            return None

    for i, (a, b, c, m, msexp) in enumerate(jobs):
        case = {"stream": "value", "a": V.ty_sexp(a), "b": V.ty_sexp(b), "c": V.ty_sexp(c), "tvmap": msexp, "ops": [a, b, c]}
        ctx.count(1, value=1, **{"value_a_" + a[0]: 1})
        if any(t[0] in ("union", "generic", "seq", "annotated") for t in (a, b, c)):
            ctx.nontriv("value|%s|%s|%s" % (case["a"], case["b"], case["c"]))
        try:
            va, vb, vc = V.ty_to_value(a), V.ty_to_value(b), V.ty_to_value(c)
            tvmap = {V.TYPEVARS[k]: V.ty_to_value(v) for k, v in m.items()}
        except Exception as e:
            ctx.candidate(case, "building the values raised %r" % (e,), cls=None, conforms=True, stream="value")
            continue
        res = value_ops(checker, va, vb, vc, tvmap)
        conforms = True
        for op, r in res.items():
            if isinstance(r, str) and r.startswith("EXC:"):
                ctx.candidate(dict(case, op=op), "%s raised: %s" % (op, r[4:]), cls=None, conforms=True, stream="value")
        if i % 211 == 0:
            ctx.sample({"stream": "value", "a": case["a"], "b": case["b"], "results": {k: (str(v)[:60]) for k, v in list(res.items())[:4]}})
        if outs is None:
            continue
        m_ca0, m_ca1, m_unite, m_ub, m_subst, m_sb, m_beq, m_meas = outs[8 * i:8 * i + 8]
        okv = lambda r: not (isinstance(r, str) and r.startswith("EXC:"))
        # protocol checks are cached per Checker across modes (finding C10.protoCacheMode), so their verdicts depend on what this
        # stream called before; C04 compares them with fresh checkers, here pairs mentioning a protocol class are left out
        has_proto = any(s_[0] in ("typed", "generic", "seq") and s_[1] in P for t in (a, b) for s_ in subterms(t))
        if has_proto:
            ctx.tag("value_ca_protocol_skipped")
        if closed(a) and closed(b) and not unmodelled(a, b) and not has_proto:
            if okv(res["can_assign"]):
                ctx.corr("value-ca")
                iv = "0" if isinstance(res["can_assign"], PV.CanAssignError) else "1"
                if iv != m_ca0:
                    ctx.disagree("value-ca", case, iv, m_ca0)
            if okv(res["can_assign_exclude_any"]) and not any(s[0] in ("typed", "generic") and s[1] in P for s in subterms(a)):
                ctx.corr("value-ca-exclude-any")
                iv = "0" if isinstance(res["can_assign_exclude_any"], PV.CanAssignError) else "1"
                if iv != m_ca1:
                    ctx.disagree("value-ca-exclude-any", case, iv, m_ca1)
        # hash((bytes, b"")) == hash((bytes, False)): a zero-hash literal collides with the TypedValue of its class, which the
        # structural hash model (no accidental collisions) cannot see
        zero = {(G.INT, ("int", 0)), (G.BOOL, ("bool", 0)), (G.STR, ("str", "")), (G.BYTES, ("bytes", ""))}
        subs = [s_ for t in (a, b, c) + tuple(m.values()) for s_ in subterms(t)]
        collide = any(("typed", k) in subs and ("known", lit) in subs for k, lit in zero)
        if collide:
            ctx.tag("value_hash_collision_risk")
        if okv(res["unite_values"]):
            d = dec(res["unite_values"]) if not collide else None
            if d is not None:
                ctx.corr("value-unite")
                if d != m_unite:
                    ctx.disagree("value-unite", case, d, m_unite)
            # the bound theorems, evaluated on the real objects
            u = res["unite_values"]
            members = [] if u is PV.NO_RETURN_VALUE else list(u.vals) if isinstance(u, PV.MultiValuedValue) else None
            flat = [x for v in (va, vb, vc) for x in PV.flatten_values(v)]
            if members is not None and len(members) != 1:
                ctx.tag("bound_unite_members")
                if len(members) > len(flat) or not all(any(x == y for y in flat) for x in members):
                    ctx.candidate(dict(case, law="unite-members"), "unite_values produced a member that is not a flattened operand, or more members than operands",
                                  cls=None, conforms=(d == m_unite), stream="value")
            nums = m_ub.split()
            if len(nums) == 5 and (int(nums[0]) > int(nums[1]) or int(nums[2]) > int(nums[3]) or nums[4] != "1"):
                ctx.disagree("value-bounds", case, "theorem statement", "ubound=%s" % m_ub)
        if okv(res["substitute_typevars"]):
            d = dec(res["substitute_typevars"])
            if d is not None and not collide:
                ctx.corr("value-subst")
                if d != m_subst:
                    ctx.disagree("value-subst", case, d, m_subst)
                try:
                    rt = V.value_to_ty(res["substitute_typevars"])
                    bound = max([tw(v) for v in m.values()] + [1])
                    dbound = max([tdepth(v) for v in m.values()] + [0])
                    ctx.tag("bound_subst")
                    if tw(rt) > tw(a) * bound or tdepth(rt) > tdepth(a) + dbound:
                        ctx.candidate(dict(case, law="subst-bound"), "substitute_typevars result exceeds the weight / depth bound",
                                      cls=None, conforms=(d == m_subst), stream="value")
                except V.Unencodable:
                    pass
            nums = m_sb.split()
            if len(nums) == 5 and (int(nums[0]) > int(nums[1]) or int(nums[2]) > int(nums[3]) or nums[4] != "1"):
                ctx.disagree("value-bounds", case, "theorem statement", "sbound=%s" % m_sb)
        if okv(res["eq"]) and not collide:
            ctx.corr("value-eq")
            if ("1" if res["eq"] is True else "0") != m_beq:
                ctx.disagree("value-eq", case, res["eq"], m_beq)
        ctx.corr("value-meas")
        if m_meas != "%d %d %d" % (tsize(a), tw(a), tdepth(a)):
            ctx.disagree("value-meas", case, "%d %d %d" % (tsize(a), tw(a), tdepth(a)), m_meas)
    # values outside the Lean term language: implementation only
    for _ in range(ctx.n(500, 6000)):
        ka, va = ext_values(rng)
        kb, vb = ext_values(rng) if rng.random() < 0.6 else (ka, va)
        kc, vc = ext_values(rng)
        if rng.random() < 0.4:
            t = G.norm_term(G.gen_ty(rng, 2, allow_any=True))
            if t[0] != "many":
                kb, vb = "term", V.ty_to_value(t)
        if rng.random() < 0.3:
            va, vb, ka, kb = vb, va, kb, ka
        ctx.count(1, value_ext=1, **{"ext_" + ka: 1})
        ctx.nontriv("ext|%s|%s|%s" % (va, vb, vc))
        tvmap = {V.TYPEVARS[0]: vc, V.TYPEVARS[1]: PV.TypedValue(int), V.TYPEVARS[2]: vb}
        res = value_ops(checker, va, vb, vc, tvmap)
        for op, r in res.items():
            if isinstance(r, str) and r.startswith("EXC:"):
                what = "%s raised: %s" % (op, r[4:])
                ctx.candidate({"stream": "value-ext", "a": "%s: %s" % (ka, _safe_str(va)), "b": "%s: %s" % (kb, _safe_str(vb)), "c": _safe_str(vc), "op": op},
                              what, cls=ext_class(op, r, va, vb, vc), conforms=True, stream="value-ext")


def _safe_str(v):
    try:
        return str(v)[:200]
    except Exception as e:
        return "<%s: str() raised %s>" % (type(v).__name__, type(e).__name__)


def ext_class(op, r, va, vb, vc):
    """Known classes of the value-API half (syntactic: the classes of the operands and the operation)."""
    return None


# =================================================================== program stream
FIXED_PROGRAMS = [
    # generic probes (the minimised witness of every finding class lives in corpus/C12.jsonl); always run first, under all 4 configurations
    'x = 1\ny = x.foo\nz = undefined_name\n',
    '',
    '# static analysis: ignore\nx = undefined\n',
    'x = undefined  # static analysis: ignore\n# static analysis: ignore\ny = 1\n',
    'def f(a, b=1, *c, d, **e):\n    return f(1, 2, 3, d=4, x=5), f(), f(*a, **b)\n',
]

CONFIGS = ["all-on", "default", "all-off", "random"]
CPU_LIMIT = 10


def program_cases(ctx):
    rng = ctx.rng
    for src in FIXED_PROGRAMS + [e["src"] for e in corpus_entries() if e.get("stream") == "prog"]:
        yield src, {"fixed"}, False
    n, made = ctx.n(220, 2200), 0
    while made < n:
        hostile = rng.random() < 0.12
        g = c12_gen.ProgGen(rng, hostile=hostile)
        yield g.module(), g.feat, hostile
        made += 1


def prog_stream(ctx, with_model=True):
    rng = ctx.rng
    emit_jobs = []
    new_budget = [3]
    seen_new = set()
    nprog = [0]
    t_start = time.time()
    for src, feat, hostile in program_cases(ctx):
        why = importable(src)
        if why is not None:
            ctx.tag("prog_discarded_" + why.split(":")[0])
            continue
        ctx.nontriv("prog|" + src)
        for f in feat:
            ctx.tag("feat_" + f)
        nprog[0] += 1
        for ci, cname in enumerate(["all-on", CONFIGS[1 + nprog[0] % 3]] if "fixed" not in feat else CONFIGS):
            settings = config_settings(cname, rng)
            try:
                r = run_check(src, settings, record=(ci == 0), cpu=CPU_LIMIT)
            except Exception as e:   # the harness's own import of the module failed the second time round
                ctx.tag("prog_harness_error")
                ctx.notes.append("prog stream: %r" % (e,))
                continue
            ctx.count(1, prog=1, **{"config_" + cname: 1})
            ctx.tag("diagnostics", len(r["failures"]))
            if ci == 0 and r["raw"] is not None and not any(k in ("raises", "timeout") for k, _, _ in r["problems"]):
                emit_jobs.append((src, r))
            for kind, sig, det in r["problems"]:
                cls, conforms, aux = classify(src, kind, sig, det, settings)
                det = {k: v for k, v in det.items() if k != "description"}
                case = {"stream": "prog", "config": cname, "kind": kind, "signature": list(sig), "at": det, "src": src}
                if cname == "random":
                    case["enabled"] = sorted(c.name for c, on in settings.items() if on)
                ctx.tag("problem_%s" % (cls or "NEW"))
                if cls is None:
                    key = (kind, sig)
                    if key not in seen_new and new_budget[0] > 0:
                        seen_new.add(key)
                        new_budget[0] -= 1
                        small = shrink(src, fails_with(sig, settings), max_seconds=ctx.n(25, 90))
                        case = dict(case, src=small, original=src)
                what = {"internal_error": "internal_error diagnostic: %s" % det.get("tail", ""), "raises": "check() raised %s" % det.get("exception", ""),
                        "timeout": "check() did not return within %s CPU seconds" % sig[1], "no-code": "diagnostic without a registered error code",
                        "bad-line": "diagnostic with a line number outside the file", "bad-col": "diagnostic with a column outside its line",
                        "empty-message": "diagnostic with an empty message"}.get(kind, kind)
                ctx.candidate(case, what, cls=cls, conforms=conforms, stream="prog")
            if any(k == "timeout" for k, _, _ in r["problems"]):
                break      # do not spend another CPU limit on the same program
        if len(ctx.samples) < 5 and "fixed" not in feat and not any(isinstance(s, dict) and s.get("stream") == "prog" for s in ctx.samples):
            ctx.sample({"stream": "prog", "src": src[:1500], "features": sorted(feat)[:25]})
    ctx.extra["prog_stream_s"] = round(time.time() - t_start, 1)
    if with_model:
        emit_e2e(ctx, emit_jobs)


def file_lines(src):
    """`BaseNodeVisitor._lines()` without the re-appended newline: split only where the tokenizer splits."""
    lines = re.split(r"\r\n|\r|\n", src)
    if lines and not lines[-1]:
        lines.pop()
    return lines


def emit_e2e(ctx, jobs):
    """The raw show_error stream recorded on the fuzzer's programs -> Lean emit model -> same failure list?"""
    lines_out, kept = [], []
    for src, r in jobs:
        toks = encode_calls(r["raw"])
        lines = file_lines(src)
        if toks is None or not src.isascii():
            ctx.tag("emit_e2e_skipped")
            continue
        fname = r["failures"][0]["filename"] if r["failures"] else "m"
        if " " in fname or "|" in fname:
            continue
        lines_out.append(emit_line(fname, [], lines, toks))
        kept.append((src, impl_failures(r["failures"], lines)))
    if not lines_out:
        return
    outs = lean.run_driver("C12", lines_out)
    for (src, impl), mo, ln in zip(kept, outs, lines_out):
        model = mo.partition(" D=")[0]
        ctx.corr("emit-e2e")
        if model != impl:
            # first differing record, to keep the report readable
            a, b = impl.split(";"), model.split(";")
            k = next((i for i in range(min(len(a), len(b))) if a[i] != b[i]), min(len(a), len(b)))
            ctx.disagree("emit-e2e", {"stream": "emit-e2e", "src": src, "first_difference_at": k}, ";".join(a[k:k + 2]), ";".join(b[k:k + 2]))


# =================================================================== entry points
ANCHORS = [
    ("pyanalyze/name_check_visitor.py", "NameCheckVisitor.visit"),
    ("pyanalyze/name_check_visitor.py", "NameCheckVisitor.check"),
    ("pyanalyze/node_visitor.py", "BaseNodeVisitor.show_error"),
    ("pyanalyze/node_visitor.py", "BaseNodeVisitor.show_errors_for_unused_ignores"),
    ("pyanalyze/node_visitor.py", "BaseNodeVisitor.show_errors_for_bare_ignores"),
    ("pyanalyze/node_visitor.py", "BaseNodeVisitor._lines"),
    ("pyanalyze/annotations.py", "_Visitor"),
    ("pyanalyze/annotations.py", "_eval_forward_ref"),
    ("pyanalyze/annotations.py", "_type_from_runtime"),
    ("pyanalyze/annotations.py", "Context.add_evaluation"),
    ("pyanalyze/annotations.py", "make_type_var_value"),
    ("pyanalyze/annotations.py", "value_from_ast"),
    ("pyanalyze/value.py", "unite_values"),
    ("pyanalyze/value.py", "flatten_values"),
    ("pyanalyze/value.py", "MultiValuedValue.substitute_typevars"),
    ("pyanalyze/value.py", "GenericValue.substitute_typevars"),
    ("pyanalyze/value.py", "SequenceValue.substitute_typevars"),
    ("pyanalyze/value.py", "TypeVarValue.substitute_typevars"),
    ("pyanalyze/value.py", "Value.can_assign"),
]
RULE = (
    "EXPLORATION (searched, not proved) — programs: a fixed list of probes and minimised findings, then seeded random modules from a "
    "grammar covering wrong arities, bad operands, undefined names, odd / quoted / forward-reference annotations, decorators, classes "
    "(__init__, properties, inheritance, dataclass, Enum, TypedDict, NamedTuple, Protocol, Generic, ABC, slots, dunder methods), "
    "comprehensions, lambdas, star-expressions, f-strings, walrus, match, async def / await / async for / async with, try / finally / "
    "except*, global / nonlocal, %-format and str.format, overloads, 12 % with module-level objects whose dunder methods raise; only "
    "modules that compile and import are counted; each with every code on plus one of {harness default, every code off, a random "
    "subset} in rotation (the fixed probes under all four). PROVED + CORRESPONDENCE — emit: all-kinds random files of <= 6 lines x <= 5 show_error calls (None / position-less / "
    "out-of-file nodes, missing code, empty message, duplicates, obey_ignore / save off); annot: random annotation expressions of depth "
    "<= 3 over every ast expression kind; value: triples of shared-generator value terms (depth <= 2 quick / 3 thorough, TypeVars "
    "planted in a third, b near a in 60 %) plus directly built TypedDict / DictIncomplete / Callable / exact type[...] / bounded TypeVar / "
    "unbound-method values. non-trivial = an importable program, an annotation that raises, a call list that raises or yields an "
    "ill-formed record, a value triple with a compound operand; distinct by text"
)
ASSUMPTIONS = [
    "whole-program crash-freedom is SEARCHED by the grammar fuzzer, not proved: there is no Lean model of name_check_visitor.py; its "
    "known classes are failure signatures (exception type + innermost pyanalyze frame) plus a syntactic predicate on the reported node, "
    "computed in Python (only unsupportedAnnotNode has its predicate in Lean)",
    "termination is judged by a CPU-time limit (10 s per check of a <= 150-line module; typical: 0.05 s)",
    "columns are compared in UTF-8 bytes for AST nodes (the unit of ast.col_offset); the emit model counts characters, so its "
    "well-formedness verdict is compared on ASCII files only",
    "the emit model takes the sequence of show_error calls as input (which calls the 6 000-line visitor makes is not modelled); the "
    "hypothesis 'positions lie inside the file' of emit_wellformed is what ast.parse guarantees for real nodes — except for nodes of a "
    "parsed string annotation, whose positions are relative to the string (finding stringAnnotationPosition)",
    "the value-API theorems are structural bounds on the Lean models ca / unite / subst (total by construction); values outside the Lean "
    "term language are only fuzzed on the implementation",
]
TRUSTED = [
    "harness/props/c12_gen.py (the program grammar) and the shrinker; Python-side class predicates of the program search",
    "Core/Emit.lean primitives shared with C11 (ignore-comment matching), validated by C11's and this check's emit streams",
]


def run(ctx):
    annot_stream(ctx)
    tfr_stream(ctx)
    emit_unit_stream(ctx)
    value_stream(ctx)
    prog_stream(ctx)


def run_impl_only(ctx):
    annot_stream(ctx, with_model=False)
    tfr_stream(ctx, with_model=False)
    emit_unit_stream(ctx, with_model=False)
    value_stream(ctx, with_model=False)
    prog_stream(ctx, with_model=False)


def replay(ctx, data):
    from harness.props.c03 import totuple
    case = data.get("case", {})
    stream = case.get("stream") or data.get("stream")
    if stream == "prog":
        src = case["src"]
        why = importable(src)
        if why is not None:
            print("the replayed module is outside the property's domain: %s" % why)
            return 0
        st = config_settings("all-on")
        if case.get("enabled") is not None:
            st = {c: c.name in case["enabled"] for c in ErrorCode}
        elif case.get("config") in ("default", "all-off"):
            st = config_settings(case["config"])
        r = run_check(src, st, fresh=True)
        for kind, sig, det in r["problems"]:
            cls, conforms, _ = classify(src, kind, sig, det, st)
            det = {k: v for k, v in det.items() if k != "description"}
            ctx.candidate({"stream": "prog", "kind": kind, "signature": list(sig), "at": det, "src": src}, kind, cls=cls, conforms=conforms)
    elif stream == "value":
        value_stream(ctx, triples=[tuple(totuple(x) for x in case["ops"])])
    elif stream == "annot":
        from pyanalyze import annotations
        body = ast.parse(case["annotation"], mode="eval").body
        ns = _ann_namespace()
        reported = []

        class Ctx(annotations.Context):
            def get_name(self, node):
                return self.get_name_from_globals(node.id, ns)

            def show_error(self, message, error_code=None, node=None):
                m = re.match(r"Unsupported syntax in annotation: (\w+)", message)
                if m:
                    reported.append(m.group(1))
        try:
            annotations._Visitor(Ctx()).visit(body)
            impl = ",".join(reported) or "-"
        except Exception as e:
            impl = "EXC:%s: %s" % (type(e).__name__, e)
        model = lean.run_driver("C12", ["A " + aexpr_sexp(body, ns)])[0]
        print(json.dumps({"annotation": case["annotation"], "implementation": impl, "model": model}, indent=1))
        return 0 if model.startswith("res=%s " % impl) else 1
    elif stream == "tfr":
        tfr_stream(ctx, cases=[([tuple(nd) if nd[0] != "a" else ("a", list(nd[1])) for nd in case["nodes"]], case["start"])])
    elif stream == "emit":
        lines, off = case["lines"], case["off"]
        calls = [dict(c, node=None if c["node"] is None else _Node(*c["node"])) for c in case["calls"]]
        impl, rec = run_unit_case(lines, off, calls)
        model = lean.run_driver("C12", [emit_line("unit.py", off, lines, encode_calls(rec))])[0]
        print(json.dumps({"implementation": impl, "model": model}, indent=1))
        return 1
    else:
        print("nothing to replay in %s" % json.dumps(data)[:300])
        return 0
    print(json.dumps({"candidates": [dict(c, case={k: v for k, v in c["case"].items() if k != "original"}) for c in ctx.candidates[:5]],
                      "broken": ctx.broken[:3]}, indent=1, default=str))
    known = {e["class"] for e in __import__("harness.main", fromlist=["load_known"]).load_known(PROP)}
    return 1 if (ctx.broken or any(c["class"] not in known for c in ctx.candidates)) else 0
