"""C12 — grammar fuzzer: syntactically valid modules that import successfully, deliberately ill-typed inside.

Layout of a generated module
  header      : optional `from __future__ import annotations`, a fixed import block
  top level   : import-safe definitions only (constants, TypeVars / NewTypes / aliases, classes of every flavour, decorated
                functions, overloads, a few executed well-typed statements); everything is *executed* by make_module()
  bodies      : function / method bodies are never executed, so they are drawn from the full statement and expression
                grammar with random (defined, undefined, ill-typed) operands
A module that fails to compile or raises while importing is discarded by the caller (the property quantifies over
modules that import successfully).
"""
import random

HEADER = (
    "import abc, asyncio, collections, contextlib, dataclasses, enum, functools, itertools, os, sys, typing\n"
    "from dataclasses import dataclass, field\n"
    "from typing import (Annotated, Any, Callable, ClassVar, Dict, Final, Generic, Iterable, List, Literal, NamedTuple,\n"
    "                    NewType, Optional, Protocol, Sequence, Tuple, Type, TypedDict, TypeVar, Union, overload)\n"
)
BUILTINS = "len int str print sorted isinstance range sum min max abs dict list set tuple zip enumerate map filter getattr hasattr type repr bool float bytes iter next any all divmod round id hash callable super object reversed".split()
ATTRS = "append upper items format join x y value name keys get pop strip split real imag undefined_attr __class__ __dict__ __name__ count index extend update add copy encode decode".split()
BINOPS = ["+", "-", "*", "/", "//", "%", "**", "@", "<<", ">>", "&", "|", "^"]
CMPOPS = ["<", ">", "==", "!=", "<=", ">=", "in", "not in", "is", "is not"]
UNDEF = ["undef0", "undef1", "nope"]
KNOWN_LITS = ["0", "1", "(-1)", "(2)", "1.5", "'a'", "''", "b'x'", "None", "True", "()", "(1, 2)", "(3, 'a')", "(3, None)", "[]", "[1]", "{}", "{'a': 1}", "{1, 2}",
              "set()", "frozenset()", "...", "sys.version_info", "sys.version_info", "sys.platform", "sys.maxsize", "os.sep", "len", "int", "(3, 8)", "'3'"]
HOSTILE_HEADER = (
    "HK1 = 10 ** 400\nHK2 = 2 ** 70\nHR1 = range(10 ** 20)\nHS1 = '\\ud800'\nHS2 = 'a\\x00b'\nHS3 = '\u00b2\u0663'\nHF1 = float('inf')\nHF2 = float('nan')\n"
)
HOSTILE_HUGE = "HK3 = 10 ** 5000\n"
HOSTILE_DEEP = "HT1 = ()\nfor _hi in range(1500):\n    HT1 = (HT1,)\n"
HOSTILE_NAMES = ["HK1", "HK1", "HK2", "HR1", "HS1", "HS2", "HS3", "HF1", "HF2", "(-1)", "(2 ** 70)", "(10 ** 400)", "(-HK1)", "HK1", "HK2"]
FORMAT_SPECS = ["", ":>10", ":d", ":.2f", ":{w}", ":x", ":%Y", ":c", ":c", ":e", ":.2%", ":n", ":,d", ":#x", ":08.3f", ":>{w}.{p}", ":s", ":10.3s", ":g", ":b", ":_d", ":+e", ":^{w}c"]
BIG_ALIASES = ["Literal[0, 1, 2, 3, 4, 5, 6, 7, 8, 9]", "Literal['a', 'b', 'c', 'd', 'e', 'f', 'g', 'h', 'i', 'j', 'k']",
               "Union[Literal[0, 1, 2, 3, 4, 5, 6, 7, 8, 9, 10], None]", "Optional[Literal[0, 1, 2, 3, 4, 5, 6, 7, 8, 9]]",
               "Union[Literal[0, 1, 2, 3, 4, 5, 6, 7, 8], str, bytes]", "Literal[0, 1, 2, 3, 4, 5, 6, 7, 8]",
               "Union[int, str, bytes, float, None, list, dict, set, tuple, frozenset, complex]",
               "Literal[0, 'a', None, True, b'x', 1, 2, 3, 4, 5, 6, 7]", "Union[Literal[(), 1, 2, 3, 4, 5, 6, 7, 8, 9], List[int]]" if False else "Union[Literal[1, 2, 3, 4, 5, 6, 7, 8, 9, 10], List[int]]"]


class Scope:
    def __init__(self, names=(), in_func=False, is_async=False, in_loop=False, in_class=False, parent_locals=(), gen_ok=True,
                 walrus_ok=True, no_jump=False):
        self.names = list(names)
        self.in_func, self.is_async, self.in_loop, self.in_class = in_func, is_async, in_loop, in_class
        self.parent_locals = list(parent_locals)
        self.gen_ok = gen_ok            # directly in a def body: yield / await / async for are syntactically possible
        self.walrus_ok = walrus_ok      # not inside a comprehension / lambda / class body
        self.no_jump = no_jump          # inside an except* handler: no return / break / continue

    def child(self, **kw):
        s = Scope(self.names, self.in_func, self.is_async, self.in_loop, self.in_class, self.parent_locals, self.gen_ok,
                  self.walrus_ok, self.no_jump)
        for k, v in kw.items():
            setattr(s, k, v)
        return s


class ProgGen:
    """One instance per module; `feat` records the grammar features used (distribution tags)."""

    def __init__(self, rng, hostile=False):
        self.r = rng
        self.feat = set()
        self.future = rng.random() < 0.45
        self.hostile = hostile
        self.nonascii = rng.random() < 0.2
        self.huge = rng.random() < 0.15          # 10 ** 5000 among the constants (its repr() raises: class hugeIntRepr)
        self.deep = rng.random() < 0.1           # a 1500-fold nested tuple (its repr() / hash() recurse)
        self.hostile_names = HOSTILE_NAMES + (["HK3", "HK3"] if self.huge else []) + (["HT1"] if self.deep else [])
        self.funcs = {}      # name -> (npos, kwnames)
        self.classes = []
        self.consts = []
        self.tvars = []
        self.newtypes = []
        self.recs = []        # recursive aliases (string forward references to themselves / each other)
        self.bigs = []        # aliases of unions with about ten members (MultiValuedValue's hash-set fast path starts at 10)
        self.bigfuncs = []
        self.counter = 0

    # ------------------------------------------------------------ helpers
    def fresh(self, p):
        self.counter += 1
        return "%s%d" % (p, self.counter)

    def f(self, tag):
        self.feat.add(tag)

    def ch(self, xs):
        return self.r.choice(xs)

    def p(self, x):
        return self.r.random() < x

    def name(self, sc, defined_bias=0.8):
        pool = sc.names + list(self.funcs) + self.classes + self.consts
        if pool and self.p(defined_bias):
            return self.ch(pool)
        if self.p(0.6):
            return self.ch(BUILTINS)
        self.f("undefined_name")
        return self.ch(UNDEF)

    # ------------------------------------------------------------ annotations
    def ann_safe(self, d=2, top=True):
        """An annotation expression that evaluates without error at run time."""
        r = self.r.random()
        atoms = ["int", "str", "float", "bytes", "bool", "None", "object", "Any", "list", "dict", "tuple", "type"] + self.classes[:3] + self.tvars[:2] + self.newtypes[:1] + self.bigs * 3 + self.recs * 3
        if d <= 0 or r < 0.3:
            return self.ch(atoms)
        k = self.ch(["List", "Dict", "Optional", "Union", "Tuple", "TupleVar", "Callable", "Literal", "Annotated", "Final", "ClassVar", "CallableP",
                     "Type", "Sequence", "Iterable", "list", "dict", "tuple", "bar", "unpack", "str", "CallableEll", "typing."])
        a = lambda: self.ann_safe(d - 1, False)
        if k in ("Final", "ClassVar") and not top:
            k = "List"
        self.f("ann_" + k)
        if k in ("List", "Sequence", "Iterable", "list", "Optional", "Type"):
            return "%s[%s]" % (k, a())
        if k in ("Dict", "dict"):
            return "%s[%s, %s]" % (k, a(), a())
        if k == "Union":
            return "Union[%s]" % ", ".join(a() for _ in range(self.r.randint(1, 3)))
        if k in ("Tuple", "tuple"):
            return "%s[%s]" % (k, ", ".join(a() for _ in range(self.r.randint(1, 3))))
        if k == "TupleVar":
            return "%s[%s, ...]" % (self.ch(["Tuple", "tuple"]), a())
        if k == "Callable":
            return "Callable[[%s], %s]" % (", ".join(a() for _ in range(self.r.randint(0, 2))), a())
        if k == "CallableP":
            return self.ch(["Callable[[typing.ParamSpec('P'), int], %s]", "Callable[typing.ParamSpec('P'), %s]", "Callable[[int, typing.ParamSpec('P')], %s]",
                            "Callable[typing.Concatenate[int, typing.ParamSpec('P')], %s]"]) % a()
        if k == "CallableEll":
            return "Callable[..., %s]" % a()
        if k == "Literal":
            return "Literal[%s]" % ", ".join(self.ch(["1", "'a'", "None", "True", "b'x'", "-1", "0"]) for _ in range(self.r.randint(1, 3)))
        if k == "Annotated":
            return "Annotated[%s, %s]" % (a(), self.ch(["'m'", "1", "int", "[1]", "{'k': 1}", "len"]))
        if k in ("Final", "ClassVar"):
            return "%s[%s]" % (k, a())
        if k == "bar":
            x, y = self.ch(["int", "str", "None", "float", "list[int]"]), self.ch(["int", "str", "None", "bytes", "dict[str, int]"])
            return "%s | %s" % (x, y)
        if k == "unpack":
            return "tuple[%s, *tuple[%s, ...]]" % (a(), self.ch(["int", "str"]))
        if k == "str":
            return repr(self.ann_any(d - 1))
        return "typing.%s[%s]" % (self.ch(["List", "Optional", "Sequence"]), a())

    def ann_any(self, d=2):
        """Any expression at all in annotation position (only where it is not evaluated at run time, or quoted)."""
        r = self.r.random()
        if r < 0.55:
            return self.ann_safe(d)
        self.f("ann_odd")
        a = lambda: self.ann_any(d - 1) if d > 0 else "int"
        return self.ch([
            lambda: "tuple[int, *tuple[str, ...]]",
            lambda: "Annotated[()]", lambda: "Optional[()]", lambda: "Literal[()]", lambda: "Callable[()]", lambda: "List[()]", lambda: "Final[()]",
            lambda: "Callable[[typing.ParamSpec('P'), int], int]", lambda: "Callable[[int, typing.ParamSpec('P')], int]", lambda: "Callable[typing.ParamSpec('P'), int]",
            lambda: "Callable[[int, *Ts], int]", lambda: "Callable[[*tuple[int, ...]], %s]" % a(), lambda: "typing.Concatenate[int, typing.ParamSpec('P')]",
            lambda: "Callable[typing.Concatenate[int, typing.ParamSpec('P')], %s]" % a(),
            lambda: "Optional[%s, %s]" % (a(), a()),
            lambda: "list[int][str]",
            lambda: "List[%s, %s]" % (a(), a()),
            lambda: "Dict[%s]" % a(),
            lambda: "Literal[%s]" % a(),
            lambda: "Annotated[%s]" % a(),
            lambda: "Annotated[Annotated[%s, 1], 2]" % a(),
            lambda: "Final[ClassVar[Final[%s]]]" % a(),
            lambda: "ClassVar",
            lambda: "Final",
            lambda: "Union",
            lambda: "Union[()]",
            lambda: "Callable[%s, %s]" % (a(), a()),
            lambda: "Callable[[%s]]" % a(),
            lambda: "1",
            lambda: "1 + 2",
            lambda: "[%s]" % a(),
            lambda: "(%s, %s)" % (a(), a()),
            lambda: "{}",
            lambda: "{%s: %s}" % (a(), a()),
            lambda: "lambda: int",
            lambda: "int if x else str",
            # (never a function of the generated module: pyanalyze *evaluates* deferred / quoted annotations, which would run its random body)
            lambda: "%s()" % self.ch(["int", "undef0", "TypeVar", "NewType", "dict", "object"]),
            lambda: "TypeVar('Q', bound=%s)" % a(),
            lambda: "NewType('Q', %s)" % a(),
            lambda: "%s.%s" % (self.ch(["typing", "os", "undef0", "int"] + self.classes[:2]), self.ch(["List", "path", "x", "Any"])),
            lambda: "'%s'" % self.ch(["int", "List[int]", "int[", "undef0", "C9", "1 +", "", " int", "tuple[int, *tuple[str, ...]]", "a[1:2]", "x if y else z"]),
            lambda: "%s[%s]" % (self.ch(self.classes + ["int", "undef0", "len"]), a()),
            lambda: "-1",
            lambda: "not int",
            lambda: "int < str",
            lambda: "int and str",
            lambda: "[i for i in int]",
            lambda: "f'{int}'",
            lambda: "'(y := int)'",
            lambda: "tuple[1:2]",
            lambda: "*tuple[int, ...]" if False else "tuple[*tuple[int, ...], *tuple[str, ...]]",
            lambda: "type[%s]" % a(),
            lambda: "Type[%s, %s]" % (a(), a()),
            lambda: "Generic[%s]" % a(),
            lambda: "Protocol",
            lambda: "TypedDict",
            lambda: "...",
            lambda: "None | None",
            lambda: "int | 'str'",
        ])()

    def ann(self, sc, evaluated):
        """Annotation text for a position that is (not) evaluated when the module is imported."""
        if evaluated and not self.future:
            if self.p(0.25):
                self.f("ann_string")
                return repr(self.ann_any())
            return self.ann_safe()
        if self.p(0.2):
            self.f("ann_string")
            return repr(self.ann_any())
        return self.ann_any()

    # ------------------------------------------------------------ expressions
    def atom(self, sc):
        r = self.r.random()
        if r < 0.4:
            return self.name(sc)
        if r < 0.55:
            return "(%s)" % self.ch([0, 1, 2, -1, 10, 255, 3.5, 0, 1, 2, 7, 100, -5, 1.5, 10**20] if self.p(0.5) else [0, 1, 2, -1, 10, 255, 3.5])
        if r < 0.7:
            return repr(self.ch(["", "a", "abc", "%s", "%d %s", "{} {}", "{x}", "é", "a\tb"]))
        if r < 0.75:
            return self.ch(["b''", "b'ab'", "b'%d'"])
        if r < 0.85:
            return self.ch(["None", "True", "False", "..."])
        if r < 0.9:
            return self.ch(["[]", "{}", "()", "set()"])
        return self.fstring(sc, 0)

    # ------------------------------------------------------------ template mini-languages (generated from their grammars)
    def pct_spec(self, keyed):
        """One %-conversion: % [(key)] [flags] [width] [.precision] [length] type — every part optional, every type."""
        key = "(%s)" % self.ch(["a", "b", "score", "a b", "0"]) if keyed else ""
        flags = "".join(c for c in "#0- +" if self.p(0.2))
        width = self.ch(["", "", "5", "0", "12", "*"]) if not keyed else self.ch(["", "", "5", "12"])
        prec = self.ch(["", "", ".", ".2", ".0", ".10", ".*"]) if not keyed else self.ch(["", "", ".", ".2", ".0"])
        length = self.ch(["", "", "", "h", "l", "L"])
        conv = self.ch(list("diouxXeEfFgGcrsba") + ["%", "y", "z", "k"])
        return "%" + key + flags + width + prec + length + conv

    def pct_template(self):
        keyed = self.p(0.3)
        parts = []
        for _ in range(self.r.randint(1, 3)):
            parts.append(self.ch(["", "t ", "x=", "%% "]) + self.pct_spec(keyed))
        t = "".join(parts) + self.ch(["", "", " end", "%"])
        return t, keyed

    def pct_expr(self, operand):
        """<template> % <args>: str and bytes templates, argument tuples / dicts of matching and non-matching arity."""
        self.f("percent_format")
        t, keyed = self.pct_template()
        lit = ("b" if self.p(0.2) else "") + repr(t)
        n = t.count("%") - 2 * t.count("%%")
        stars = t.count("*")
        args = [operand() for _ in range(max(0, n + stars + self.ch([0, 0, 0, -1, 1])))]
        if keyed:
            rhs = self.ch(["{'a': %s, 'b': %s, 'score': %s}" % (operand(), operand(), operand()), "{'a': %s}" % operand(), "{}", operand(), "(%s,)" % operand()])
        elif len(args) == 1 and self.p(0.5):
            rhs = args[0]
        else:
            rhs = "(%s%s)" % (", ".join(args), "," if len(args) == 1 else "")
        return "(%s %% %s)" % (lit, rhs)

    def fmt_spec(self, d=1):
        """format_spec ::= [[fill]align][sign][z][#][0][width][grouping][.precision][type], parts may be nested {} fields"""
        fill = self.ch(["", "", "", "*<", ">", "^", "=", "x^", "0="])
        sign = self.ch(["", "", "+", "-", " "])
        alt = self.ch(["", "", "#", "z"]) + self.ch(["", "", "0"])
        width = self.ch(["", "", "5", "10", "{}", "{w}", "{0}"]) if d > 0 else self.ch(["", "5"])
        group = self.ch(["", "", ",", "_"])
        prec = self.ch(["", "", ".", ".2", ".0", ".{}", ".{p}"]) if d > 0 else self.ch(["", ".2"])
        typ = self.ch(["", "", "b", "c", "d", "e", "E", "f", "F", "g", "G", "n", "o", "s", "x", "X", "%", "y", "Y-%m"])
        return fill + sign + alt + width + group + prec + typ

    def fmt_field(self):
        name = self.ch(["", "", "0", "1", "x", "a", "0.real", "x.y", "0[0]", "x[k]", "a[0].b", "\u00b2", "0x", "-1", " "])
        conv = self.ch(["", "", "", "!r", "!s", "!a", "!z", "!"])
        spec = self.ch(["", ":" + self.fmt_spec(), ":" + self.fmt_spec(), ":"])
        return "{" + name + conv + spec + "}"

    def fmt_expr(self, operand):
        self.f("str_format")
        t = "".join(self.ch(["", "t ", "{{", "}}"]) + self.fmt_field() for _ in range(self.r.randint(1, 3))) + self.ch(["", "", "{", "}"])
        pos = [operand() for _ in range(self.r.randint(0, 3))]
        kw = ["%s=%s" % (k, operand()) for k in ("x", "a", "w", "p", "k") if self.p(0.35)]
        return "%r.format(%s)" % (t, ", ".join(pos + kw))

    def known_op(self):
        """Operators applied to statically known operands (literals, module constants, sys.version_info / sys.platform):
        pyanalyze evaluates many of these itself, so an operator that raises must be caught by it."""
        self.f("known_value_op")
        a, b = self.ch(KNOWN_LITS + self.consts[:2]), self.ch(KNOWN_LITS + self.consts[:2])
        if self.p(0.4):
            a = self.ch(self.hostile_names)
        if self.p(0.2):
            b = self.ch(self.hostile_names)
        k = self.ch(["cmp", "cmp", "cmp", "in", "bin", "un", "sub", "slice", "chain", "call", "pct", "pct", "fmt", "fmt", "bool", "iter", "unpack"])
        if k == "pct":
            return self.pct_expr(lambda: self.ch([a, b] + KNOWN_LITS[:12]))
        if k == "fmt":
            return self.fmt_expr(lambda: self.ch([a, b] + KNOWN_LITS[:12]))
        if k == "bool":
            return "(%s if %s else %s)" % (b, a, self.ch(["not " + a, "bool(%s)" % a, a + " and " + b]))
        if k == "iter":
            return self.ch(["[_q for _q in %s]", "list(%s)", "sorted(%s)", "len(%s)", "sum(%s)", "(*%s,)", "max(%s)", "tuple(%s)", "set(%s)", "dict.fromkeys(%s)", "enumerate(%s)"]) % a
        if k == "unpack":
            return self.ch(["(lambda _p, *_q: _p)(*%s)", "[*%s, *%s]" % ("%s", b), "{**{%s: %s}}" % ("%s", b)]) % a
        if k == "cmp":
            return "(%s %s %s)" % (a, self.ch(["<", "<=", ">", ">=", "==", "!="]), b)
        if k == "chain":
            return "(%s %s %s %s %s)" % (a, self.ch(["<", ">="]), b, self.ch(["<", "=="]), self.ch(KNOWN_LITS))
        if k == "in":
            return "(%s %s %s)" % (a, self.ch(["in", "not in"]), b)
        if k == "bin":
            return "(%s %s %s)" % (a, self.ch(BINOPS), b if "**" not in b else "2")
        if k == "un":
            return "(%s%s)" % (self.ch(["-", "+", "~", "not "]), a)
        if k == "sub":
            return "%s[%s]" % (a, b)
        if k == "slice":
            return "%s[%s:%s]" % (a, b, self.ch(["", b]))
        return "%s(%s)" % (self.ch(["len", "int", "hash", "abs", "sorted", "bool", "str", "divmod", "isinstance", "max"]), ", ".join([a, b][: self.r.randint(1, 2)]))

    def cmp_operand(self, sc):
        """literal | variable | len(variable-ish) | attribute | call — the operand shapes the comparison code branches on"""
        v = self.ch(sc.names) if sc.names and self.p(0.8) else self.name(sc)
        k = self.ch(["lit", "lit", "var", "var", "len", "len", "len", "attr", "call", "sub", "lenattr", "const"])
        if k == "lit":
            return self.ch(KNOWN_LITS)
        if k == "var":
            return v
        if k == "len":
            return "len(%s)" % self.ch([v, v, "%s.%s" % (v, self.ch(ATTRS)), "%s[0]" % v, "%s[%s]" % (v, self.ch(KNOWN_LITS))])
        if k == "lenattr":
            return "len(%s.%s)" % (v, self.ch(ATTRS))
        if k == "attr":
            return "%s.%s" % (v, self.ch(ATTRS))
        if k == "sub":
            return "%s[%s]" % (v, self.ch(["0", "'a'", v]))
        if k == "const":
            return self.ch(self.consts + ["sys.version_info", "sys.platform"])
        return "%s(%s)" % (self.ch([v, "len", "type", "str", "isinstance"] + list(self.funcs)[:2]), self.ch([v, "", "%s, %s" % (v, self.ch(KNOWN_LITS))]))

    def gcmp(self, sc):
        """every comparison operator x every operand shape on either side, also chained"""
        self.f("general_compare")
        s = "%s %s %s" % (self.cmp_operand(sc), self.ch(CMPOPS), self.cmp_operand(sc))
        while self.p(0.2):
            s += " %s %s" % (self.ch(CMPOPS), self.cmp_operand(sc))
        return "(" + s + ")"

    def fstring(self, sc, d):
        self.f("fstring")
        parts = []
        for _ in range(self.r.randint(1, 3)):
            e = self.expr(sc, d - 1) if d > 0 else self.name(sc)
            if any(c in e for c in "'\"\\\n#") or e.strip().startswith("{"):
                e = self.name(sc)
            if self.p(0.45):
                self.f("fstring_known_operand")
                e = self.ch([x for x in KNOWN_LITS if "{" not in x] + self.hostile_names * 2)
                if e[0] == "1" or e.isdigit():
                    e = "(%s)" % e
            conv = self.ch(["", "", "", "!r", "!s", "!a"])
            spec = self.ch(FORMAT_SPECS)
            parts.append(self.ch(["", "t ", "{{}} "]) + "{" + e + conv + spec + "}")
        return "f'" + "".join(parts) + "'"

    def args(self, sc, d, callee=None):
        parts = []
        npos = self.r.randint(0, 3)
        kws = []
        if callee in self.funcs and self.p(0.5):
            n, kwn = self.funcs[callee]
            npos = n if self.p(0.5) else npos
            kws = [k for k in kwn if self.p(0.5)]
        else:
            self.f("call_random_arity")
        for _ in range(npos):
            parts.append(self.expr(sc, d - 1))
        if self.p(0.2):
            self.f("star_arg")
            parts.append("*" + self.expr(sc, d - 1))
            if self.p(0.3):
                parts.append(self.expr(sc, d - 1))
        for k in kws:
            parts.append("%s=%s" % (k, self.expr(sc, d - 1)))
        if self.p(0.25):
            parts.append("%s=%s" % (self.ch(["x", "key", "end", "a", "zz", "default", "reverse"]), self.expr(sc, d - 1)))
        if self.p(0.12):
            self.f("dstar_arg")
            parts.append("**" + self.expr(sc, d - 1))
        return ", ".join(parts)

    def comp(self, sc, d, kind):
        self.f("comprehension")
        v = self.fresh("v")
        inner = sc.child(names=sc.names + [v], gen_ok=False, walrus_ok=False)
        isasync = sc.is_async and sc.gen_ok and self.p(0.2)
        src = self.expr(sc.child(walrus_ok=False, gen_ok=False), d - 1)
        tgt = v if self.p(0.7) else "%s, %s" % (v, self.fresh("w"))
        clause = "%sfor %s in %s" % ("async " if isasync else "", tgt, src)
        if self.p(0.4):
            clause += " if " + self.expr(inner, d - 1)
        if self.p(0.2):
            v2 = self.fresh("v")
            clause += " for %s in %s" % (v2, self.expr(inner, d - 1))
            inner.names.append(v2)
        elt = self.expr(inner, d - 1)
        if kind == "list":
            return "[%s %s]" % (elt, clause)
        if kind == "set":
            return "{%s %s}" % (elt, clause)
        if kind == "dict":
            return "{%s: %s %s}" % (elt, self.expr(inner, d - 1), clause)
        return "(%s %s)" % (elt, clause)

    def lam(self, sc, d):
        self.f("lambda")
        ps = [self.fresh("l") for _ in range(self.r.randint(0, 2))]
        sig = list(ps)
        if self.p(0.3) and ps:
            sig[-1] += "=" + self.expr(sc, 0)
        if self.p(0.2):
            sig.append("*" + self.fresh("la"))
            ps.append(sig[-1][1:])
        if self.p(0.2):
            sig.append("**" + self.fresh("lk"))
            ps.append(sig[-1][2:])
        inner = sc.child(names=sc.names + ps, gen_ok=False, is_async=False, walrus_ok=False)
        return "(lambda %s: %s)" % (", ".join(sig), self.expr(inner, d - 1))

    def expr(self, sc, d=2):
        if d <= 0:
            return self.atom(sc)
        k = self.ch(["atom", "atom", "binop", "binop", "unary", "bool", "cmp", "call", "call", "call", "attr", "attr", "sub", "slice", "known_op", "known_op", "bigcall", "gcmp", "gcmp", "gcmp",
                     "list", "tuple", "set", "dict", "lcomp", "scomp", "dcomp", "gen", "lambda", "ifexp", "walrus", "await",
                     "yield", "percent", "format", "fstring", "method"])
        e = lambda: self.expr(sc, d - 1)
        if k == "atom":
            return self.atom(sc)
        if k == "known_op":
            return self.known_op()
        if k == "gcmp":
            return self.gcmp(sc)
        if k == "bigcall":
            if self.bigs:
                self.f("big_union_call")
                f_ = self.ch(list(self.bigfuncs) or ["undef0"])
                return "%s(%s)" % (f_, self.ch(KNOWN_LITS))
            return self.known_op()
        if k == "binop":
            return "(%s %s %s)" % (e(), self.ch(BINOPS), e())
        if k == "unary":
            return "(%s%s)" % (self.ch(["-", "+", "~", "not "]), e())
        if k == "bool":
            return "(%s %s %s)" % (e(), self.ch(["and", "or"]), e())
        if k == "cmp":
            s = "%s %s %s" % (e(), self.ch(CMPOPS), e())
            if self.p(0.2):
                s += " %s %s" % (self.ch(CMPOPS), e())
            return "(" + s + ")"
        if k == "call":
            callee = self.name(sc) if self.p(0.8) else "(%s)" % e()
            return "%s(%s)" % (callee, self.args(sc, d, callee))
        if k == "method":
            return "%s.%s(%s)" % (e(), self.ch(ATTRS), self.args(sc, d))
        if k == "attr":
            return "%s.%s" % (e(), self.ch(ATTRS))
        if k == "sub":
            return "%s[%s]" % (e(), e())
        if k == "slice":
            self.f("slice")
            return "%s[%s:%s%s]" % (e(), self.ch(["", e()]), self.ch(["", e()]), self.ch(["", ":" + e(), ":"]))
        if k in ("list", "tuple", "set"):
            items = [e() for _ in range(self.r.randint(0, 3))]
            if self.p(0.25):
                self.f("star_display")
                items.insert(self.r.randint(0, len(items)), "*" + e())
            if k == "list":
                return "[" + ", ".join(items) + "]"
            if k == "set":
                return "{" + ", ".join(items) + "}" if items else "set()"
            return "(" + ", ".join(items) + ("," if len(items) == 1 else "") + ")"
        if k == "dict":
            items = ["%s: %s" % (e(), e()) for _ in range(self.r.randint(0, 3))]
            if self.p(0.25):
                self.f("dstar_display")
                items.append("**" + e())
            return "{" + ", ".join(items) + "}"
        if k in ("lcomp", "scomp", "dcomp", "gen"):
            return self.comp(sc, d, {"lcomp": "list", "scomp": "set", "dcomp": "dict", "gen": "gen"}[k])
        if k == "lambda":
            return self.lam(sc, d)
        if k == "ifexp":
            return "(%s if %s else %s)" % (e(), e(), e())
        if k == "walrus":
            if not sc.walrus_ok or sc.in_class:
                return self.atom(sc)
            self.f("walrus")
            n = self.fresh("w")
            sc.names.append(n)
            return "(%s := %s)" % (n, e())
        if k == "await":
            if sc.is_async and sc.gen_ok:
                self.f("await")
                return "(await %s)" % e()
            return self.atom(sc)
        if k == "yield":
            if sc.in_func and sc.gen_ok and self.p(0.3):
                self.f("yield")
                return "(yield %s)" % e() if self.p(0.7) or sc.is_async else "(yield from %s)" % e()
            return self.atom(sc)
        if k == "percent" and self.p(0.6):
            return self.pct_expr(lambda: self.expr(sc, d - 1))
        if k == "format" and self.p(0.6):
            return self.fmt_expr(lambda: self.expr(sc, d - 1))
        if k == "percent":
            self.f("percent_format")
            tpl = self.ch(["%s", "%d", "%s %s", "%(a)s", "%(a)s %(b)d", "%5.2f", "%c", "%x %%", "%", "%z", "%s %", "%*d", "%(a)s %s", "%r"])
            rhs = self.ch([e(), "(%s, %s)" % (e(), e()), "(%s,)" % e(), "{'a': %s}" % e(), "{'a': %s, 'b': %s}" % (e(), e()), "()"])
            return "(%s%r %% %s)" % (self.ch(["", "", "b"]) if "(" not in tpl else "", tpl, rhs)
        if k == "format":
            self.f("str_format")
            tpl = self.ch(["{}", "{} {}", "{0} {1}", "{x}", "{x} {}", "{0} {}", "{", "}", "{!r}", "{:d}", "{0.a}", "{0[1]}", "{:{}}", "{!z}", "{a[}"])
            return "%r.format(%s)" % (tpl, self.args(sc, d))
        return self.fstring(sc, d)

    # ------------------------------------------------------------ statements
    def target(self, sc, d=1):
        r = self.r.random()
        if r < 0.6 or d <= 0:
            n = self.fresh("t") if self.p(0.6) or not sc.names else self.ch(sc.names)
            return n, [n]
        if r < 0.7:
            return "%s.%s" % (self.name(sc), self.ch(ATTRS)), []
        if r < 0.8:
            return "%s[%s]" % (self.name(sc), self.expr(sc, 1)), []
        self.f("unpack_target")
        parts, names = [], []
        star = self.p(0.35)
        n = self.r.randint(1, 3)
        si = self.r.randrange(n) if star else -1
        for i in range(n):
            t, ns = self.target(sc, d - 1)
            parts.append(("*" if i == si else "") + t)
            names += ns
        if star:
            self.f("star_target")
        txt = ", ".join(parts) + ("," if n == 1 else "")
        return self.ch(["(%s)", "[%s]"]) % txt, names

    def pattern(self, sc, d, names):
        self.f("match")
        k = self.ch(["lit", "lit", "cap", "wild", "seq", "map", "cls", "or", "as", "val", "star"]) if d > 0 else self.ch(["lit", "cap", "wild", "val"])
        if k == "lit":
            return self.ch(["0", "1", "'a'", "None", "True", "-1", "1.5", "b'x'", "1 + 2j"])
        if k == "cap":
            n = self.fresh("m")
            names.append(n)
            return n
        if k == "wild":
            return "_"
        if k == "val":
            return self.ch(["os.sep", "enum.Enum", "sys.maxsize", "undef0.attr"] + [c + ".x" for c in self.classes[:2]])
        if k == "seq":
            ps = [self.pattern(sc, d - 1, names) for _ in range(self.r.randint(0, 3))]
            if self.p(0.4):
                n = self.ch(["_", self.fresh("m")])
                if n != "_":
                    names.append(n)
                ps.insert(self.r.randint(0, len(ps)), "*" + n)
            return self.ch(["[%s]", "(%s,)" if len(ps) == 1 else "(%s)"]) % ", ".join(ps) if ps else "[]"
        if k == "star":
            return "[_, *_]"
        if k == "map":
            items = ["%s: %s" % (self.ch(["'a'", "1", "None", "os.sep"]), self.pattern(sc, d - 1, names)) for _ in range(self.r.randint(0, 2))]
            if self.p(0.3):
                n = self.fresh("m")
                names.append(n)
                items.append("**" + n)
            return "{" + ", ".join(items) + "}"
        if k == "cls":
            c = self.ch(self.classes + ["int", "str", "list", "dict", "undef0", "tuple", "float"])
            pos = [self.pattern(sc, d - 1, names) for _ in range(self.r.randint(0, 2))]
            kw = ["%s=%s" % (a, self.pattern(sc, d - 1, names)) for a in self.r.sample(["x", "y", "zz"], self.r.randint(0, 2))]
            return "%s(%s)" % (c, ", ".join(pos + kw))
        if k == "or":
            # alternatives must bind the same names: use name-free ones
            return " | ".join(self.ch(["0", "'a'", "None", "[]", "int()", "{}", "[_, _]", "str(_)"]) for _ in range(self.r.randint(2, 3)))
        sub = self.pattern(sc, d - 1, names)
        if sub in ("_",) or sub in names:
            return sub
        n = self.fresh("m")
        names.append(n)
        return "%s as %s" % (sub, n) if "|" not in sub and " as " not in sub else "(%s) as %s" % (sub, n)

    def block(self, sc, d, n=None):
        out = []
        for _ in range(n if n is not None else self.r.randint(1, 3)):
            out += self.stmt(sc, d)
        return out or ["pass"]

    @staticmethod
    def ind(lines):
        return ["    " + l for l in lines]

    def stmt(self, sc, d=2):
        kinds = ["expr", "expr", "assign", "assign", "aug", "annassign", "annassign", "return", "if", "for", "while", "try", "with", "raise", "assert",
                 "del", "pass", "global", "nonlocal", "def", "class", "match", "break", "asyncfor", "asyncwith", "import", "lambda",
                 "tryfinally", "chain", "starassign", "exprstmt_str"]
        k = self.ch(kinds) if d > 0 else self.ch(["expr", "assign", "aug", "annassign", "return", "pass", "raise", "assert", "del"])
        e = lambda dd=2: self.expr(sc, dd)
        if k == "expr":
            return [e()]
        if k == "exprstmt_str":
            return [repr(self.ch(["doc", "%s", "{}"]))]
        if k == "assign":
            rhs = e()
            t, ns = self.target(sc)
            sc.names += ns
            return ["%s = %s" % (t, rhs)]
        if k == "chain":
            rhs = e()
            a, b = self.fresh("t"), self.fresh("t")
            sc.names += [a, b]
            return ["%s = %s = %s" % (a, b, rhs)]
        if k == "starassign":
            self.f("star_target")
            a, b = self.fresh("t"), self.fresh("t")
            rhs = self.ch(["[1, 2, 3]", "(1,)", "'ab'", "()", "1", e(), "{1: 2}", "range(3)"])
            sc.names += [a, b]
            return [self.ch(["%s, *%s = %s", "*%s, %s = %s", "[%s, *%s] = %s"]) % (a, b, rhs)]
        if k == "aug":
            t = self.name(sc) if self.p(0.7) else "%s[%s]" % (self.name(sc), e(1))
            if t in BUILTINS or t in UNDEF:
                t = self.fresh("t")
            return ["%s %s= %s" % (t, self.ch(BINOPS), e())]
        if k == "annassign":
            self.f("annassign")
            n = self.fresh("t")
            a = self.ann(sc, evaluated=not sc.in_func)
            sc.names.append(n)
            if self.p(0.75):
                return ["%s: %s = %s" % (n, a, e())]
            return ["%s: %s" % (n, a)]
        if k == "return":
            if not sc.in_func or sc.no_jump:
                return ["pass"]
            return ["return" if self.p(0.2) else "return " + e()]
        if k == "if":
            out = ["if %s:" % e()] + self.ind(self.block(sc, d - 1))
            if self.p(0.3):
                out += ["elif %s:" % e()] + self.ind(self.block(sc, d - 1))
            if self.p(0.5):
                out += ["else:"] + self.ind(self.block(sc, d - 1))
            return out
        if k == "for":
            t, ns = self.target(sc)
            it = e()
            sc.names += ns
            out = ["for %s in %s:" % (t, it)] + self.ind(self.block(sc.child(in_loop=True, names=sc.names), d - 1))
            if self.p(0.25):
                self.f("loop_else")
                out += ["else:"] + self.ind(self.block(sc, d - 1))
            return out
        if k == "while":
            out = ["while %s:" % self.ch([e(), "True", "1", "0"])] + self.ind(self.block(sc.child(in_loop=True, names=sc.names), d - 1))
            if self.p(0.25):
                self.f("loop_else")
                out += ["else:"] + self.ind(self.block(sc, d - 1))
            return out
        if k == "break":
            if sc.in_loop and not sc.no_jump:
                return [self.ch(["break", "continue"])]
            return ["pass"]
        if k in ("try", "tryfinally"):
            self.f("try")
            out = ["try:"] + self.ind(self.block(sc, d - 1))
            nh = self.r.randint(0 if k == "tryfinally" else 1, 2)
            star = self.p(0.1) and nh > 0
            for i in range(nh):
                exc = self.ch(["Exception", "(ValueError, TypeError)", "KeyError", "undef0", self.name(sc), "OSError", "1", "(int, str)"])
                if self.p(0.15) and i == nh - 1 and not star:
                    out += ["except:"]
                    hs = sc
                else:
                    hs = sc
                    if self.p(0.5):
                        n = self.fresh("ex")
                        out += ["except%s %s as %s:" % ("*" if star else "", exc, n)]
                        hs = sc.child(names=sc.names + [n])
                    else:
                        out += ["except%s %s:" % ("*" if star else "", exc)]
                if star:
                    hs = hs.child(no_jump=True)
                out += self.ind(self.block(hs, d - 1))
            if nh and self.p(0.3):
                out += ["else:"] + self.ind(self.block(sc, d - 1))
            if k == "tryfinally" or self.p(0.3):
                self.f("finally")
                out += ["finally:"] + self.ind(self.block(sc.child(in_loop=False) if False else sc, d - 1))
            return out
        if k == "with":
            self.f("with")
            items = []
            for _ in range(self.r.randint(1, 2)):
                ctx = self.ch([e(), "open(%s)" % e(1), "contextlib.suppress(Exception)", "contextlib.nullcontext(%s)" % e(1)])
                if self.p(0.6):
                    t, ns = self.target(sc)
                    sc.names += ns
                    items.append("%s as %s" % (ctx, t))
                else:
                    items.append(ctx)
            return ["with %s:" % ", ".join(items)] + self.ind(self.block(sc, d - 1))
        if k == "asyncfor":
            if not (sc.is_async and sc.gen_ok):
                return [e()]
            self.f("async_for")
            n = self.fresh("t")
            sc.names.append(n)
            return ["async for %s in %s:" % (n, e())] + self.ind(self.block(sc.child(in_loop=True, names=sc.names), d - 1))
        if k == "asyncwith":
            if not (sc.is_async and sc.gen_ok):
                return [e()]
            self.f("async_with")
            n = self.fresh("t")
            sc.names.append(n)
            return ["async with %s as %s:" % (e(), n)] + self.ind(self.block(sc, d - 1))
        if k == "raise":
            return [self.ch(["raise", "raise %s" % e(1), "raise %s from %s" % (e(1), e(1)), "raise ValueError(%s)" % e(1), "raise undef0"])]
        if k == "assert":
            return ["assert %s%s" % (e(), self.ch(["", ", " + e(1)]))]
        if k == "del":
            if sc.names and self.p(0.6):
                return ["del " + self.ch(sc.names)]
            return [self.ch(["del %s[%s]" % (self.name(sc), e(1)), "del %s.%s" % (self.name(sc), self.ch(ATTRS))])]
        if k == "pass":
            return [self.ch(["pass", "..."])]
        if k == "global":
            if not sc.in_func:
                return ["pass"]
            self.f("global")
            n = self.fresh("g")
            return ["global " + n, "%s = %s" % (n, e())]
        if k == "nonlocal":
            cands = [n for n in sc.parent_locals if n not in sc.names]
            if not cands:
                return ["pass"]
            self.f("nonlocal")
            n = self.ch(cands)
            sc.names.append(n)
            return ["nonlocal " + n, "%s = %s" % (n, e())]
        if k == "def":
            return self.funcdef(sc, d - 1, nested=True)
        if k == "class":
            if not sc.in_func:
                return ["pass"]
            self.f("nested_class")
            n = self.fresh("Local")
            body = self.class_body(sc, d - 1, flavour="plain")
            sc.names.append(n)
            return ["class %s%s:" % (n, self.ch(["", "(object)", "(%s)" % self.name(sc)]))] + self.ind(body)
        if k == "match":
            out = ["match %s:" % e()]
            for i in range(self.r.randint(1, 3)):
                names = []
                pat = self.pattern(sc, 2, names)
                if pat in names or pat == "_":
                    # an irrefutable pattern must come last: guard it
                    guard = " if " + e(1)
                else:
                    guard = " if " + e(1) if self.p(0.25) else ""
                cs = sc.child(names=sc.names + names)
                out += self.ind(["case %s%s:" % (pat, guard)] + self.ind(self.block(cs, d - 1)))
            if self.p(0.4):
                out += self.ind(["case _:"] + self.ind(self.block(sc, d - 1)))
            return out
        if k == "import":
            self.f("local_import")
            return [self.ch(["import os", "import os.path as p", "from os import path", "from typing import List as L", "import undefined_module_xyz",
                             "from os import undefined_thing", "import sys, os", "from . import x", "from collections import abc"])]
        if k == "lambda":
            n = self.fresh("t")
            sc.names.append(n)
            return ["%s = %s" % (n, self.lam(sc, 2))]
        return ["pass"]

    def params(self, sc, method=None, evaluated=True):
        """Returns (text, names, npos, kwnames)."""
        names, parts = [], []
        if method == "self":
            parts.append(self.ch(["self", "self", "self", "this", "cls"]))
            names.append(parts[-1])
        elif method == "cls":
            parts.append("cls")
            names.append("cls")
        npos = self.r.randint(0, 3)
        defaults_started = False
        posonly = self.p(0.15) and npos > 0
        kwn = []
        for i in range(npos):
            n = self.fresh("a")
            names.append(n)
            txt = n
            if self.p(0.6):
                txt += ": " + self.ann(sc, evaluated)
            if defaults_started or self.p(0.25):
                defaults_started = True
                txt += (" = " if ":" in txt else "=") + self.ch(["0", "None", "'s'", "()", "[]", "1.5", "-1", "{}", "len", "..."])
            parts.append(txt)
            if posonly and i == 0:
                parts.append("/")
            else:
                kwn.append(n)
        if self.p(0.2):
            n = self.fresh("va")
            names.append(n)
            parts.append("*%s%s" % (n, ": " + self.ann(sc, evaluated) if self.p(0.4) else ""))
        elif self.p(0.15):
            parts.append("*")
            n = self.fresh("k")
            names.append(n)
            kwn.append(n)
            parts.append(n + ("=1" if self.p(0.5) else ""))
        if parts and parts[-1] != "*" and self.p(0.25) and "*" in "".join(parts):
            n = self.fresh("k")
            names.append(n)
            kwn.append(n)
            parts.append("%s: %s = %s" % (n, self.ann(sc, evaluated), self.ch(["0", "None"])))
        if self.p(0.15):
            n = self.fresh("kw")
            names.append(n)
            parts.append("**%s%s" % (n, ": " + self.ann(sc, evaluated) if self.p(0.4) else ""))
        if parts and parts[-1] == "*":
            parts.pop()
        return ", ".join(parts), names, npos, kwn

    def funcdef(self, sc, d, nested=False, method=None, name=None, decorators=None, is_async=None):
        is_async = self.p(0.2) if is_async is None else is_async
        if is_async:
            self.f("async_def")
        n = name or self.fresh("f")
        evaluated = True
        ptxt, pnames, npos, kwn = self.params(sc, method, evaluated)
        ret = " -> " + self.ann(sc, evaluated) if self.p(0.5) else ""
        out = []
        for dec in decorators or []:
            out.append("@" + dec)
        if nested and self.p(0.2):
            self.f("decorator")
            out.append("@" + self.ch(["functools.lru_cache(maxsize=None)", "functools.wraps(len)", "undef0", "staticmethod", self.name(sc), "contextlib.contextmanager"]))
        out.append("%sdef %s(%s)%s:" % ("async " if is_async else "", n, ptxt, ret))
        body_sc = Scope(names=pnames, in_func=True, is_async=is_async, in_loop=False, in_class=False,
                        parent_locals=(sc.names if sc.in_func else []), gen_ok=True)
        body = []
        if self.p(0.15):
            body.append(repr("doc " + n))
        body += self.block(body_sc, d, n=self.r.randint(1, 4))
        out += self.ind(body)
        if not nested and method is None:
            self.funcs[n] = (npos, kwn)
        elif nested:
            sc.names.append(n)
        return out

    def class_body(self, sc, d, flavour):
        out = []
        csc = Scope(names=[], in_func=False, in_class=True, gen_ok=False)
        if self.p(0.3):
            out.append("x: %s = 0" % self.ann_safe(1)) if flavour == "plain" else None
        for _ in range(self.r.randint(1, 3)):
            r = self.r.random()
            if r < 0.55:
                out += self.funcdef(csc, d, method="self")
            elif r < 0.65:
                self.f("property")
                out += self.funcdef(csc, d, method="self", decorators=["property"], is_async=False)
            elif r < 0.75:
                self.f("classmethod")
                out += self.funcdef(csc, d, method="cls", decorators=["classmethod"])
            elif r < 0.85:
                self.f("staticmethod")
                out += self.funcdef(csc, d, method=None, decorators=["staticmethod"], nested=False, name=self.fresh("sm"))
            elif r < 0.93 and flavour in ("plain", "init"):
                out += self.toplevel_annassign(in_class=True)
            else:
                out.append("%s = %s" % (self.fresh("cv"), self.ch(["0", "'a'", "[]", "None", "(1, 2)"])))
        return out or ["pass"]

    # ------------------------------------------------------------ top level (executed on import)
    def toplevel_class(self):
        fl = self.ch(["plain", "plain", "init", "inherit", "dataclass", "enum", "typeddict", "namedtuple", "protocol", "generic", "abc", "slots", "dunder"])
        n = self.fresh("C")
        self.f("class_" + fl)
        out = []
        sc = Scope()
        if fl == "plain":
            out = ["class %s:" % n] + self.ind(["x = 0", "y: int = 1"] + self.class_body(sc, 1, "plain"))
        elif fl == "init":
            out = ["class %s:" % n] + self.ind(
                ["def __init__(self, x: %s, y=0) -> None:" % self.ann(sc, True)] + self.ind(["self.x = x", "self.y = y"] + self.block(Scope(names=["self", "x", "y"], in_func=True), 1))
                + self.class_body(sc, 1, "init"))
        elif fl == "inherit":
            base = self.ch(self.classes) if self.classes and self.p(0.7) else self.ch(["object", "Exception", "dict", "list", "int", "str"])
            if any(base == c and k in ("enum", "typeddict", "namedtuple", "protocol") for c, k in getattr(self, "_kinds", {}).items()):
                base = "object"
            out = ["class %s(%s):" % (n, base)] + self.ind(self.class_body(sc, 1, "init"))
        elif fl == "dataclass":
            dec = self.ch(["@dataclass", "@dataclass(frozen=True)", "@dataclasses.dataclass(order=True)", "@dataclass(slots=True)"])
            fields = ["x: %s" % self.ann_safe(1), "y: %s = %s" % (self.ch(["int", "str", "Optional[int]", "'int'"]), self.ch(["0", "None", "field(default=1)"])),
                      "z: List[int] = field(default_factory=list)"]
            out = [dec, "class %s:" % n] + self.ind(fields[: self.r.randint(1, 3)] + (self.class_body(sc, 1, "dc") if self.p(0.5) else []))
        elif fl == "enum":
            base = self.ch(["enum.Enum", "enum.IntEnum", "enum.Flag", "str, enum.Enum"])
            vals = ["'a'", "'b'", "'c'"] if base.startswith("str") else ["1", "2", "4"]
            out = ["class %s(%s):" % (n, base)] + self.ind(["x = " + vals[0], "y = " + vals[1], "zz = " + vals[2]] + (self.funcdef(sc, 1, method="self") if self.p(0.4) else []))
        elif fl == "typeddict":
            tot = self.ch(["", ", total=False"])
            out = ["class %s(TypedDict%s):" % (n, tot)] + self.ind(["x: %s" % self.ann_safe(1), "y: %s" % self.ch(["int", "'str'", "typing.NotRequired[int]", "typing.Required[str]", "typing.ReadOnly[int]" if False else "List[int]"])])
        elif fl == "namedtuple":
            out = ["class %s(NamedTuple):" % n] + self.ind(["x: %s" % self.ann_safe(1), "y: int = 0"] + (self.funcdef(sc, 1, method="self") if self.p(0.4) else []))
        elif fl == "protocol":
            out = ["%sclass %s(Protocol):" % ("@typing.runtime_checkable\n" if self.p(0.4) else "", n)] + self.ind(["x: int", "def meth(self, a: int) -> str: ..."])
        elif fl == "generic":
            tv = self.tvars[0] if self.tvars else "Any"
            base = "Generic[%s]" % tv if self.tvars else "object"
            out = ["class %s(%s):" % (n, base)] + self.ind(["def get(self) -> %s:" % tv] + self.ind(self.block(Scope(names=["self"], in_func=True), 1)) + ["x = 0"])
        elif fl == "abc":
            out = ["class %s(abc.ABC):" % n] + self.ind(["@abc.abstractmethod", "def meth(self, a): ...", "x = 0"] + self.class_body(sc, 1, "plain"))
        elif fl == "slots":
            out = ["class %s:" % n] + self.ind(["__slots__ = ('x', 'y')"] + self.class_body(sc, 1, "slots"))
        else:
            dunders = self.r.sample(["__len__", "__getitem__", "__iter__", "__call__", "__eq__", "__hash__", "__bool__", "__getattr__", "__add__", "__radd__",
                                     "__contains__", "__enter__", "__exit__", "__aenter__", "__aexit__", "__await__", "__aiter__", "__anext__", "__format__",
                                     "__str__", "__repr__", "__lt__", "__setitem__", "__delitem__", "__set_name__", "__init_subclass__", "__class_getitem__", "__index__", "__neg__"], self.r.randint(1, 4))
            body = ["x = 0"]
            for du in dunders:
                extra = {"__getitem__": ", k", "__call__": ", *a, **k", "__eq__": ", o", "__getattr__": ", n", "__add__": ", o", "__radd__": ", o", "__contains__": ", o",
                         "__exit__": ", *a", "__aexit__": ", *a", "__format__": ", spec", "__lt__": ", o", "__setitem__": ", k, v", "__delitem__": ", k",
                         "__set_name__": ", owner, name", "__init_subclass__": ", **kw", "__class_getitem__": ", item"}.get(du, "")
                pre = "async " if du in ("__aenter__", "__aexit__", "__anext__") else ""
                body += ["%sdef %s(self%s):" % (pre, du, extra)] + self.ind(self.block(Scope(names=["self"], in_func=True, is_async=bool(pre)), 1))
            out = ["class %s:" % n] + self.ind(body)
        self._kinds = getattr(self, "_kinds", {})
        self._kinds[n] = fl
        self.classes.append(n)
        return out

    def toplevel_annassign(self, in_class=False):
        """`name: <annotation> [= value]` at module / class level (evaluated on import: runtime-safe or quoted)."""
        self.f("class_annassign" if in_class else "module_annassign")
        n = self.fresh("cv" if in_class else "MA")
        a = self.ann(Scope(), evaluated=True)
        if not in_class:
            self.consts.append(n)
        if self.p(0.6):
            return ["%s: %s = %s" % (n, a, self.ch(["0", "None", "'a'", "[]", "(1, 2)", "len", "{}", "1.5", "[1]", "..."]))]
        return ["%s: %s" % (n, a)]

    def toplevel_exec(self):
        """Executed, well-typed statements."""
        self.f("toplevel_exec")
        n = self.fresh("K")
        choices = [
            ["%s = %d" % (n, self.r.randint(-3, 100))],
            ["%s = %r" % (n, self.ch(["a", "", "x y"]))],
            ["%s = [1, 2, 3]" % n],
            ["%s = {'a': 1, 'b': 2}" % n],
            ["%s = (1, 'a', None)" % n],
            ["%s = [i * 2 for i in range(3) if i]" % n],
            ["%s = {k: v for k, v in zip('ab', range(2))}" % n],
            ["%s = 0" % n, "for _i in range(3):", "    %s += _i" % n, "else:", "    %s -= 1" % n],
            ["try:", "    %s = int('x')" % n, "except ValueError as _e:", "    %s = -1" % n, "finally:", "    pass"],
            ["with contextlib.suppress(Exception):", "    %s = 1" % n, "%s = 2" % n],
            ["if (%s := len('abc')) > 2:" % n, "    pass"],
            ["%s = lambda a, b=1, *c, **d: (a, b, c, d)" % n],
            ["%s = f'{1 + 1!r:>4} {{}}'" % n],
            ["%s = '%%s-%%d' %% ('a', 1)" % n],
            ["%s = '{} {x}'.format(1, x=2)" % n],
            ["%s, *_rest = [1, 2, 3]" % n],
            ["match 3:", "    case 1 | 2:", "        %s = 'low'" % n, "    case int(_v) if _v > 2:", "        %s = 'high'" % n, "    case _:", "        %s = None" % n],
            ["%s: Final = 3" % n],
            ["%s: 'List[int]' = []" % n],
            ["%s = functools.partial(int, base=2)" % n],
            ["%s = collections.OrderedDict(a=1)" % n],
            ["%s = collections.namedtuple('%s', ['x', 'y'])(1, 2)" % (n, n)],
            ["%s = enum.Enum('%s', 'x y')" % (n, n)],
            ["%s = (i for i in range(3))" % n],
            ["%s = {1, 2} | {3}" % n],
            ["%s = b'ab' * 2" % n],
            ["%s = 10 ** 30" % n],
        ]
        out = self.ch(choices)
        self.consts.append(n)
        return out

    def toplevel_typing(self, force=None):
        k = force or self.ch(["tvar", "tvar", "newtype", "alias", "tvar_bound", "paramspec", "bigunion", "bigunion", "recalias", "recalias", "rectvar", "pep695"])
        self.f("typing_" + k)
        if k == "recalias":
            return self.rec_alias()
        if k == "rectvar":
            n = self.fresh("RV")
            self.tvars.append(n)
            return ["%s = TypeVar(%r, %s)" % (n, n, self.ch(["'int', 'List[%s]'" % n, "bound='List[%s]'" % n, "'Sequence[%s]', str" % n, "bound='%s'" % n,
                                                              "int, 'Dict[str, %s]'" % n, "bound='Optional[%s]'" % n]))]
        if k == "pep695":
            n = self.fresh("PA")
            self.consts.append(n)
            v = self.ch(["simple", "rec", "variadic", "bound", "func"])
            if v == "simple":
                self.recs.append("%s[int]" % n)
                return ["type %s[T] = list[T] | dict[str, T]" % n]
            if v == "rec":
                self.recs.append(n)
                return ["type %s = list[%s] | dict[str, %s] | int | None" % (n, n, n)]
            if v == "variadic":
                self.recs.append(self.ch(["%s[int, str, [int]]", "%s[int, [int, str]]", "%s[int, str, bytes, ...]", "%s[int]"]) % n)
                return ["type %s[T, *Ts, **P] = tuple[T, *Ts] | Callable[P, T]" % n]
            if v == "bound":
                self.recs.append("%s[int]" % n)
                return ["type %s[T: (int, str)] = list[T]" % n]
            fn = self.fresh("gf")
            self.funcs[fn] = (1, ["a"])
            return ["def %s[T, *Ts](a: T, *b: *Ts) -> tuple[T, *Ts]:" % fn, "    return (a, *b)", "class %s[T]:" % n, "    x: T", "    def m(self, o: '%s[T]') -> T:" % n, "        return self.x"]
        if k == "bigunion":
            n, fn = self.fresh("Big"), self.fresh("bf")
            self.bigs.append(n)
            self.bigfuncs.append(fn)
            self.funcs[fn] = (1, ["d"])
            lit = self.ch(KNOWN_LITS)
            return ["%s = %s" % (n, self.ch(BIG_ALIASES)),
                    "def %s(d: %s, e: %s = None) -> %s:" % (fn, n, self.ch([n, "'%s'" % n, "Optional[%s]" % n]), self.ch([n, "None", "List[%s]" % n])),
                    "    t: %s = %s" % (n, lit), "    u: %s = [%s]" % (self.ch(["List[%s]" % n, "Dict[str, %s]" % n, n]), self.ch(KNOWN_LITS)),
                    "    %s(%s)" % (fn, self.ch(KNOWN_LITS)), "    %s(d=%s, e=%s)" % (fn, self.ch(KNOWN_LITS), self.ch(KNOWN_LITS)),
                    "    return %s" % self.ch(KNOWN_LITS + ["d", "t"])]
        if k in ("tvar", "tvar_bound"):
            n = self.fresh("T")
            self.tvars.append(n)
            if k == "tvar":
                return ["%s = TypeVar(%r)" % (n, n)]
            return ["%s = TypeVar(%r, %s)" % (n, n, self.ch(["bound=int", "int, str", "bound='int'", "covariant=True"]))]
        if k == "newtype":
            n = self.fresh("NT")
            self.newtypes.append(n)
            return ["%s = NewType(%r, %s)" % (n, n, self.ch(["int", "str", "list"]))]
        if k == "paramspec":
            n = self.fresh("P")
            return ["%s = typing.ParamSpec(%r)" % (n, n)]
        n = self.fresh("Alias")
        self.consts.append(n)
        return ["%s = %s" % (n, self.ann_safe(2))]

    def rec_alias(self):
        """Recursive / mutually recursive aliases through string forward references, a definition using them, and a
        module-level statement that makes typing resolve the references at import time (as a framework would)."""
        self.f("recursive_alias")
        a, b, fn = self.fresh("Rec"), self.fresh("Rec"), self.fresh("rf")
        shape = self.ch(["direct", "direct", "mutual", "optional", "tuple"])
        if shape == "direct":
            out = ["%s = Union[int, str, None, List[%r], Dict[str, %r]]" % (a, a, a)]
        elif shape == "mutual":
            out = ["%s = List[%r]" % (a, b), "%s = Dict[str, Union[%r, int]]" % (b, a)]
        elif shape == "optional":
            out = ["%s = Optional[List[%r]]" % (a, a)]
        else:
            out = ["%s = Tuple[int, Optional[%r]]" % (a, a)]
        self.recs.append(a)
        user = self.ch(["func", "func", "dataclass", "namedtuple", "typeddict", "class", "singledispatch"])
        if user == "func":
            out += ["def %s(x: %s, y: %r = None) -> %s:" % (fn, a, a, a), "    z: %s = x" % a, "    return z"]
            self.funcs[fn] = (1, ["x", "y"])
            target = fn
        elif user == "dataclass":
            out += ["@dataclass", "class %s:" % fn, "    t: %s" % a, "    u: Optional[%r] = None" % fn]
            self.classes.append(fn)
            target = fn
        elif user == "namedtuple":
            out += ["class %s(NamedTuple):" % fn, "    t: %s" % a, "    n: Optional[%r] = None" % fn]
            self.classes.append(fn)
            target = fn
        elif user == "typeddict":
            out += ["class %s(TypedDict):" % fn, "    t: %s" % a, "    kids: List[%r]" % fn]
            target = fn
        elif user == "class":
            out += ["class %s:" % fn, "    t: %s" % a, "    u: ClassVar[%r]" % a, "    def m(self, o: %r) -> %s:" % (fn, a), "        return self.t"]
            self.classes.append(fn)
            target = fn
        else:
            out += ["@functools.singledispatch", "def %s(x: %s):" % (fn, a), "    return x", "@%s.register" % fn, "def _(x: int):", "    return x"]
            self.funcs[fn] = (1, ["x"])
            target = fn
        ev = self.ch(["hints", "hints", "hints_extras", "inspect", "none", "get_args"])
        h = self.fresh("_h")
        if ev == "hints":
            out += ["try:", "    %s = typing.get_type_hints(%s)" % (h, target), "except Exception:", "    %s = None" % h]
        elif ev == "hints_extras":
            out += ["try:", "    %s = typing.get_type_hints(%s, include_extras=True)" % (h, target), "except Exception:", "    %s = None" % h]
        elif ev == "inspect":
            out += ["try:", "    import inspect", "    %s = inspect.get_annotations(%s, eval_str=True)" % (h, target), "except Exception:", "    %s = None" % h]
        elif ev == "get_args":
            out += ["%s = [typing.get_args(_x) for _x in typing.get_args(%s)]" % (h, a)]
        if ev != "none":
            self.f("import_time_annotation_evaluation")
        return out

    def toplevel_func(self):
        k = self.ch(["plain", "plain", "plain", "decorated", "overload", "async", "generator", "ctxmgr"])
        sc = Scope()
        if k == "plain":
            return self.funcdef(sc, 2)
        if k == "async":
            return self.funcdef(sc, 2, is_async=True)
        if k == "decorated":
            self.f("decorator")
            dec = self.ch(["functools.lru_cache(maxsize=None)", "functools.lru_cache", "_deco", "_deco_args(1, x=2)", "functools.wraps(len)", "functools.cache", "_deco\n@_deco_args()"])
            return self.funcdef(sc, 2, decorators=[dec], is_async=False)
        if k == "ctxmgr":
            self.f("decorator")
            n = self.fresh("f")
            self.funcs[n] = (0, [])
            return ["@contextlib.contextmanager", "def %s():" % n] + self.ind(self.block(Scope(in_func=True), 1) + ["yield 1"])
        if k == "generator":
            n = self.fresh("f")
            self.funcs[n] = (1, [])
            return ["def %s(a):" % n] + self.ind(self.block(Scope(names=["a"], in_func=True), 1) + ["yield a", "return 1"])
        self.f("overload")
        n = self.fresh("f")
        self.funcs[n] = (1, ["a"])
        return ["@overload", "def %s(a: int) -> int: ..." % n, "@overload", "def %s(a: str, b: int = 0) -> str: ..." % n,
                "def %s(a, b=0):" % n] + self.ind(self.block(Scope(names=["a", "b"], in_func=True), 1))

    def hostile_class(self):
        """A class whose instances misbehave when pyanalyze inspects them; one module-level instance."""
        self.f("hostile_object")
        n = self.fresh("H")
        du = self.ch(["__getattr__", "__bool__", "__eq__", "__hash__", "__len__", "__iter__", "__getitem__", "__repr__", "__str__", "prop", "__contains__", "__class__",
                      "__format__", "__format__", "__index__", "__int__", "__float__", "__lt__", "__add__", "__neg__", "__call__"])
        exc = self.ch(["ValueError", "RuntimeError", "KeyError", "TypeError", "OverflowError", "ZeroDivisionError", "LookupError", "_HostileError"])
        sig = {"__getattr__": "(self, n)", "__eq__": "(self, o)", "__getitem__": "(self, k)", "__contains__": "(self, o)", "__format__": "(self, spec)",
               "__lt__": "(self, o)", "__add__": "(self, o)", "__call__": "(self, *a)"}.get(du, "(self)")
        if du == "prop":
            body = ["@property", "def prop(self):", "    raise %s('h')" % exc]
        elif du == "__class__":
            body = ["@property", "def __class__(self):", "    return int"]
        else:
            body = ["def %s%s:" % (du, sig), "    raise %s('h')" % exc]
        inst = self.fresh("H_inst")
        self.consts.append(inst)
        self.hostile_names = self.hostile_names + [inst, inst]
        self.classes.append(n)
        return ["class _HostileError(Exception):", "    pass", "class %s:" % n] + self.ind(body) + ["%s = %s()" % (inst, n)]

    def module(self):
        src = self._module()
        if not self.nonascii:
            src = src.replace("é", "e")
        else:
            self.f("non_ascii")
        return src

    def _module(self):
        out = []
        if self.future:
            out.append("from __future__ import annotations")
            self.f("future_annotations")
        out.append(HEADER.rstrip("\n"))
        out += ["def _deco(f):", "    return f", "def _deco_args(*a, **k):", "    return lambda f: f"]
        out += (HOSTILE_HEADER + (HOSTILE_HUGE if self.huge else "") + (HOSTILE_DEEP if self.deep else "")).rstrip("\n").split("\n")
        n_items = self.r.randint(3, 9)
        if self.p(0.3):
            out += self.toplevel_typing(force="bigunion")
        if self.p(0.3):
            out += self.toplevel_typing(force="recalias")
        for _ in range(n_items):
            r = self.r.random()
            if r < 0.10:
                out += self.toplevel_typing()
            elif r < 0.2:
                out += self.toplevel_annassign()
            elif r < 0.3:
                out += self.toplevel_exec()
            elif r < 0.55:
                out += self.toplevel_class()
            elif self.hostile and r < 0.62:
                out += self.hostile_class()
            else:
                out += self.toplevel_func()
        if self.p(0.3):
            self.f("type_checking_block")
            out += ["if typing.TYPE_CHECKING:"] + self.ind(self.block(Scope(names=[]), 1))
        if self.p(0.15):
            out += ["if __name__ == '__main__':"] + self.ind(self.block(Scope(names=[]), 2))
        return "\n".join(out) + "\n"
