"""C13 — static and runtime views of declarations agree.

Annotation streams (one generated expression E, five readings of it by the real pyanalyze)
  ast   : type_from_ast(ast.parse(E))                      vs Lean `astEval`
  str   : type_from_runtime("E")                           vs Lean `astEval` (string route, _DefaultContext.get_name)
  strg  : type_from_runtime("E", ctx=AnnotationsContext(f.__globals__))   vs Lean `astEval (globalsLookup env)`
          (the string annotations of a function object: names through Context.get_name_from_globals)
  rt    : type_from_runtime(eval(E))                       vs Lean `rtEval (tnorm E)`
  src   : parameter annotated E in a def of a checked module (signature of the def)   vs Lean `visEval E`
  qsrc  : parameter annotated "E" in a def of a checked module                        vs Lean `visEval (str E)`
  typing: the object `typing` really builds for E, re-encoded  vs Lean `tnorm E`   (spec validation)
Signature streams (one generated def header)
  def   : signature pyanalyze computes from the def node (a nested def in a checked module)   vs Lean `fromDef`
  insp  : ArgSpecCache.get_argspec(function object imported from a helper module)             vs Lean `fromRuntime`
  inspect: inspect.signature(function object), re-encoded   vs Lean `inspectOf`  (spec validation)
  calls : the same calls (None arguments and well-typed `B()` arguments) checked next to the nested def, for the same def at
          module level of the checked module, and from a module importing the function
Several modules, one Checker (stream multi): the same def texts in 2-3 generated modules that bind the annotation names
  (a class, a NewType, a typing alias, a TypeVar) to different objects; the function objects' signatures asked of ONE Checker in
  both orders and interleaved, compared with each module on a fresh Checker (history independence), with the def-node view and
  with the Lean model per module environment; importer call verdicts with one Checker vs alone.
  translate(): the per-Checker caches of arg_spec.py / annotations.py / functions.py (attributes, decorators, key expressions)
  are regenerated into Generated/ArgSpecCaches.lean and pinned by Props/C13.lean argspec_caches_registered.
Function kinds: every header has a kind (def, async def, async generator, generator); both signature routes wrap the return
  type of a coroutine function in Coroutine[Any, Any, …] (Lean wrapRet); the branch structure of from_signature /
  compute_value_of_function that decides it is regenerated (Generated returnBranches, obligation return_branches_registered).
  call_result: the value of a call next to the nested def vs from the importing module; verdicts include missing_await.
Implementation-only streams: decorated (contextmanager / asynccontextmanager / lru_cache / wraps wrapper / static- and
  classmethod: nested def vs module-level def vs importer), extra (Callable/TypedDict/Protocol/TypeVar forms, Annotated metadata built by a call),
  methods (parameter kinds of methods with __x parameters, def node vs function object, classes with leading underscores).
Dotted names: a generated library package (a temporary directory removed at exit) provides attributes by every mechanism
  Python has — module __dict__, submodule, module-level __getattr__ (PEP 562), metaclass __getattr__, class __dict__, the MRO,
  a property, an instance attribute — plus missing ones; chains `L.Static`, `L.sub.Inner`, `L.Box.Dyn`, `alias.Lazy`, … are used
  quoted, unquoted and under the future import in all streams. Lean: one attribute table for every route (`withAttrs`,
  `attr_routes_agree`); translate() pins the attribute-resolution primitives of the annotation routes
  (annotation_attr_primitives_registered).
Names: annotations use names through an explicit environment (Lean `NameEnv`): module-level names shadowing a builtin
(complex, TimeoutError, Warning), builtin-only, module-only, undefined, bound after the defs — quoted, unquoted, under
`from __future__ import annotations`, in nested / module-level / imported defs.
Property search on the implementation: the five readings of E agree up to representation (union member order,
duplicates, Annotated over a union); the two signatures agree (names, kinds, default presence, annotations, return);
the same call gets the same verdict in both modules. Value comparison is structural (values.value_to_ty), never str().
"""
import ast, importlib, inspect, itertools, json, os, sys, types, typing
import collections.abc as cabc

from harness.common import lean, pya, values as V, gen_values as G
from harness import universe as U

PROP = "C13"
LEAN_PROP = "PyaModel.Props.C13"
NAMESPACE = "Pya.C13"
LEAN_TARGETS = ["PyaModel.Core.AnnotRoutes", "PyaModel.Core.Sexp", "PyaModel.Generated.ArgSpecCaches"]
ANCHORS = [
    ("pyanalyze/annotations.py", "_type_from_runtime"),
    ("pyanalyze/annotations.py", "_value_of_origin_args"),
    ("pyanalyze/annotations.py", "_type_from_value"),
    ("pyanalyze/annotations.py", "_type_from_subscripted_value"),
    ("pyanalyze/annotations.py", "_eval_forward_ref"),
    ("pyanalyze/annotations.py", "_Visitor"),
    ("pyanalyze/annotations.py", "Context.get_name_from_globals"),
    ("pyanalyze/annotations.py", "Context.get_attribute"),
    ("pyanalyze/annotations.py", "_Visitor.visit_Attribute"),
    ("pyanalyze/name_check_visitor.py", "NameCheckVisitor.composite_from_attribute"),
    ("pyanalyze/annotations.py", "Context.handle_undefined_name"),
    ("pyanalyze/annotations.py", "_DefaultContext.get_name"),
    ("pyanalyze/arg_spec.py", "AnnotationsContext.get_name"),
    ("pyanalyze/name_check_visitor.py", "NameCheckVisitor.resolve_name"),
    ("pyanalyze/name_check_visitor.py", "NameCheckVisitor._set_argspec_to_retval"),
    ("pyanalyze/arg_spec.py", "ArgSpecCache._uncached_get_argspec"),
    ("pyanalyze/value.py", "make_coro_type"),
    ("pyanalyze/annotations.py", "_make_sequence_value"),
    ("pyanalyze/annotations.py", "_make_annotated"),
    ("pyanalyze/annotations.py", "_maybe_typed_value"),
    ("pyanalyze/name_check_visitor.py", "NameCheckVisitor.value_of_annotation"),
    ("pyanalyze/name_check_visitor.py", "NameCheckVisitor._composite_from_subscript_no_mvv"),
    ("pyanalyze/functions.py", "compute_parameters"),
    ("pyanalyze/functions.py", "translate_vararg_type"),
    ("pyanalyze/functions.py", "compute_value_of_function"),
    ("pyanalyze/arg_spec.py", "ArgSpecCache.from_signature"),
    ("pyanalyze/arg_spec.py", "ArgSpecCache._make_sig_parameter"),
    ("pyanalyze/arg_spec.py", "ArgSpecCache._get_type_for_parameter"),
    ("pyanalyze/analysis_lib.py", "is_positional_only_arg_name"),
    ("pyanalyze/value.py", "SubclassValue.make"),
    ("pyanalyze/value.py", "UnpackedValue.get_elements"),
]
RULE = (
    "annotation expressions over the shared class universe: every expression of depth <= 1 over a fixed atom set (classes, None, "
    "Any, NewTypes, bare typing aliases) under every constructor (Optional, Union, |, old/new generics, tuple forms, Unpack/star, "
    "Literal, type[], Annotated, Final/ClassVar, forward-reference strings), every kind of name (module-level name shadowing a "
    "builtin, builtin only, module only, undefined, bound after the def) in every position a lookup happens, a seeded sample of depth 2, "
    "then seeded random depth <= 3; "
    "expressions typing itself rejects (eval raises) are skipped and counted; def headers: every kind sequence up to 3 parameters with "
    "small annotation/default choices, then seeded random ones with generated annotations, __dunder parameter names and "
    "`from __future__ import annotations`; per header a fixed family of calls; the same headers in 2-3 modules binding the names "
    "differently, checked by one Checker in several orders. Non-trivial = the expression has a constructor / the header "
    "has a parameter; distinct by source text. Callable/TypedDict/Protocol/TypeVar/ParamSpec forms are compared route against route on the "
    "implementation only (stream extra)."
)
ASSUMPTIONS = [
    "typing (CPython 3.12) and inspect.signature are modelled parameters (Spec/AnnotSpec.lean tnorm, inspectOf), validated against the real modules on every run (streams typing, inspect)",
    "Any sources (explicit / error / unannotated) are not distinguished by the shared Ty terms; the number of errors shown is compared instead",
    "the def-node signature is observed on a def nested in a function of the checked module (a module-level def of an importable module is replaced by its runtime object, name_check_visitor.py:1990)",
    "Annotated metadata is the constant 'm'; the function kind (def / async def / async generator / generator) is part of the modelled headers; decorated functions (functools.wraps wrapper, contextmanager, asynccontextmanager, lru_cache, staticmethod, classmethod), methods and Unpack on *args are compared on the implementation only (streams decorated, methods)",
    "collections.abc.Coroutine is registered in the value codec of this process under class id 900 (Lean coroCls); the shared class table on disk is not touched",
    "the return value pyanalyze infers from the body of an unannotated function (_set_argspec_to_retval) is outside the model: call-result values are compared only under a return annotation, otherwise only the Coroutine wrapper",
]
TRUSTED = [
    "Spec/AnnotSpec.lean tnorm / inspectOf validated against typing / inspect of the running CPython (streams typing, inspect)",
]

# ------------------------------------------------------------------ translator: the per-Checker caches of the signature route
CACHE_FILES = ["pyanalyze/arg_spec.py", "pyanalyze/annotations.py", "pyanalyze/functions.py"]
_CACHE_DECOS = ("lru_cache", "cache", "cached_property", "cached_per_instance", "memoize", "cached")


def scan_caches(repo):
    """(file, owner.name, kind, key expressions) of every container that can outlive one function in the anchored files:
    dict / list / set attributes created in __init__ / __post_init__ or as dataclass field(default_factory=…), module-level
    empty containers, and functions under a caching decorator. Key expressions: the subscripts such a dict is stored under."""
    out = []
    for rel in CACHE_FILES:
        tree = ast.parse(open(os.path.join(repo, rel)).read())

        def kind_of(v):
            if isinstance(v, ast.Dict) and not v.keys:
                return "dict"
            if isinstance(v, ast.List) and not v.elts:
                return "list"
            if isinstance(v, ast.Call):
                f = v.func
                name = f.id if isinstance(f, ast.Name) else (f.attr if isinstance(f, ast.Attribute) else "")
                if name in ("dict", "set", "list", "defaultdict", "OrderedDict", "WeakKeyDictionary", "Counter") and not v.args:
                    return "set" if name == "set" else ("list" if name == "list" else "dict")
                if name == "defaultdict":
                    return "dict"
                if name == "field":
                    for kw in v.keywords:
                        if kw.arg == "default_factory" and isinstance(kw.value, ast.Name) and kw.value.id in ("dict", "set", "list"):
                            return kw.value.id
            return None

        keys = {}
        for n in ast.walk(tree):
            if isinstance(n, ast.Assign):
                for t in n.targets:
                    if isinstance(t, ast.Subscript) and isinstance(t.value, ast.Attribute) and isinstance(t.value.value, ast.Name) \
                            and t.value.value.id == "self":
                        keys.setdefault(t.value.attr, set()).add(ast.unparse(t.slice))
        found = []
        for node in tree.body:
            if isinstance(node, ast.ClassDef):
                for item in node.body:
                    if isinstance(item, ast.AnnAssign) and item.value is not None and isinstance(item.target, ast.Name):
                        k = kind_of(item.value)
                        if k:
                            found.append(("%s.%s" % (node.name, item.target.id), k))
                    if isinstance(item, ast.FunctionDef) and item.name in ("__init__", "__post_init__"):
                        for st in ast.walk(item):
                            if isinstance(st, (ast.Assign, ast.AnnAssign)):
                                tg = st.targets[0] if isinstance(st, ast.Assign) else st.target
                                if isinstance(tg, ast.Attribute) and isinstance(tg.value, ast.Name) and tg.value.id == "self" \
                                        and st.value is not None:
                                    k = kind_of(st.value)
                                    if k:
                                        found.append(("%s.%s" % (node.name, tg.attr), k))
            if isinstance(node, (ast.Assign, ast.AnnAssign)):
                tg = node.targets[0] if isinstance(node, ast.Assign) else node.target
                if isinstance(tg, ast.Name) and node.value is not None and kind_of(node.value):
                    found.append(("<module>.%s" % tg.id, kind_of(node.value)))
        for n in ast.walk(tree):
            if isinstance(n, (ast.FunctionDef, ast.AsyncFunctionDef)):
                for d in n.decorator_list:
                    f = d.func if isinstance(d, ast.Call) else d
                    name = f.id if isinstance(f, ast.Name) else (f.attr if isinstance(f, ast.Attribute) else "")
                    if name in _CACHE_DECOS:
                        found.append((n.name, "decorator:" + name))
        for owner, k in sorted(set(found)):
            attr = owner.split(".")[-1]
            out.append((rel, owner, k, "|".join(sorted(keys.get(attr, ()))) if k == "dict" else ""))
    return out


def scan_return_branches(repo):
    """Where the two signature routes assign the return type: (function, path of branch conditions, what is assigned).
    from_signature (arg_spec.py): every `returns = …` under `if returns is not None: … else: …`;
    compute_value_of_function (functions.py): every `result = …`."""
    rows = []

    def walk(stmts, path, var, fn):
        for st in stmts:
            if isinstance(st, ast.If):
                t = ast.unparse(st.test)
                walk(st.body, path + [t], var, fn)
                walk(st.orelse, path + ["not (%s)" % t], var, fn)
            elif isinstance(st, (ast.For, ast.While, ast.With, ast.Try)):
                walk(getattr(st, "body", []), path + [type(st).__name__], var, fn)
            elif isinstance(st, ast.Assign) and any(isinstance(t, ast.Name) and t.id == var for t in st.targets):
                v = st.value
                what = v.func.id if isinstance(v, ast.Call) and isinstance(v.func, ast.Name) else type(v).__name__
                rows.append((fn, " and ".join("(%s)" % c for c in path), what))

    for rel, cls, fn, var in (("pyanalyze/arg_spec.py", "ArgSpecCache", "from_signature", "returns"),
                              ("pyanalyze/functions.py", None, "compute_value_of_function", "result")):
        tree = ast.parse(open(os.path.join(repo, rel)).read())
        body = tree.body
        if cls:
            body = [n for n in tree.body if isinstance(n, ast.ClassDef) and n.name == cls][0].body
        f = [n for n in body if isinstance(n, ast.FunctionDef) and n.name == fn][0]
        walk(f.body, [], var, fn)
    return rows


ATTR_SCOPES = {
    # file -> the classes / functions whose attribute-resolution primitives lie on an annotation route (None = the whole file)
    "pyanalyze/annotations.py": None,
    "pyanalyze/arg_spec.py": ["AnnotationsContext"],
    "pyanalyze/name_check_visitor.py": ["NameCheckVisitor.resolve_name", "NameCheckVisitor.visit_Attribute",
                                        "NameCheckVisitor.composite_from_attribute", "NameCheckVisitor._get_attribute",
                                        "NameCheckVisitor.get_attribute", "NameCheckVisitor._get_attribute_no_mvv",
                                        "NameCheckVisitor.value_of_annotation", "NameCheckVisitor._visit_annotation"],
}


def scan_attr_primitives(repo):
    """(file, enclosing function, primitive, number of uses) for the attribute-resolution primitives on annotation routes:
    getattr(, getattr_static(, hasattr(, a `.__dict__[…]` subscript, and calls of *get_attribute*."""
    rows = []
    for rel, scopes in ATTR_SCOPES.items():
        tree = ast.parse(open(os.path.join(repo, rel)).read())
        counts = {}

        def visit(node, qual):
            for ch in ast.iter_child_nodes(node):
                q = qual
                if isinstance(ch, (ast.FunctionDef, ast.AsyncFunctionDef, ast.ClassDef)):
                    q = (qual + "." if qual else "") + ch.name
                prim = None
                if isinstance(ch, ast.Call):
                    f = ch.func
                    name = f.id if isinstance(f, ast.Name) else (f.attr if isinstance(f, ast.Attribute) else "")
                    if name in ("getattr", "getattr_static", "hasattr", "safe_getattr", "hasattr_static"):
                        prim = name
                    elif "get_attribute" in name:
                        prim = name
                elif isinstance(ch, ast.Subscript) and isinstance(ch.value, ast.Attribute) and ch.value.attr == "__dict__":
                    prim = "__dict__[]"
                if prim and (scopes is None or any(qual == sc or qual.startswith(sc + ".") for sc in scopes)):
                    counts[(qual or "<module>", prim)] = counts.get((qual or "<module>", prim), 0) + 1
                visit(ch, q)

        visit(tree, "")
        for (qual, prim), n in sorted(counts.items()):
            rows.append((rel, qual, prim, str(n)))
    return rows


def scan_flag_calls(repo):
    """Every call of _eval_forward_ref / _type_from_runtime / type_from_runtime / _type_from_ast / _type_from_value in
    annotations.py and arg_spec.py: (file, enclosing function, callee, keyword arguments passed, whether the enclosing
    function itself has an allow_unpack parameter)."""
    rows = []
    callees = ("_eval_forward_ref", "_type_from_runtime", "type_from_runtime", "_type_from_ast", "_type_from_value")
    for rel in ("pyanalyze/annotations.py", "pyanalyze/arg_spec.py"):
        tree = ast.parse(open(os.path.join(repo, rel)).read())

        def visit(node, qual, has_flag):
            for ch in ast.iter_child_nodes(node):
                q, hf = qual, has_flag
                if isinstance(ch, (ast.FunctionDef, ast.AsyncFunctionDef)):
                    q = (qual + "." if qual else "") + ch.name
                    hf = any(a.arg == "allow_unpack" for a in ch.args.args + ch.args.kwonlyargs)
                elif isinstance(ch, ast.ClassDef):
                    q = (qual + "." if qual else "") + ch.name
                if isinstance(ch, ast.Call):
                    f = ch.func
                    name = f.id if isinstance(f, ast.Name) else (f.attr if isinstance(f, ast.Attribute) else "")
                    if name in callees:
                        kws = ",".join(sorted("%s=%s" % (k.arg, ast.unparse(k.value)) for k in ch.keywords
                                              if k.arg in ("allow_unpack", "is_typeddict")))
                        rows.append((rel, qual or "<module>", name, kws, "flag" if has_flag else "-"))
                visit(ch, q, hf)

        visit(tree, "", False)
    out = {}
    for r in rows:
        out[r] = out.get(r, 0) + 1
    return [r + (str(n),) for r, n in sorted(out.items())]


def translate(ctx):
    """Regenerate Generated/ArgSpecCaches.lean from the tree under check (obligations argspec_caches_registered,
    return_branches_registered)."""
    repo = os.environ.get("VERIF_REPO", "/repo")
    rows = scan_caches(repo)
    branches = scan_return_branches(repo)
    prims = scan_attr_primitives(repo)
    flags = scan_flag_calls(repo)
    q = lambda x: '"' + x.replace("\\", "\\\\").replace('"', '\\"') + '"'
    body = ",\n  ".join("(%s, %s, %s, %s)" % tuple(q(x) for x in r) for r in rows)
    text = ("/-! GENERATED by harness/props/c13.py (translate) from the live tree on every run. Do not edit.\n"
            "Every container of pyanalyze/arg_spec.py, annotations.py, functions.py that can outlive one function: (file, owner.name, kind,\n"
            "key expressions it is stored under). -/\nnamespace Pya.C13\n\n"
            "def argspecCaches : List (String × String × String × String) := [\n  %s]\n\n"
            "/-- where `from_signature` / `compute_value_of_function` assign the return type: (function, branch conditions, value) -/\n"
            "def returnBranches : List (String × String × String) := [\n  %s]\n\n"
            "/-- the attribute-resolution primitives used on annotation routes: (file, enclosing function, primitive, uses) -/\n"
            "def attrPrimitives : List (String × String × String × String) := [\n  %s]\n\n"
            "/-- every call of the annotation evaluators: (file, enclosing function, callee, allow_unpack / is_typeddict keywords passed,\n"
            "whether the enclosing function has an allow_unpack parameter, number of such calls) -/\n"
            "def flagCalls : List (String × String × String × String × String × String) := [\n  %s]\n\nend Pya.C13\n"
            % (body, ",\n  ".join("(%s, %s, %s)" % tuple(q(x) for x in r) for r in branches),
               ",\n  ".join("(%s, %s, %s, %s)" % tuple(q(x) for x in r) for r in prims),
               ",\n  ".join("(%s, %s, %s, %s, %s, %s)" % tuple(q(x) for x in r) for r in flags)))
    lean.write_if_changed(os.path.join(lean.LEAN, "PyaModel", "Generated", "ArgSpecCaches.lean"), text)
    ctx.extra["argspec_caches"] = rows
    ctx.extra["return_branches"] = branches
    ctx.extra["attr_primitives"] = prims


# ------------------------------------------------------------------ universe
C = G.C
INT, BOOL, FLOAT, STR, BYTES, TUPLE, LIST, SET, FSET, DICT, TYPE = G.INT, G.BOOL, G.FLOAT, G.STR, G.BYTES, G.TUPLE, G.LIST, G.SET, G.FSET, G.DICT, G.TYPE
OBJECT = 0
A_, B_, COLOR, IE_ = V.CID[U.A], V.CID[U.B], V.CID[U.Color], V.CID[U.IE]

NEW_NAME = {
    OBJECT: "object", INT: "int", BOOL: "bool", FLOAT: "float", STR: "str", BYTES: "bytes", TUPLE: "tuple",
    LIST: "list", SET: "set", FSET: "frozenset", DICT: "dict", TYPE: "type",
    G.SEQUENCE: "cabc.Sequence", G.ITERABLE: "cabc.Iterable", G.COLLECTION: "cabc.Collection", G.CONTAINER: "cabc.Container",
    G.MAPPING: "cabc.Mapping", G.MUTSEQ: "cabc.MutableSequence", G.ABSSET: "cabc.Set",
    A_: "A", B_: "B", V.CID[U.Cc]: "Cc", V.CID[U.D]: "D", COLOR: "Color", IE_: "IE",
}
OLD_NAME = {
    LIST: "List", SET: "Set", FSET: "FrozenSet", DICT: "Dict", TUPLE: "Tuple", TYPE: "Type",
    G.SEQUENCE: "Sequence", G.ITERABLE: "Iterable", G.COLLECTION: "Collection", G.CONTAINER: "Container",
    G.MAPPING: "Mapping", G.MUTSEQ: "MutableSequence", G.ABSSET: "AbstractSet",
}
ARITY = {LIST: 1, SET: 1, FSET: 1, DICT: 2, G.SEQUENCE: 1, G.ITERABLE: 1, G.COLLECTION: 1, G.CONTAINER: 1, G.MAPPING: 2,
         G.MUTSEQ: 1, G.ABSSET: 1}
CORO = 900                       # Lean `coroCls`: collections.abc.Coroutine, registered for this process only
V.CID[cabc.Coroutine] = CORO
NEW_NAME[CORO] = "cabc.Coroutine"
OLD_NAME[CORO] = "Coroutine"
ARITY[CORO] = 3
NT_NAME = {0: "NT0", 1: "NT1", 2: "NT2"}
NT_CLS = {0: INT, 1: STR, 2: A_}

# Names used in annotations through a lookup (Lean: AnnExpr.name n). kind: a = module-level name shadowing a builtin,
# b = builtin only, c = module only, d = defined nowhere, e = bound by the module AFTER the defs, r = bound before the
# defs and rebound after them (known finding reboundName; generated by default, C13_NO_REBOUND=1 leaves it out).
# targets are NameTarget terms: ("cls", cid) ("nt", n, cid) ("bare", cid) ("anyT",) ("opq", k)
NAMES = [
    dict(id=0, text="complex", kind="a", early=("cls", B_), late=("cls", B_), builtin=("cls", G.COMPLEX)),
    dict(id=1, text="TimeoutError", kind="a", early=("cls", V.CID[U.Cc]), late=("cls", V.CID[U.Cc]), builtin=("opq", 0)),
    dict(id=2, text="set", kind="b", early=None, late=None, builtin=("cls", SET)),
    dict(id=3, text="frozenset", kind="b", early=None, late=None, builtin=("cls", FSET)),
    dict(id=4, text="MyInt", kind="c", early=("cls", INT), late=("cls", INT), builtin=None),
    dict(id=5, text="MyList", kind="c", early=("bare", LIST), late=("bare", LIST), builtin=None),
    dict(id=6, text="Undefined1", kind="d", early=None, late=None, builtin=None),
    dict(id=7, text="Later", kind="e", early=None, late=("cls", V.CID[U.D]), builtin=None),
    dict(id=8, text="Reb", kind="r", early=("cls", A_), late=("cls", B_), builtin=None),
    dict(id=9, text="Warning", kind="a", early=("cls", IE_), late=("cls", IE_), builtin=("opq", 1)),
]
# ---- dotted names: a generated library package whose attributes are provided by every mechanism Python has
import atexit, shutil, tempfile
_LIBDIR = tempfile.mkdtemp(prefix="verif-C13-lib-", dir=os.environ.get("VERIF_SCRATCH", "/var/tmp"))
atexit.register(shutil.rmtree, _LIBDIR, True)
os.makedirs(os.path.join(_LIBDIR, "c13lib"))
with open(os.path.join(_LIBDIR, "c13lib", "__init__.py"), "w") as _f:
    _f.write(
        "from harness.universe import A, B, Cc, D, Color, IE\n"
        "Static = A\n"                                  # a module __dict__ entry
        "from . import sub\n"                           # a submodule
        "class _Meta(type):\n    def __getattr__(cls, name):\n        if name == 'Dyn':\n            return D\n"
        "        raise AttributeError(name)\n"          # a metaclass __getattr__
        "class Box(metaclass=_Meta):\n    Inner = A\n"  # a class __dict__ entry
        "class Derived(Box):\n    pass\n"              # inherited through the MRO
        "class _Holder:\n    def __init__(self):\n        self.Field = Color\n"   # an instance attribute
        "    @property\n    def Prop(self):\n        return IE\n"                 # a property on the object's type
        "inst = _Holder()\n"
        "def __getattr__(name):\n    if name == 'Lazy':\n        return B\n    raise AttributeError(name)\n"   # PEP 562
    )
with open(os.path.join(_LIBDIR, "c13lib", "sub.py"), "w") as _f:
    _f.write("from harness.universe import Cc\nInner = Cc\n")
sys.path.insert(0, _LIBDIR)
ATTR_TEXT = {0: "Static", 1: "sub", 2: "Lazy", 3: "Box", 4: "Derived", 5: "inst", 6: "Inner", 7: "Dyn", 8: "Prop", 9: "Field",
             10: "Missing"}
# (object, attribute, mechanism, target); objects: 0 = the package, 1 = its submodule, 2 = Box, 3 = Derived, 4 = inst
ATTRS = [
    (0, 0, "module __dict__", ("cls", A_)), (0, 1, "submodule", ("obj", 1)), (0, 2, "module __getattr__", ("cls", B_)),
    (0, 3, "module __dict__", ("obj", 2)), (0, 4, "module __dict__", ("obj", 3)), (0, 5, "module __dict__", ("obj", 4)),
    (1, 6, "module __dict__", ("cls", V.CID[U.Cc])),
    (2, 6, "class __dict__", ("cls", A_)), (2, 7, "metaclass __getattr__", ("cls", V.CID[U.D])),
    (3, 6, "MRO", ("cls", A_)), (3, 7, "metaclass __getattr__", ("cls", V.CID[U.D])),
    (4, 8, "property", ("cls", IE_)), (4, 9, "instance attribute", ("cls", COLOR)),
]
LIB_NAMES = [dict(id=14, text="L", obj=0), dict(id=15, text="alias", obj=0), dict(id=16, text="Box", obj=2),
             dict(id=17, text="LS", obj=1)]
for _n in LIB_NAMES:
    NAMES.append(dict(id=_n["id"], text=_n["text"], kind="m", early=("obj", _n["obj"]), late=("obj", _n["obj"]), builtin=None))
# every chain that exists (root name, attributes) and some that do not
CHAINS = [(14, [0]), (14, [2]), (14, [1, 6]), (14, [3, 6]), (14, [3, 7]), (14, [4, 6]), (14, [4, 7]), (14, [5, 8]), (14, [5, 9]),
          (15, [0]), (15, [1, 6]), (15, [2]), (16, [6]), (16, [7]), (17, [6])]
MISSING_CHAINS = [(14, [10]), (14, [1, 10]), (16, [10]), (15, [3, 10])]
NAME_TEXT = {n["id"]: n["text"] for n in NAMES}
REBOUND = os.environ.get("C13_NO_REBOUND") != "1"
EARLY_NAMES = [n["id"] for n in NAMES if (n["early"] or n["builtin"]) and n["kind"] not in ("r", "m")]   # usable unquoted
QUOTED_NAMES = [n["id"] for n in NAMES if n["kind"] not in ("r", "d", "m")]                          # usable inside strings
UNDEF_NAME, LATER_NAME, REB_NAME = 6, 7, 8

HEADER = (
    "from typing import *\nimport typing\nimport collections.abc as cabc\n"
    "from harness.universe import A, B, Cc, D, Color, IE, Fl, NT0, NT1, NT2\n"
    "complex = B\nTimeoutError = Cc\nWarning = IE\nMyInt = int\nMyList = List\nReb = A\nARGB = B()\n"
    "import c13lib as L\nfrom c13lib import Box\nfrom c13lib import sub as LS\nalias = L\n"
)
FOOTER = "Later = D\nReb = B\n"


def _tgt(t):
    return "anyT" if t == ("anyT",) else "(%s)" % " ".join(str(x) for x in t)


def _env_sexp():
    def layer(key):
        return " ".join("(%d %s)" % (n["id"], _tgt(n[key])) for n in NAMES if n[key] is not None)
    return "(env (early %s) (late %s) (builtins %s) %s)" % (layer("early"), layer("late"), layer("builtin"), _ATTRS_SEXP)


_ATTRS_SEXP = "(attrs %s)" % " ".join("(%d %d %s)" % (k, a, _tgt(t)) for k, a, _, t in ATTRS)
ENV_SEXP = _env_sexp()


def make_ns(late):
    ns = {}
    exec(HEADER + (FOOTER if late else ""), ns)
    return ns


NS_EARLY = make_ns(False)     # what a def statement sees when it is executed
NS = make_ns(True)            # f.__globals__ / the module scope once the module has been executed
NS_VALID = dict(NS, Undefined1=int)   # only to ask typing whether the *shape* of an expression is acceptable

LIT_OBJS = [("int", 1), ("int", 0), ("int", -1), ("bool", 1), ("str", "a"), ("str", "ab"), ("bytes", "a"), ("none",),
            ("inst", COLOR, 0), ("inst", IE_, 1)]


def render_obj(o):
    k = o[0]
    if k == "inst":
        c = V.CLASSES[o[1]]
        return "%s.%s" % (c.__name__, list(c)[o[2]].name)
    return repr(V.obj_to_py(o))


TEXT2TERM = {}


def render(t, top=True):
    """Source text of an annotation term."""
    k = t[0]
    if k == "cls":
        s = NEW_NAME[t[1]]
    elif k == "none":
        s = "None"
    elif k == "anyT":
        s = "Any"
    elif k == "nt":
        s = NT_NAME[t[1]]
    elif k == "bare":
        s = OLD_NAME[t[1]]
    elif k == "gen":
        s = "%s[%s]" % ((OLD_NAME if t[1] else NEW_NAME)[t[2]], ", ".join(render(x) for x in t[3]))
    elif k == "tup":
        s = "%s[%s]" % ("Tuple" if t[1] else "tuple", ", ".join(render(x) for x in t[2]))
    elif k == "tupE":
        s = "%s[()]" % ("Tuple" if t[1] else "tuple")
    elif k == "tupV":
        s = "%s[%s, ...]" % ("Tuple" if t[1] else "tuple", render(t[2]))
    elif k == "unpack":
        s = "Unpack[%s]" % render(t[1])
    elif k == "star":
        s = "*%s" % render(t[1])
    elif k == "lit":
        s = "Literal[%s]" % ", ".join(render_obj(o) for o in t[1])
    elif k == "typ":
        s = "%s[%s]" % ("Type" if t[1] else "type", render(t[2]))
    elif k == "ann":
        s = "Annotated[%s%s]" % (render(t[1]), ", 'm'" * t[2])
    elif k == "final":
        s = "Final[%s]" % render(t[1])
    elif k == "classvar":
        s = "ClassVar[%s]" % render(t[1])
    elif k == "opt":
        s = "Optional[%s]" % render(t[1])
    elif k == "union":
        s = "Union[%s]" % ", ".join(render(x) for x in t[1])
    elif k == "bor":
        def side(x):
            r = render(x)
            return "(%s)" % r if x[0] == "bor" else r
        s = "%s | %s" % (side(t[1]), side(t[2]))
    elif k == "str":
        inner = render(t[1])
        TEXT2TERM[inner] = t[1]
        s = repr(inner)
    elif k == "name":
        s = NAME_TEXT[t[1]]
    elif k == "dot":
        s = ".".join([NAME_TEXT[t[1]]] + [ATTR_TEXT[a] for a in t[2]])
    else:
        raise ValueError(t)
    return s


def sexp(t):
    k = t[0]
    if k in ("none", "anyT"):
        return k
    if k in ("cls", "bare", "name"):
        return "(%s %d)" % (k, t[1])
    if k == "nt":
        return "(nt %d %d)" % (t[1], NT_CLS[t[1]])
    if k == "dot":
        return "(dot %d %s)" % (t[1], " ".join(str(a) for a in t[2]))
    o = lambda b: "o" if b else "n"
    if k == "gen":
        return "(gen %s %d %s)" % (o(t[1]), t[2], " ".join(sexp(x) for x in t[3]))
    if k == "tup":
        return "(tup %s %s)" % (o(t[1]), " ".join(sexp(x) for x in t[2]))
    if k == "tupE":
        return "(tupE %s)" % o(t[1])
    if k == "tupV":
        return "(tupV %s %s)" % (o(t[1]), sexp(t[2]))
    if k in ("unpack", "star", "final", "classvar", "opt", "str"):
        return "(%s %s)" % (k, sexp(t[1]))
    if k == "lit":
        return "(lit %s)" % " ".join(V.obj_sexp(x) for x in t[1])
    if k == "typ":
        return "(typ %s %s)" % (o(t[1]), sexp(t[2]))
    if k == "ann":
        return "(ann %s %d)" % (sexp(t[1]), t[2])
    if k == "union":
        return "(union %s)" % " ".join(sexp(x) for x in t[1])
    if k == "bor":
        return "(bor %s %s)" % (sexp(t[1]), sexp(t[2]))
    raise ValueError(t)


def tt(x):
    """JSON lists back to the tuple form of terms."""
    if not isinstance(x, (list, tuple)):
        return x
    h = x[0]
    if h in ("cls", "bare", "nt", "name"):
        return tuple(x)
    if h in ("none", "anyT"):
        return (h,)
    if h == "dot":
        return ("dot", x[1], list(x[2]))
    if h == "gen":
        return ("gen", x[1], x[2], [tt(y) for y in x[3]])
    if h == "tup":
        return ("tup", x[1], [tt(y) for y in x[2]])
    if h == "tupE":
        return ("tupE", x[1])
    if h in ("tupV", "typ"):
        return (h, x[1], tt(x[2]))
    if h in ("unpack", "star", "final", "classvar", "opt", "str"):
        return (h, tt(x[1]))
    if h == "lit":
        return ("lit", [tuple(o) for o in x[1]])
    if h == "ann":
        return ("ann", tt(x[1]), x[2])
    if h == "union":
        return ("union", [tt(y) for y in x[1]])
    if h == "bor":
        return ("bor", tt(x[1]), tt(x[2]))
    raise ValueError(x)


# ------------------------------------------------------------------ the object typing built -> normal-form term (spec validation)
class NoTerm(Exception):
    pass


_BARE = {getattr(typing, n): c for c, n in OLD_NAME.items()}


def obj_to_term(o):
    if o is None or o is type(None):
        return ("none",)
    if o is typing.Any:
        return ("anyT",)
    if isinstance(o, str):
        if o in TEXT2TERM:
            return ("str", TEXT2TERM[o])
        raise NoTerm(o)
    if isinstance(o, typing.ForwardRef):
        return obj_to_term(o.__forward_arg__)
    for i, nt in enumerate(V.NEWTYPES):
        if o is nt:
            return ("nt", i)
    if isinstance(o, type) and not isinstance(o, types.GenericAlias):
        if o in V.CID:
            return ("cls", V.CID[o])
        raise NoTerm(o)
    for alias, c in _BARE.items():
        if o is alias:
            return ("bare", c)
    origin, args = typing.get_origin(o), typing.get_args(o)
    if origin is None:
        raise NoTerm(o)
    old = isinstance(o, typing._GenericAlias)
    if origin is typing.Union or origin is types.UnionType:
        return ("union", [obj_to_term(a) for a in args])
    if origin is typing.Literal:
        return ("lit", [V.py_to_obj(a) for a in args])
    if origin is typing.Annotated:
        return ("ann", obj_to_term(args[0]), len(args) - 1)
    if origin is typing.Final:
        return ("final", obj_to_term(args[0]))
    if origin is typing.ClassVar:
        return ("classvar", obj_to_term(args[0]))
    if origin is typing.Unpack:
        return ("unpack", obj_to_term(args[0]))
    if origin is tuple:
        if not args:
            body = ("tupE", old)
        elif len(args) == 2 and args[1] is Ellipsis:
            body = ("tupV", old, obj_to_term(args[0]))
        else:
            body = ("tup", old, [obj_to_term(a) for a in args])
        if isinstance(o, types.GenericAlias) and getattr(o, "__unpacked__", False):
            return ("star", body)
        return body
    if origin is type:
        return ("typ", old, obj_to_term(args[0]))
    if origin in V.CID:
        return ("gen", old, V.CID[origin], [obj_to_term(a) for a in args])
    raise NoTerm(o)


# ------------------------------------------------------------------ generators
ATOM_CLS = [INT, STR, BOOL, FLOAT, BYTES, OBJECT, LIST, TUPLE, TYPE, DICT, A_, B_, COLOR]
ATOMS = [("cls", c) for c in ATOM_CLS] + [("none",), ("anyT",), ("nt", 0), ("nt", 2)] + \
        [("bare", c) for c in (LIST, TUPLE, TYPE, DICT, G.SEQUENCE)] + [("name", i) for i in EARLY_NAMES] + \
        ([("name", REB_NAME)] if REBOUND else [])
CORE_ATOMS = [("cls", INT), ("cls", STR), ("none",), ("anyT",), ("cls", A_), ("nt", 0), ("cls", LIST), ("bare", TUPLE),
              ("name", 0), ("name", 1)]
GEN1 = [LIST, SET, FSET, G.SEQUENCE, G.ITERABLE]
GEN2 = [DICT, G.MAPPING]
LITS = [[("int", 1)], [("int", 1), ("str", "a")], [("int", 1), ("int", 1)], [("bool", 1), ("int", 1)], [("none",)],
        [("inst", COLOR, 0)], [("int", -1), ("bytes", "a")], [("str", "a"), ("str", "ab"), ("str", "a")]]


def unary(x, rich=True):
    """Every one-argument construct applied to x."""
    out = [("opt", x), ("typ", False, x), ("typ", True, x), ("tupV", False, x), ("tupV", True, x), ("ann", x, 1), ("str", x),
           ("final", x), ("classvar", x), ("tup", False, [x]), ("tup", True, [x]), ("union", [x])]
    for c in (GEN1 if rich else GEN1[:2]):
        out += [("gen", False, c, [x]), ("gen", True, c, [x])]
    return out


def binary(x, y, rich=True):
    out = [("union", [x, y]), ("bor", x, y), ("tup", False, [x, y]), ("tup", True, [x, y])]
    for c in (GEN2 if rich else GEN2[:1]):
        out += [("gen", False, c, [x, y]), ("gen", True, c, [x, y])]
    return out


def tuple_specials():
    out = [("tupE", False), ("tupE", True)]
    inner = [("tupV", False, ("cls", STR)), ("tup", False, [("cls", INT), ("cls", STR)]), ("tupE", False), ("tupV", True, ("cls", STR)),
             ("cls", TUPLE), ("gen", False, LIST, [("cls", INT)])]
    for old in (False, True):
        for i in inner:
            for wrap in ("unpack", "star"):
                m = (wrap, i)
                out += [("tup", old, [m]), ("tup", old, [("cls", INT), m]), ("tup", old, [("cls", INT), m, ("cls", BYTES)]),
                        ("tup", old, [m, ("cls", INT)])]
    return out


def name_terms():
    """Every kind of name (shadowing a builtin, builtin only, module only, undefined, bound after the def) in every
    position a lookup can happen: whole quoted annotation, inside a quoted expression, a string nested in a generic."""
    out = []
    ids = [n["id"] for n in NAMES if (n["kind"] != "r" or REBOUND) and n["kind"] != "m"]
    for i in ids:
        N = ("name", i)
        out += [("str", N), ("str", ("gen", True, LIST, [N])), ("str", ("opt", N)), ("str", ("bor", N, ("none",))),
                ("str", ("gen", False, DICT, [("cls", STR), ("str", N)])), ("gen", False, LIST, [("str", N)]),
                ("tup", False, [("str", N), ("cls", INT)]), ("typ", False, ("str", N)), ("str", ("tupV", False, N)),
                ("str", ("union", [N, ("cls", INT), ("name", 2)]))]
        if i != UNDEF_NAME:   # a ForwardRef suppresses the undefined-name error (annotations.py:507): defined names only
            out += [("gen", True, LIST, [("str", N)]), ("opt", ("str", N)), ("union", [("str", N), ("cls", INT)]),
                    ("ann", ("str", N), 1), ("gen", True, DICT, [("str", N), ("str", ("name", LATER_NAME))])]
        if i == REB_NAME:
            out += [N, ("gen", True, LIST, [N])]
    return out


def dotted_terms():
    """Every attribute chain of the generated library (each hop by another mechanism) in every position a lookup happens;
    chains with a missing attribute only where every route must report them (inside strings)."""
    out = []
    for n, p in CHAINS:
        N = ("dot", n, p)
        out += [N, ("str", N), ("gen", True, LIST, [N]), ("str", ("gen", True, LIST, [N])), ("opt", N), ("str", ("bor", N, ("none",))),
                ("gen", False, LIST, [("str", N)]), ("gen", True, DICT, [("cls", STR), ("str", N)]), ("typ", False, N),
                ("tup", False, [N, ("str", N)]), ("union", [N, ("cls", INT)]), ("ann", N, 1)]
    for n, p in MISSING_CHAINS:
        N = ("dot", n, p)
        out += [("str", N), ("str", ("gen", True, LIST, [N])), ("gen", False, LIST, [("str", N)]), ("str", ("opt", N))]
    return out


def with_undefined(rng, t):
    """A whole-quoted copy of t in which one atom has become an undefined name."""
    done = [False]

    def go(x):
        k = x[0]
        if done[0]:
            return x
        if k in ("cls", "name", "nt", "bare", "anyT", "none", "dot") and rng.random() < 0.5:
            done[0] = True
            return ("name", UNDEF_NAME)
        if k == "gen":
            return ("gen", x[1], x[2], [go(y) for y in x[3]])
        if k in ("tup", "union"):
            return (k,) + ((x[1], [go(y) for y in x[2]]) if k == "tup" else ([go(y) for y in x[1]],))
        if k in ("tupV", "typ"):
            return (k, x[1], go(x[2]))
        if k in ("opt", "final", "classvar", "str", "unpack", "star"):
            return (k, go(x[1]))
        if k == "ann":
            return ("ann", go(x[1]), x[2])
        if k == "bor":
            return ("bor", go(x[1]), go(x[2]))
        return x

    r = go(t)
    if not done[0]:
        r = ("union", [r, ("name", UNDEF_NAME)])
    return ("str", r)


def exhaustive_terms():
    out = list(ATOMS) + [("lit", l) for l in LITS] + tuple_specials() + name_terms() + dotted_terms()
    for a in ATOMS:
        out += unary(a)
    for a in CORE_ATOMS:
        for b in CORE_ATOMS:
            out += binary(a, b, rich=False)
    return out


def depth2_terms(rng, n):
    base = exhaustive_terms()
    # (an undefined name inside a string that typing turns into a ForwardRef is reported by no route: the error is suppressed,
    #  annotations.py:507; undefined names are only generated where every route must report them)
    base = [t for t in base if t[0] not in ("final", "classvar") and not _mentions(t, UNDEF_NAME)]
    out = []
    for _ in range(n):
        r = rng.random()
        x = rng.choice(base)
        if r < 0.55:
            out.append(rng.choice(unary(x)))
        else:
            out.append(rng.choice(binary(x, rng.choice(base))))
    return out


def gen_term(rng, depth, mem=False, quoted=False):
    """Seeded random term; mostly inside `Supported`. quoted: the term stands inside a string, where names bound after the
    def may be used."""
    r = rng.random()
    if quoted and r < 0.06:
        return ("name", LATER_NAME)
    if mem and r < 0.18 and depth > 0:
        inner = rng.choice([("tupV", False, gen_term(rng, depth - 1)), ("tup", False, [gen_term(rng, depth - 1) for _ in range(rng.randint(1, 2))]),
                            ("tupE", False), ("tupV", True, gen_term(rng, 0))])
        return (rng.choice(["unpack", "unpack", "star"]), inner)
    if depth <= 0 or r < 0.3:
        if rng.random() < 0.15:
            return ("lit", [rng.choice(LIT_OBJS) for _ in range(rng.randint(1, 3))])
        if rng.random() < 0.1:
            n_, p_ = rng.choice(CHAINS)
            return ("dot", n_, p_)
        return rng.choice(ATOMS)
    r = rng.random()
    sub = lambda: gen_term(rng, depth - 1, quoted=quoted)
    if r < 0.12:
        return ("opt", sub())
    if r < 0.26:
        return ("union", [sub() for _ in range(rng.randint(1, 3))])
    if r < 0.38:
        return ("bor", sub(), sub())
    if r < 0.52:
        c = rng.choice(GEN1 + [G.COLLECTION, G.CONTAINER, G.MUTSEQ, G.ABSSET])
        return ("gen", rng.random() < 0.5, c, [sub()])
    if r < 0.6:
        return ("gen", rng.random() < 0.5, rng.choice(GEN2), [sub(), sub()])
    if r < 0.72:
        return ("tup", rng.random() < 0.4, [gen_term(rng, depth - 1, mem=True, quoted=quoted) for _ in range(rng.randint(1, 3))])
    if r < 0.77:
        return ("tupV", rng.random() < 0.4, sub())
    if r < 0.79:
        return ("tupE", rng.random() < 0.4)
    if r < 0.85:
        return ("typ", rng.random() < 0.4, rng.choice([rng.choice(ATOMS), ("bor", rng.choice(CORE_ATOMS), rng.choice(CORE_ATOMS)), ("opt", rng.choice(CORE_ATOMS))]))
    if r < 0.91:
        return ("ann", sub(), rng.choice([1, 1, 2]))
    if r < 0.97:
        return ("str", gen_term(rng, depth - 1, quoted=True))
    return (rng.choice(["final", "classvar"]), sub())


# forms outside the Lean term language: compared route against route on the implementation only
EXTRA = [
    "Callable[[int], str]", "Callable[..., int]", "Callable[[], None]", "Callable[[int, str], List[int]]", "cabc.Callable[[int], str]",
    "Optional[Callable[[int], str]]", "List[Callable[..., Any]]", "TD", "List[TD]", "Proto", "Optional[Proto]", "TV", "List[TV]",
    "Dict[str, TV]", "Tuple[TV, ...]", "Type[TV]", "Callable[[TV], TV]", "TVB", "Sequence[TVB]", "Callable[P, int]", "LiteralString", "NoReturn",
    "Never", "Iterator[int]", "Generator[int, None, str]", "Awaitable[int]", "Deque[int]", "DefaultDict[str, int]", "Counter[str]",
    "Pattern[str]", "ContextManager[int]", "TypeGuard[int]", "NamedTuple", "Hashable", "Sized", "Self",
    "Annotated[int, 'note']", "Annotated[int, 5]",
]
# Annotated[...] whose metadata is a constructor call (regression: before 1007ddd the AST/string route turned the call into
# TypedValue(cls), which _make_annotated dropped, while the runtime object kept the annotated_types constraint)
EXTRA_META = ["Annotated[int, Gt(5)]", "Annotated[int, Ge(1), Lt(9)]", "Annotated[str, MaxLen(3)]", "List[Annotated[int, Gt(0)]]",
              "Optional[Annotated[int, Gt(5)]]"]
EXTRA_HEADER = (
    "from typing import TypedDict as _TDict, Protocol as _Proto, TypeVar as _TV, ParamSpec as _PS\n"
    "class TD(_TDict):\n    a: int\n    b: str\n"
    "class Proto(_Proto):\n    def meth(self) -> int: ...\n"
    "TV = _TV('TV')\nTVB = _TV('TVB', bound=int)\nP = _PS('P')\n"
    "from annotated_types import Gt, Ge, Lt, MaxLen\n"
)


# ------------------------------------------------------------------ implementation routes
def dec(v):
    try:
        return V.ty_sexp(V.value_to_ty(v))
    except V.Unencodable:
        return "UNENC"
    except Exception as e:  # noqa
        return "UNENC"


def _rec_ctx(ns):
    from pyanalyze.annotations import _DefaultContext

    class Rec(_DefaultContext):
        def __init__(self):
            super().__init__(None, None, ns)
            self.n = 0

        def show_error(self, message, error_code=None, node=None):
            self.n += 1

    return Rec()


_CHECKER = []


def _globals_ctx(ns):
    """The context ArgSpecCache uses for the string annotations of a function object: names go through
    Context.get_name_from_globals(f.__globals__)."""
    from pyanalyze.arg_spec import AnnotationsContext
    if not _CHECKER:
        _CHECKER.append(pya.make_checker())

    class RecG(AnnotationsContext):
        def show_error(self, message, error_code=None, node=None):
            self.n = getattr(self, "n", 0) + 1

    c = RecG(_CHECKER[0].arg_spec_cache, ns)
    c.n = 0
    return c


def _res(fn, ns, mk=None):
    ctx = (mk or _rec_ctx)(ns)
    try:
        v = fn(ctx)
    except Exception as e:
        return "EXC:%s" % type(e).__name__, None
    return "%s;%d;0" % (dec(v), ctx.n), v


def api_routes(E, ns):
    """(ast, str, rt, object-or-None, values) for the expression text E."""
    from pyanalyze.annotations import type_from_ast, type_from_runtime
    vals = {}
    try:
        node = ast.parse(E, mode="eval").body
    except SyntaxError:
        return None
    r_ast, vals["ast"] = _res(lambda ctx: type_from_ast(node, ctx=ctx), ns)
    r_str, vals["str"] = _res(lambda ctx: type_from_runtime(E, ctx=ctx), ns)
    r_strg, vals["strg"] = _res(lambda ctx: type_from_runtime(E, ctx=ctx), ns, _globals_ctx)
    try:
        for f in typing._cleanups:  # typing caches subscriptions by `==`-keys: an earlier `A | B` would decide the order of `B | A`
            f()
        obj = eval(E, dict(NS_EARLY))     # what the def statement would put into __annotations__
        ok = True
    except Exception as e:
        obj, ok = "EVAL:%s" % type(e).__name__, False
    if ok:
        r_rt, vals["rt"] = _res(lambda ctx: type_from_runtime(obj, ctx=ctx), ns)
    else:
        r_rt = obj
    vals["r_strg"] = r_strg
    return r_ast, r_str, r_rt, (obj if ok else None), ok, vals


def src_routes(Es, header=HEADER):
    """For each expression text: the annotation of parameter x of `def g(x: E)` and of `def g(x: "E")` as the checked
    module's own def statement yields it (nested defs, so that the def-node signature is the one in scope).
    Returns two lists of result strings."""
    from pyanalyze.value import CallableValue
    out = {False: [], True: []}
    B = 400
    for quoted in (False, True):
        for b0 in range(0, len(Es), B):
            batch = Es[b0:b0 + B]
            lines = header.split("\n")[:-1] + ["def outer():"]
            base = len(lines)
            for i, E in enumerate(batch):
                lines.append("    def g%d(x: %s): pass" % (i, repr(E) if quoted else E))
                lines.append("    g%d" % i)
            lines += FOOTER.split("\n")[:-1]
            try:
                fails, tree, _ = pya.check_source("\n".join(lines) + "\n", annotate=True)
            except Exception as e:
                out[quoted] += ["MODEXC:%s" % type(e).__name__] * len(batch)
                continue
            errs = {}
            internal = set()
            for f in fails:
                if f["lineno"] is None or f["lineno"] <= base or f["lineno"] > base + 2 * len(batch):
                    continue
                i = (f["lineno"] - base - 1) // 2
                if f["code"] == "internal_error":
                    internal.add(i)
                elif f["code"] in ("invalid_annotation", "undefined_name"):
                    errs[i] = errs.get(i, 0) + 1
            outer = [n for n in tree.body if isinstance(n, ast.FunctionDef) and n.name == "outer"][0]
            exprs = [n.value for n in outer.body if isinstance(n, ast.Expr)]
            for i in range(len(batch)):
                v = getattr(exprs[i], "inferred_value", None)
                if i in internal:
                    out[quoted].append("EXC:internal_error")
                elif isinstance(v, CallableValue):
                    p = list(v.signature.parameters.values())
                    out[quoted].append("%s;%d;0" % (dec(p[0].annotation), errs.get(i, 0)) if len(p) == 1 and p[0].name == "x" else "BADSIG")
                else:
                    out[quoted].append("NOCALLABLE:%s" % type(v).__name__)
    return out[False], out[True]


# ------------------------------------------------------------------ canonical form for "same type up to representation"
def canon(t):
    """Sort and de-duplicate union members recursively, distribute Annotated over unions, drop a union's wrapper
    when one member is left. Input/outputs are Ty terms (tuples) parsed from s-expressions."""
    k = t[0]
    if k in ("generic", "seq"):
        return (k, t[1], tuple(canon(x) for x in t[2]))
    if k == "many":
        return ("many", canon(t[1]))
    if k == "annotated":
        inner = canon(t[1])
        if inner[0] == "union":
            return canon(("union", tuple(("annotated", x) for x in inner[1])))
        if inner[0] == "annotated":
            return inner
        return ("annotated", inner)
    if k == "union":
        ms = []
        for x in t[1]:
            x = canon(x)
            ms += list(x[1]) if x[0] == "union" else [x]
        ms = sorted(set(ms), key=repr)
        return ms[0] if len(ms) == 1 else ("union", tuple(ms))
    return t


def parse_ty(s):
    """Ty s-expression -> nested tuples (hashable)."""
    toks = s.replace("(", " ( ").replace(")", " ) ").split()
    pos = [0]

    def rd():
        tok = toks[pos[0]]
        pos[0] += 1
        if tok != "(":
            return (tok,) if tok in ("any", "none") else tok
        items = []
        while toks[pos[0]] != ")":
            items.append(rd())
        pos[0] += 1
        head = items[0]
        if head in ("generic", "seq"):
            return (head, items[1], tuple(items[2:]))
        if head == "union":
            return ("union", tuple(items[1:]))
        return tuple(items)

    return rd()


def dedupe_any(t):
    """Any sources are invisible in Ty terms: `Any[error] | Any[explicit]` is two members for pyanalyze, one for the model.
    Drop a union member that contains `any` and repeats an earlier member."""
    k = t[0]
    if k in ("generic", "seq"):
        return (k, t[1], tuple(dedupe_any(x) for x in t[2]))
    if k in ("many", "annotated"):
        return (k, dedupe_any(t[1]))
    if k == "union":
        out = []
        for x in t[1]:
            x = dedupe_any(x)
            if "any" in repr(x) and x in out:
                continue
            out.append(x)
        return out[0] if len(out) == 1 else ("union", tuple(out))
    return t


def cmp_res(iv, mv, errs_exact=True):
    """'eq' | 'order' (same up to union member order / duplicates) | 'diff' for two result strings."""
    if iv == mv:
        return "eq"
    if not (isinstance(iv, str) and isinstance(mv, str) and ";" in iv and ";" in mv):
        return "diff"
    a, b = iv.split(";"), mv.split(";")
    if "UNENC" in a[0] or "UNENC" in b[0]:
        return "diff"
    ea, eb = (a[1], b[1]) if errs_exact else (a[1] != "0", b[1] != "0")
    if ea != eb:
        return "diff"
    ta, tb = dedupe_any(parse_ty(a[0])), dedupe_any(parse_ty(b[0]))
    if ta == tb:
        return "eq"
    return "order" if canon(ta) == canon(tb) else "diff"


def canon_res(r):
    """Result string -> comparable canonical form (type only; error counts are a model-correspondence matter)."""
    if r is None or ";" not in r:
        return r
    ty = r.split(";")[0]
    if ty == "UNENC":
        return "UNENC"      # a value outside the universe differs from every value inside it
    return canon(parse_ty(ty))


# ------------------------------------------------------------------ annotation cases
def model_lines(terms):
    return ["ann 0 %s %s" % (ENV_SEXP, sexp(t)) for t in terms]


def parse_model(line):
    parts = {}
    for tok in ("ast", "strg", "rt", "vis", "visq", "tn", "S", "D", "R", "def", "insp", "isig"):
        key = tok + "="
        i = line.find(key) if line.startswith(key) else line.find(" " + key)
        if i < 0:
            continue
        i = i if line.startswith(key) and i == 0 else i + 1
        j = len(line)
        for tok2 in ("ast", "strg", "rt", "vis", "visq", "tn", "S", "D", "R", "def", "insp", "isig"):
            k2 = line.find(" " + tok2 + "=", i + 1)
            if k2 >= 0:
                j = min(j, k2)
        parts[tok] = line[i + len(key):j]
    return parts


def norm_exc(r):
    return "EXC" if isinstance(r, str) and r.startswith("EXC") else r


def eval_ann(ctx, terms, with_model=True, origin="gen"):
    Es = [render(t) for t in terms]
    api = [api_routes(E, NS) for E in Es]
    valid = [a is not None and a[4] for a in api]
    idx = [i for i, ok in enumerate(valid) if ok]
    src, qsrc = src_routes([Es[i] for i in idx])
    srcm = dict(zip(idx, src))
    qsrcm = dict(zip(idx, qsrc))
    model = None
    if with_model:
        model = [parse_model(l) for l in lean.run_driver("C13", model_lines(terms))]
    for i, t in enumerate(terms):
        E = Es[i]
        case = {"expr": E, "term": t}
        a = api[i]
        if a is None or not a[4]:
            ctx.count(1, ann_rejected_by_typing=1)
            continue
        r_ast, r_str, r_rt, obj, _, vals = a
        impl = {"ast": norm_exc(r_ast), "str": norm_exc(r_str), "strg": norm_exc(vals["r_strg"]), "rt": norm_exc(r_rt),
                "src": norm_exc(srcm[i]), "qsrc": norm_exc(qsrcm[i])}
        ctx.count(1, ann=1, **{"ann_head_" + t[0]: 1})
        if t[0] not in ("cls", "none", "anyT", "nt", "bare"):
            ctx.nontriv("ann|" + E)
        m = model[i] if model else None
        supported = m is None or m.get("S") == "1"
        dcls = None
        conforms = True
        has_missing = any(_has_chain(t, c_) for c_ in MISSING_CHAINS)
        # ---- the property on the implementation: all readings agree up to representation
        cs = {k: (v if (v is None or v == "EXC") else canon_res(v)) for k, v in impl.items()}
        keys = [k for k in cs if cs[k] is not None]
        ref = cs["rt"] if cs.get("rt") is not None else None
        bad = [k for k in keys if cs[k] != ref] if ref is not None else []
        if ref is None and len({repr(cs[k]) for k in keys}) > 1:
            bad = keys
        if m is not None:
            if m["D"] != "-":
                dcls = m["D"].split(",")[0]
                ctx.tag("ann_D_" + dcls)
            mm = {"ast": m["ast"], "str": m["ast"], "strg": m["strg"], "rt": m["rt"], "src": m["vis"], "qsrc": m["visq"]}
            if not supported:
                ctx.tag("ann_unsupported")
            for stream in ("ast", "str", "strg", "rt", "src", "qsrc"):
                iv, mv = impl[stream], mm[stream]
                if "UNENC" in str(iv) and not supported:
                    ctx.tag("ann_unencodable")
                    continue
                # the visitor may show the same annotation error once per pass: compare "some error" only there
                if stream in ("src", "qsrc") and has_missing and ";" in str(iv) and ";" in str(mv):
                    # the visitor-backed context reports a missing attribute of a quoted annotation at the string's own
                    # coordinates (line 1), not on the def line: the error cannot be attributed to the case here
                    iv, mv = iv.split(";")[0] + ";0;0", mv.split(";")[0] + ";0;0"
                c = cmp_res(iv, mv, errs_exact=stream not in ("src", "qsrc"))
                if c == "order" and stream in ("src", "rt"):
                    # typing's subscription cache is keyed by `==`, which ignores union member order: `List[int | str]` may hand back
                    # an equal object built earlier (in this very expression, or — for the visitor, which subscripts typing objects
                    # itself — in this module) with another member order
                    ctx.tag("ann_typing_cache_order")
                    c = "eq"
                if supported:
                    ctx.corr(stream)
                    if c != "eq":
                        conforms = False
                        if dcls is not None and not bad:
                            # inside an exception class no theorem speaks: the implementation may agree with the (defective)
                            # model, or satisfy the property (the defect has been repaired); only differ-and-fail is new
                            ctx.tag("ann_repaired_in_" + dcls)
                        else:
                            ctx.disagree(stream, case, iv, mv)
                elif c != "eq":
                    ctx.tag("ann_unsupported_diff")
            # spec validation: typing's own normalisation
            try:
                tn = sexp(obj_to_term(obj))
            except (NoTerm, V.Unencodable, KeyError):
                tn = None
            if tn is not None and supported:
                ctx.corr("typing")
                if tn != m["tn"]:
                    if sexp_canon(tn) == sexp_canon(m["tn"]):
                        ctx.tag("ann_typing_cache_order")
                    else:
                        ctx.disagree("typing", case, tn, m["tn"])
            if m["R"] != "-":
                ctx.tag("ann_R_" + m["R"])
        if len(ctx.samples) < 6 and i % 211 == 0:
            ctx.sample({"expr": E, "pyanalyze": impl, "model": m})
        if supported and bad:
            what = "readings of the annotation differ: " + "; ".join("%s=%s" % (k, impl[k]) for k in ("ast", "str", "strg", "rt", "src", "qsrc"))
            ctx.candidate(case, what, cls=dcls, conforms=conforms, stream="ann")


# ------------------------------------------------------------------ def headers
KINDS = ["po", "pk", "vp", "ko", "vk"]
PNAMES = "abcdefgh"


FN_KINDS = ["plain", "coro", "agen", "gen"]


def hdr(po=(), pk=(), vp=None, ko=(), kd=(), vk=None, df=(), ret=None, future=False, kind="plain"):
    return {"po": list(po), "pk": list(pk), "vp": vp, "ko": list(ko), "kd": list(kd), "vk": vk, "df": list(df), "ret": ret,
            "future": future, "kind": kind}


def render_dflt(d):
    return "..." if d == "ell" else render_obj(d)


def render_def(h, name):
    parts = []
    pos = h["po"] + h["pk"]
    nd = len(h["df"])
    for i, (n, a) in enumerate(pos):
        s = n + (": " + render(a) if a is not None else "")
        j = i - (len(pos) - nd)
        if j >= 0:
            s += (" = " if a is not None else "=") + render_dflt(h["df"][j])
        parts.append(s)
        if h["po"] and i == len(h["po"]) - 1:
            parts.append("/")
    if h["vp"] is not None:
        n, a = h["vp"]
        parts.append("*" + n + (": " + render(a) if a is not None else ""))
    elif h["ko"]:
        parts.append("*")
    for (n, a), d in zip(h["ko"], h["kd"]):
        s = n + (": " + render(a) if a is not None else "")
        if d is not None:
            s += (" = " if a is not None else "=") + render_dflt(d)
        parts.append(s)
    if h["vk"] is not None:
        n, a = h["vk"]
        parts.append("**" + n + (": " + render(a) if a is not None else ""))
    ret = " -> " + render(h["ret"]) if h["ret"] is not None else ""
    kind = h.get("kind", "plain")
    return "%sdef %s(%s)%s: %s" % ("async " if kind in ("coro", "agen") else "", name, ", ".join(parts), ret,
                                  "yield 1" if kind in ("agen", "gen") else "pass")


def sexp_hdr(h):
    def p(x):
        n, a = x
        return "(p %s)" % n if a is None else "(p %s %s)" % (n, sexp(a))

    def d(x):
        return "nodef" if x is None else ("ell" if x == "ell" else "(lit %s)" % V.obj_sexp(x))

    return "(def (kind " + h.get("kind", "plain") + ") (posonly %s) (args %s) (vararg %s) (kwonly %s) (kwdefaults %s) (kwarg %s) (defaults %s) (ret %s) (method) (future %d))" % (
        " ".join(p(x) for x in h["po"]), " ".join(p(x) for x in h["pk"]), p(h["vp"]) if h["vp"] else "",
        " ".join(p(x) for x in h["ko"]), " ".join(d(x) for x in h["kd"]), p(h["vk"]) if h["vk"] else "",
        " ".join(d(x) for x in h["df"]), sexp(h["ret"]) if h["ret"] is not None else "", int(h["future"]))


def kind_headers():
    """Every kind of function x every shape of return annotation (absent, a class, None, a string, Coroutine itself, an
    Optional) x {no parameter, one annotated parameter}, with and without the future import."""
    rets = [None, ("cls", INT), ("none",), ("str", ("cls", INT)), ("gen", True, CORO, [("anyT",), ("anyT",), ("cls", INT)]),
            ("opt", ("cls", STR)), ("str", ("name", 0))]
    out = []
    for kind in FN_KINDS:
        for r in rets:
            for params in ([], [("a", ("cls", INT))]):
                for fut in (False, True):
                    out.append(hdr(pk=params, ret=r, kind=kind, future=fut))
    return out


SMALL_ANN = [None, ("cls", INT), ("str", ("name", 0)), ("opt", ("cls", STR)), ("name", 0), ("str", ("name", LATER_NAME)),
             ("str", ("dot", 14, [2])), ("dot", 14, [3, 7])]
SMALL_DFLT = [("int", 1), ("none",), "ell"]


def small_headers():
    """Every kind sequence with <= 3 parameters; annotations/defaults vary over a small set (rotated for 3 parameters; the full
    product of annotation choices for <= 2 parameters)."""
    out = []
    k = 0
    for n in range(1, 3):
        for kinds in itertools.product(range(5), repeat=n):
            if any(kinds[i] > kinds[i + 1] for i in range(n - 1)) or kinds.count(2) > 1 or kinds.count(4) > 1:
                continue
            for anns in itertools.product(SMALL_ANN, repeat=n):
                for dflt in (None, ("int", 1)):
                    h = hdr()
                    for i, kd in enumerate(kinds):
                        arg = (PNAMES[i], anns[i])
                        if kd == 0:
                            h["po"].append(arg)
                        elif kd == 1:
                            h["pk"].append(arg)
                        elif kd == 2:
                            h["vp"] = arg
                        elif kd == 3:
                            h["ko"].append(arg)
                            h["kd"].append(dflt)
                        else:
                            h["vk"] = arg
                    if dflt is not None and kinds[-1] < 2:
                        h["df"].append(dflt)
                    elif dflt is not None and 3 not in kinds:
                        continue
                    out.append(h)
    for n in range(4):
        for kinds in itertools.product(range(5), repeat=n):
            if any(kinds[i] > kinds[i + 1] for i in range(n - 1)) or kinds.count(2) > 1 or kinds.count(4) > 1:
                continue
            npos = sum(1 for x in kinds if x < 2)
            for first_default in range(npos + 1):
                for kodef in itertools.product([0, 1], repeat=kinds.count(3)):
                    h = hdr()
                    pi = ki = 0
                    for i, kd in enumerate(kinds):
                        k += 1
                        arg = (PNAMES[i], SMALL_ANN[k % len(SMALL_ANN)])
                        if kd == 0:
                            h["po"].append(arg)
                        elif kd == 1:
                            h["pk"].append(arg)
                        elif kd == 2:
                            h["vp"] = arg
                        elif kd == 3:
                            h["ko"].append(arg)
                            h["kd"].append(SMALL_DFLT[k % 3] if kodef[ki] else None)
                            ki += 1
                        else:
                            h["vk"] = arg
                        if kd < 2:
                            if pi >= first_default:
                                h["df"].append(SMALL_DFLT[(k + pi) % 3])
                            pi += 1
                    h["ret"] = SMALL_ANN[k % len(SMALL_ANN)]
                    out.append(h)
    return out


def random_header(rng, ann_depth=1):
    n = rng.randint(0, 5)
    kinds = sorted(rng.choice([0, 1, 1, 1, 2, 3, 3, 4]) for _ in range(n))
    while kinds.count(2) > 1:
        kinds.remove(2)
    while kinds.count(4) > 1:
        kinds.remove(4)
    h = hdr(future=rng.random() < 0.25, kind=rng.choice(["plain"] * 11 + ["coro"] * 5 + ["agen"] * 2 + ["gen"] * 2))
    dstart = False

    def ann(var=False):
        r = rng.random()
        if r < 0.25:
            return None
        r = rng.random()
        if r < 0.12:
            # a name through a lookup: shadowing a builtin, builtin only, module only; quoted / under the future import also
            # bound after the def or undefined
            pool = list(EARLY_NAMES)
            quoted = rng.random() < 0.5
            if quoted or h["future"]:
                pool += [LATER_NAME, LATER_NAME, UNDEF_NAME]
            if REBOUND:
                pool += [REB_NAME, REB_NAME]
            t = ("name", rng.choice(pool))
            if rng.random() < 0.35:
                n_, p_ = rng.choice(CHAINS + (MISSING_CHAINS if quoted else []))
                t = ("dot", n_, p_)
            if rng.random() < 0.3 and t[1] != UNDEF_NAME and (t[0] != "dot" or (t[1], t[2]) not in MISSING_CHAINS):
                t = rng.choice([("opt", t), ("gen", True, LIST, [t]), ("bor", t, ("none",))])
            return ("str", t) if quoted else t
        t = gen_term(rng, ann_depth, quoted=h["future"])
        if rng.random() < 0.15:
            t = ("str", gen_term(rng, ann_depth, quoted=True))
        return t

    for i, kd in enumerate(kinds):
        name = PNAMES[i]
        if kd == 1 and rng.random() < 0.12:
            name = "__" + name
        arg = (name, ann(kd in (2, 4)))
        if kd == 0:
            h["po"].append(arg)
        elif kd == 1:
            h["pk"].append(arg)
        elif kd == 2:
            h["vp"] = arg
        elif kd == 3:
            h["ko"].append(arg)
            h["kd"].append(rng.choice(SMALL_DFLT + [("str", "a")]) if rng.random() < 0.5 else None)
        else:
            h["vk"] = arg
        if kd < 2:
            dstart = dstart or rng.random() < 0.3
            if dstart:
                h["df"].append(rng.choice(SMALL_DFLT + [("str", "a"), ("bool", 1)]))
    h["ret"] = ann()
    return h


def calls_for(h):
    """A fixed family of calls for a header (source text of the argument list)."""
    pos = [n for n, _ in h["po"] + h["pk"]]
    pk = [n for n, _ in h["pk"]]
    ko = [n for n, _ in h["ko"]]
    out = set()
    out.add(", ".join(["None"] * len(pos) + ["%s=None" % n for n in ko]))
    out.add(", ".join(["None"] * len(h["po"]) + ["%s=None" % n for n in pk + ko]))
    out.add(", ".join(["None"] * (len(pos) + 1)))
    out.add(", ".join(["None"] * max(0, len(pos) - 1) + ["%s=None" % n for n in ko]))
    out.add("")
    if pos:
        out.add(", ".join(["%s=None" % n for n in pos + ko]))
        out.add(", ".join(["None"] * len(pos) + ["%s=None" % n for n in ko] + ["zz=None"]))
    # the same shapes with a well-typed argument where a parameter expects the module's class B (`ARGB = B()` in the module):
    # an annotation resolved to another class shows as a different verdict
    typed = {c.replace("None", "ARGB") for c in out if "None" in c}
    return sorted(out) + sorted(typed)


def sig_string(sig):
    """pyanalyze Signature -> the driver's format."""
    from pyanalyze.signature import Signature, ParameterKind
    from pyanalyze.value import KnownValue, AnyValue
    if not isinstance(sig, Signature):
        return "NOSIG:%s" % type(sig).__name__
    km = {ParameterKind.POSITIONAL_ONLY: "po", ParameterKind.POSITIONAL_OR_KEYWORD: "pk", ParameterKind.VAR_POSITIONAL: "vp",
          ParameterKind.KEYWORD_ONLY: "ko", ParameterKind.VAR_KEYWORD: "vk"}
    ps = []
    for p in sig.parameters.values():
        if p.default is None:
            d = "-"
        elif isinstance(p.default, KnownValue) and p.default.val is Ellipsis:
            d = "ell"
        elif isinstance(p.default, AnyValue):
            d = "anyU"
        else:
            d = dec(p.default)
        ps.append("%s:%s:%s:%s" % (p.name, km.get(p.kind, p.kind.name), d, dec(p.annotation)))
    return ";".join(ps) + " -> %s:%d" % (dec(sig.return_value), int(sig.has_return_annotation))


def strip_errs(s):
    """model sig string without the error counters"""
    if s == "EXC" or " -> " not in s:
        return s
    ps, ret = s.rsplit(" -> ", 1)
    out = []
    for p in ps.split(";") if ps else []:
        out.append(p.rsplit(":", 1)[0])
    r = ret.split(":")
    return ";".join(out) + " -> %s:%s" % (r[0], r[1])


def parse_sig(s):
    if " -> " not in s:
        return None
    ps, ret = s.rsplit(" -> ", 1)
    out = []
    for p in ps.split(";") if ps else []:
        name, kind, d, a = p.split(":", 3)
        out.append((name, kind, d, None if "UNENC" in a else dedupe_any(parse_ty(a))))
    r = ret.split(":")
    return out, (None if "UNENC" in r[0] else dedupe_any(parse_ty(r[0]))), r[1]


def cmp_sig(iv, mv):
    if iv == mv:
        return "eq"
    a, b = parse_sig(iv), parse_sig(mv)
    if a is None or b is None:
        return "diff"
    if a == b:
        return "eq"
    ca = ([(n, k, d, canon(t) if t else t) for n, k, d, t in a[0]], canon(a[1]) if a[1] else a[1], a[2])
    cb = ([(n, k, d, canon(t) if t else t) for n, k, d, t in b[0]], canon(b[1]) if b[1] else b[1], b[2])
    return "order" if ca == cb else "diff"


def canon_sig(s):
    """names, kinds, default presence, canonical annotations; unannotated representations collapsed."""
    if " -> " not in s:
        return s
    ps, ret = s.rsplit(" -> ", 1)
    out = []
    for p in ps.split(";") if ps else []:
        name, kind, rest = p.split(":", 2)
        d, a = rest.rsplit(":", 1) if rest.startswith("(") else rest.split(":", 1)
        a = None if a == "UNENC" else canon(parse_ty(a))
        if a is not None:
            if a[0] == "union" and ("any",) in a[1]:
                a = ("any",)
            if kind == "vp" and a == ("generic", "8", (("any",),)):
                a = ("any",)
            if kind == "vk" and a == ("generic", "12", (("typed", "5"), ("any",))):
                a = ("any",)
        out.append((name, kind, d != "-", a))
    r = ret.split(":")
    return (tuple(out), None if r[0] == "UNENC" else canon(parse_ty(r[0])), r[1])


def sexp_canon(text):
    """Sort the children of `union` / `lit` nodes of an AnnExpr s-expression text (typing's `==`-keyed caches may hand
    back an equal object with another member order)."""
    toks = text.replace("(", " ( ").replace(")", " ) ").split()
    pos = [0]

    def rd():
        tok = toks[pos[0]]
        pos[0] += 1
        if tok != "(":
            return tok
        items = []
        while toks[pos[0]] != ")":
            items.append(rd())
        pos[0] += 1
        if items and items[0] in ("union", "lit"):
            items = [items[0]] + sorted(items[1:], key=repr)
        return tuple(items)

    out = []
    while pos[0] < len(toks):
        out.append(rd())
    return tuple(out)


def inspect_string(fn):
    km = {inspect.Parameter.POSITIONAL_ONLY: "po", inspect.Parameter.POSITIONAL_OR_KEYWORD: "pk", inspect.Parameter.VAR_POSITIONAL: "vp",
          inspect.Parameter.KEYWORD_ONLY: "ko", inspect.Parameter.VAR_KEYWORD: "vk"}
    sig = inspect.signature(fn)

    def a(x):
        return "-" if x is inspect.Parameter.empty else sexp(obj_to_term(x))

    ps = []
    for p in sig.parameters.values():
        if p.default is inspect.Parameter.empty:
            d = "-"
        elif p.default is Ellipsis:
            d = "ell"
        else:
            d = "(lit %s)" % V.obj_sexp(V.py_to_obj(p.default))
        ps.append("%s:%s:%s:%s" % (p.name, km[p.kind], d, a(p.annotation)))
    return ";".join(ps) + " -> " + a(sig.return_annotation)


_MODCOUNT = [0]


def eval_sig(ctx, headers, with_model=True):
    """headers: list of dicts (see hdr)."""
    if not headers:
        return
    _MODCOUNT[0] += 1
    checker = pya.make_checker()
    if ctx.scratch not in sys.path:
        sys.path.insert(0, ctx.scratch)
    groups = {False: [i for i, h in enumerate(headers) if not h["future"]], True: [i for i, h in enumerate(headers) if h["future"]]}
    defsrc = [None] * len(headers)
    res_def = [None] * len(headers)
    res_insp = [None] * len(headers)
    res_inspect = [None] * len(headers)
    verdict_in = [None] * len(headers)
    verdict_out = [None] * len(headers)
    verdict_mod = [None] * len(headers)
    result_in, result_out = {}, {}
    runtime = [None] * len(headers)
    B = 250
    for future, allidx in groups.items():
        for b0 in range(0, len(allidx), B):
            idxs = allidx[b0:b0 + B]
            fut = "from __future__ import annotations\n" if future else ""
            modname = "c13h_%d_%d_%d_%d" % (os.getpid(), _MODCOUNT[0], int(future), b0)
            ok_idxs = []
            body = []
            for i in idxs:
                try:
                    hh = headers[i]
                    for _n, _a in hh["po"] + hh["pk"] + hh["ko"] + [x for x in (hh["vp"], hh["vk"]) if x] + [("", hh["ret"])]:
                        if _a is not None:
                            # typing must accept the shape (under the future import nothing evaluates the annotation)
                            eval(render(_a) if _a[0] != "star" else "tuple[%s]" % render(_a), dict(NS_VALID))
                            if hh["future"] and _a[0] != "name" and _mentions(_a, UNDEF_NAME, outer_only=True):
                                raise NameError("undefined name below the top of an unquoted annotation: not modelled")
                    defsrc[i] = render_def(headers[i], "f%d" % i)
                    compile(fut + HEADER + defsrc[i] + "\n", "<c13>", "exec")
                    exec(fut + HEADER + defsrc[i] + "\n", {"__name__": "c13probe"})   # NameError for a name not bound yet
                except Exception as e:
                    res_def[i] = res_insp[i] = "INVALID:%s" % type(e).__name__
                    continue
                ok_idxs.append(i)
                body.append(defsrc[i])
            with open(os.path.join(ctx.scratch, modname + ".py"), "w") as f:
                f.write(fut + HEADER + "\n".join(body) + "\n" + FOOTER)
            importlib.invalidate_caches()
            H = importlib.import_module(modname)
            # inspect route + the real inspect view
            for i in ok_idxs:
                fn = getattr(H, "f%d" % i)
                try:
                    res_insp[i] = sig_string(checker.arg_spec_cache.get_argspec(fn))
                except Exception as e:
                    res_insp[i] = "EXC:%s" % type(e).__name__
                try:
                    res_inspect[i] = inspect_string(fn)
                except (NoTerm, V.Unencodable, KeyError, Exception):
                    res_inspect[i] = None
            # def route: nested defs in a checked module, with the calls next to them
            lines = (fut + HEADER).split("\n")[:-1] + ["def outer():"]
            where_def, where_call = {}, {}
            calls = {i: calls_for(headers[i]) for i in ok_idxs}
            for i in ok_idxs:
                lines.append("    " + defsrc[i])
                lines.append("    f%d" % i)
                where_def[len(lines)] = i
                for j, c in enumerate(calls[i]):
                    lines.append("    f%d(%s)" % (i, c))
                    where_call[len(lines)] = (i, j)
            # … and the same defs at module level of the checked module (there the function object is in scope), called in place
            where_mod = {}
            for i in ok_idxs:
                lines.append(defsrc[i].replace("def f%d(" % i, "def m%d(" % i, 1))
            lines.append("def run2():")
            for i in ok_idxs:
                for j, c in enumerate(calls[i]):
                    lines.append("    m%d(%s)" % (i, c))
                    where_mod[len(lines)] = (i, j)
            if not where_mod:
                lines.append("    pass")
            lines += FOOTER.split("\n")[:-1]
            from pyanalyze.value import CallableValue
            try:
                fails, tree, _ = pya.check_source("\n".join(lines) + "\n", annotate=True)
            except Exception as e:
                for i in ok_idxs:
                    res_def[i] = "MODEXC:%s" % type(e).__name__
                continue
            outer = [n for n in tree.body if isinstance(n, ast.FunctionDef) and n.name == "outer"][0]
            for n in outer.body:
                if isinstance(n, ast.Expr) and isinstance(n.value, ast.Name) and n.lineno in where_def:
                    i = where_def[n.lineno]
                    v = getattr(n.value, "inferred_value", None)
                    res_def[i] = sig_string(v.signature) if isinstance(v, CallableValue) else "NOCALLABLE:%s" % type(v).__name__
            for n in outer.body:     # the value of the first call next to the nested def
                if isinstance(n, ast.Expr) and isinstance(n.value, ast.Call) and where_call.get(n.lineno, (None, 1))[1] == 0:
                    result_in[where_call[n.lineno][0]] = dec(getattr(n.value, "inferred_value", None))
            vin = {i: [set() for _ in calls[i]] for i in ok_idxs}
            vmod = {i: [set() for _ in calls[i]] for i in ok_idxs}
            internal = set()
            for f in fails:
                ln = f["lineno"]
                if ln in where_call:
                    i, j = where_call[ln]
                    vin[i][j].add(f["code"])
                elif ln in where_mod:
                    i, j = where_mod[ln]
                    vmod[i][j].add(f["code"])
                elif f["code"] == "internal_error" and ln is not None:
                    # attribute to the def on that line
                    for dl, i in where_def.items():
                        if dl - 1 == ln:
                            internal.add(i)
            for i in internal:
                res_def[i] = "EXC"
            # the same calls from an importing module
            lines2 = HEADER.split("\n")[:-1] + ["import %s as H" % modname, "def run():"]
            where2 = {}
            for i in ok_idxs:
                for j, c in enumerate(calls[i]):
                    lines2.append("    H.f%d(%s)" % (i, c.replace("ARGB", "H.ARGB")))
                    where2[len(lines2)] = (i, j)
            if len(lines2) == len(HEADER.split("\n")) + 1:
                lines2.append("    pass")
            fails2, tree2, _ = pya.check_source("\n".join(lines2) + "\n", annotate=True)
            for fnode in tree2.body:
                if isinstance(fnode, ast.FunctionDef) and fnode.name == "run":
                    for n in fnode.body:
                        if isinstance(n, ast.Expr) and isinstance(n.value, ast.Call) and where2.get(n.lineno, (None, 1))[1] == 0:
                            result_out[where2[n.lineno][0]] = dec(getattr(n.value, "inferred_value", None))
            vout = {i: [set() for _ in calls[i]] for i in ok_idxs}
            for f in fails2:
                if f["lineno"] in where2:
                    i, j = where2[f["lineno"]]
                    vout[i][j].add(f["code"])
            for i in ok_idxs:
                verdict_in[i], verdict_out[i], verdict_mod[i] = vin[i], vout[i], vmod[i]
                fn = getattr(H, "f%d" % i)
                rt = []
                for c in calls[i]:
                    try:
                        r_ = eval("f(%s)" % c, {"f": fn, "ARGB": H.ARGB})
                        if inspect.iscoroutine(r_):
                            r_.close()
                        rt.append(True)
                    except TypeError:
                        rt.append(False)
                runtime[i] = rt
    model = None
    if with_model:
        model = [parse_model(l) for l in lean.run_driver("C13", ["sig %s %s" % (ENV_SEXP, sexp_hdr(h)) for h in headers])]
    for i, h in enumerate(headers):
        if res_def[i] is not None and str(res_def[i]).startswith("INVALID"):
            ctx.count(1, sig_invalid=1)
            continue
        case = {"def": defsrc[i], "future": h["future"], "header": h}
        nparams = len(h["po"]) + len(h["pk"]) + len(h["ko"]) + (h["vp"] is not None) + (h["vk"] is not None)
        ctx.count(1, sig=1, **{"sig_params_%d" % nparams: 1, "sig_future": int(h["future"])})
        if nparams:
            ctx.nontriv("sig|%s|%s" % (h["future"], defsrc[i]))
        m = model[i] if model else None
        supported = m is None or m.get("S") == "1"
        dcls, conforms = None, True
        idef, iinsp = norm_exc(res_def[i]), norm_exc(res_insp[i])
        # ---- the property on the implementation
        sig_bad = canon_sig(idef) != canon_sig(iinsp)   # a value outside the universe (UNENC) differs from any value inside
        call_bad = []
        if verdict_in[i] is not None:
            rej = lambda codes: ("incompatible_call" in codes or "incompatible_argument" in codes, "missing_await" in codes)
            for j, c in enumerate(calls_for(h)):
                a, b, mm_ = rej(verdict_in[i][j]), rej(verdict_out[i][j]), rej(verdict_mod[i][j])
                ctx.count(1, call=1)
                if a != b or a != mm_:
                    call_bad.append((j, c, a, b, mm_))
        if m is not None:
            if m["D"] != "-":
                dcls = m["D"].split(",")[0]
                ctx.tag("sig_D_" + dcls)
            for stream, iv, mv in (("def", idef, strip_errs(m["def"])), ("insp", iinsp, strip_errs(m["insp"]))):
                if not supported:
                    ctx.tag("sig_unsupported")
                    continue
                ctx.corr(stream)
                c = cmp_sig(iv, mv)
                if c == "order":
                    ctx.tag("sig_typing_cache_order")  # see eval_ann: typing's `==`-keyed subscription cache
                elif c != "eq":
                    conforms = False
                    if dcls is not None and not sig_bad and not call_bad:
                        ctx.tag("sig_repaired_in_" + dcls)  # see eval_ann: inside a class only differ-and-fail is new
                    else:
                        ctx.disagree(stream, case, iv, mv)
            if res_inspect[i] is not None and supported:
                ctx.corr("inspect")
                if res_inspect[i] != m["isig"]:
                    if sexp_canon(res_inspect[i]) == sexp_canon(m["isig"]):
                        ctx.tag("sig_typing_cache_order")
                    else:
                        ctx.disagree("inspect", case, res_inspect[i], m["isig"])
            if m["R"] != "-":
                ctx.tag("sig_R_" + m["R"].replace(",", "+"))
        if len(ctx.samples) < 10 and i % 97 == 0:
            ctx.sample({"def": defsrc[i], "def_route": idef, "inspect_route": iinsp, "model": m})
        if not supported:
            continue
        # ---- the type of a call's result: next to the nested def vs from the importing module. With a return annotation the
        # two must agree; without one the nested def's result is inferred from its body, so only the coroutine wrapper is compared
        ri, ro = result_in.get(i), result_out.get(i)
        if ri is not None and ro is not None and "UNENC" not in (ri, ro) and not call_bad and not sig_bad:
            ctx.count(1, call_result=1)
            if h["ret"] is not None:
                same = canon(dedupe_any(parse_ty(ri))) == canon(dedupe_any(parse_ty(ro)))
            else:
                same = ri.startswith("(generic %d " % CORO) == ro.startswith("(generic %d " % CORO)
            if not same:
                ctx.candidate(dict(case, call="f(%s)" % calls_for(h)[0]),
                              "the value of the call f(%s) is %s next to the nested def and %s from the importing module"
                              % (calls_for(h)[0], ri, ro), cls=dcls, conforms=conforms, stream="call_result")
        if sig_bad:
            ctx.candidate(case, "signature from the def node differs from the signature from the function object: def=%s inspect=%s"
                          % (idef, iinsp), cls=dcls, conforms=conforms, stream="sig")
        for j, c, a, b, mm_ in call_bad:
            w = lambda x: ("rejected" if x[0] else "accepted") + (" + missing_await" if x[1] else "")
            ctx.candidate(dict(case, call="f(%s)" % c, cpython_binds=runtime[i][j]),
                          "call f(%s): %s next to the nested def, %s for the module-level def in its own module, %s from the "
                          "importing module (CPython %s)" % (c, w(a), w(mm_), w(b),
                                                             "binds it" if runtime[i][j] else "raises TypeError"),
                          cls=dcls, conforms=conforms, stream="calls")


# ------------------------------------------------------------------ several modules, one Checker
# names every module of a group binds to a *different* object: a class, a NewType, a typing alias, a TypeVar (the TypeVar is
# outside the Lean term language: implementation-side comparisons only)
ITEM, NTX, ALIAS, TVN = 10, 11, 12, 13
MOD_NAME_TEXT = {ITEM: "Item", NTX: "NTX", ALIAS: "Alias", TVN: "TV"}
NAME_TEXT.update(MOD_NAME_TEXT)
MOD_BIND = [
    {ITEM: ("A", ("cls", A_)), NTX: ("NT0", ("nt", 0, INT)), ALIAS: ("List", ("bare", LIST)), TVN: ("_TVS[0]", None)},
    {ITEM: ("B", ("cls", B_)), NTX: ("NT1", ("nt", 1, STR)), ALIAS: ("Dict", ("bare", DICT)), TVN: ("_TVS[1]", None)},
    {ITEM: ("Cc", ("cls", V.CID[U.Cc])), NTX: ("NT2", ("nt", 2, A_)), ALIAS: ("Sequence", ("bare", G.SEQUENCE)), TVN: ("_TVS[2]", None)},
]


def mod_header(k):
    b = MOD_BIND[k]
    return HEADER + "from harness.common.values import TYPEVARS as _TVS\n" + \
        "".join("%s = %s\n" % (MOD_NAME_TEXT[n], b[n][0]) for n in (ITEM, NTX, ALIAS, TVN)) + "ARGI = Item()\n"


def mod_env_sexp(k):
    extra = " ".join("(%d %s)" % (n, _tgt(t)) for n, (_, t) in MOD_BIND[k].items() if t is not None)
    def layer(key):
        return " ".join("(%d %s)" % (n["id"], _tgt(n[key])) for n in NAMES if n[key] is not None)
    return "(env (early %s %s) (late %s %s) (builtins %s) %s)" % (layer("early"), extra, layer("late"), extra, layer("builtin"),
                                                                  _ATTRS_SEXP)


def multi_headers(rng, nrand):
    """Headers whose annotations use the per-module names: every parameter kind x name x position of the lookup, then random."""
    wraps = [lambda N: ("str", N), lambda N: ("str", ("opt", N)), lambda N: ("str", ("gen", True, LIST, [N])),
             lambda N: ("gen", False, LIST, [("str", N)]), lambda N: N, lambda N: ("str", ("bor", N, ("none",)))]
    out = []
    for n in (ITEM, NTX, ALIAS, TVN):
        for wi, w in enumerate(wraps):
            a = w(("name", n))
            for kind in (range(5) if wi == 0 else (1, 2)):
                h = hdr()
                arg = ("a", a)
                if kind == 0:
                    h["po"].append(arg)
                elif kind == 1:
                    h["pk"].append(arg)
                elif kind == 2:
                    h["vp"] = arg
                elif kind == 3:
                    h["ko"].append(arg)
                    h["kd"].append(None)
                else:
                    h["vk"] = arg
                out.append(h)
            out.append(hdr(pk=[("a", a), ("b", ("str", ("name", ITEM)))], ret=a))
    for _ in range(nrand):
        h = random_header(rng, 1)
        pool = [ITEM, ITEM, NTX, ALIAS, TVN]
        def sub(arg):
            if arg is None or rng.random() < 0.4:
                return arg
            n, a = arg
            return (n, rng.choice(wraps)(("name", rng.choice(pool))))
        h["po"] = [sub(x) for x in h["po"]]
        h["pk"] = [sub(x) for x in h["pk"]]
        h["ko"] = [sub(x) for x in h["ko"]]
        h["vp"], h["vk"] = sub(h["vp"]), sub(h["vk"])
        if rng.random() < 0.5:
            h["ret"] = rng.choice(wraps)(("name", rng.choice(pool)))
        out.append(h)
    # both spellings of "the annotation is a string": quoted as written, and everything under the future import
    return [dict(h, future=False) for h in out] + [dict(h, future=True) for h in out]


def eval_multi(ctx, headers, with_model=True, K=2, tag=""):
    """The same def texts in K modules that bind the annotation names to different objects; signatures of the function objects
    asked of ONE Checker in several orders, compared with each module on a fresh Checker, with the def-node view and the model;
    call verdicts of an importer checked by one Checker against importers checked alone."""
    from pyanalyze.value import CallableValue
    if ctx.scratch not in sys.path:
        sys.path.insert(0, ctx.scratch)
    plans = []
    for future in (False, True):
        hs = [h for h in headers if h["future"] == future]
        B = 120
        for b0 in range(0, len(hs), B):
            batch = hs[b0:b0 + B]
            fut = "from __future__ import annotations\n" if future else ""
            # defs valid in every module of the group
            okj, defs = [], []
            for j, h in enumerate(batch):
                try:
                    src = render_def(h, "f%d" % j)
                    for k in range(K):
                        exec(fut + mod_header(k) + src + "\n", {"__name__": "c13probe"})
                except Exception:
                    ctx.count(1, multi_invalid=1)
                    continue
                okj.append(j)
                defs.append(src)
            if okj:
                plans.append((future, batch, okj, defs))
    models = [None] * len(plans)
    if with_model and plans:      # one driver run for the whole stream
        lines, spans = [], []
        for future, batch, okj, defs in plans:
            spans.append(len(lines))
            for k in range(K):
                lines += ["sig %s %s" % (mod_env_sexp(k), sexp_hdr(batch[j])) for j in okj]
        out = [parse_model(l) for l in lean.run_driver("C13", lines)]
        for pi, (future, batch, okj, defs) in enumerate(plans):
            models[pi] = out[spans[pi]:spans[pi] + K * len(okj)]
    for pi, (future, batch, okj, defs) in enumerate(plans):
        if True:
            _MODCOUNT[0] += 1
            fut = "from __future__ import annotations\n" if future else ""
            names = ["c13m_%d_%d_%d" % (os.getpid(), _MODCOUNT[0], k) for k in range(K)]
            mods = []
            for k in range(K):
                with open(os.path.join(ctx.scratch, names[k] + ".py"), "w") as f:
                    f.write(fut + mod_header(k) + "\n".join(defs) + "\n" + FOOTER)
            importlib.invalidate_caches()
            mods = [importlib.import_module(n) for n in names]

            def sigs_of(checker, k):
                out = {}
                for j in okj:
                    try:
                        out[j] = norm_exc(sig_string(checker.arg_spec_cache.get_argspec(getattr(mods[k], "f%d" % j))))
                    except Exception as e:
                        out[j] = "EXC"
                return out

            alone = [sigs_of(pya.make_checker(), k) for k in range(K)]
            orders = [list(range(K)), list(range(K))[::-1]]
            if K > 2:
                orders.append([1, 2, 0])
            for order in orders:
                chk = pya.make_checker()
                for k in order:
                    got = sigs_of(chk, k)
                    for j in okj:
                        ctx.corr("multi_history")
                        if got[j] != alone[k][j]:
                            ctx.candidate({"def": defs[okj.index(j)], "future": future, "header": batch[j], "module": k,
                                           "order": order, "bindings": {MOD_NAME_TEXT[n]: MOD_BIND[k][n][0] for n in MOD_BIND[k]}},
                                          "the signature of the function object depends on what the Checker was asked before: module %d "
                                          "checked alone %s; after module(s) %s with the same Checker %s"
                                          % (k, alone[k][j], order[:order.index(k)], got[j]), cls=None, conforms=False, stream="multi")
            # one Checker, requests interleaved function by function
            chk = pya.make_checker()
            for j in okj:
                for k in range(K):
                    try:
                        got = norm_exc(sig_string(chk.arg_spec_cache.get_argspec(getattr(mods[k], "f%d" % j))))
                    except Exception:
                        got = "EXC"
                    ctx.corr("multi_history")
                    if got != alone[k][j]:
                        ctx.candidate({"def": defs[okj.index(j)], "future": future, "header": batch[j], "module": k, "order": "interleaved"},
                                      "the signature of the function object depends on what the Checker was asked before: module %d "
                                      "alone %s; interleaved with the other module(s) %s" % (k, alone[k][j], got),
                                      cls=None, conforms=False, stream="multi")
            # the def-node view of each module (nested defs) and the model
            model = models[pi]
            for k in range(K):
                src = (fut + mod_header(k)).split("\n")[:-1] + ["def outer():"]
                where = {}
                for j in okj:
                    src.append("    " + defs[okj.index(j)])
                    src.append("    f%d" % j)
                    where[len(src)] = j
                src += FOOTER.split("\n")[:-1]
                try:
                    fails, tree, _ = pya.check_source("\n".join(src) + "\n", annotate=True)
                except Exception as e:
                    continue
                outer = [n for n in tree.body if isinstance(n, ast.FunctionDef) and n.name == "outer"][0]
                view = {}
                for n in outer.body:
                    if isinstance(n, ast.Expr) and isinstance(n.value, ast.Name) and n.lineno in where:
                        v = getattr(n.value, "inferred_value", None)
                        view[where[n.lineno]] = sig_string(v.signature) if isinstance(v, CallableValue) else "NOCALLABLE"
                for idx, j in enumerate(okj):
                    h = batch[j]
                    case = {"def": defs[idx], "future": future, "header": h, "module": k,
                            "bindings": {MOD_NAME_TEXT[n]: MOD_BIND[k][n][0] for n in MOD_BIND[k]}}
                    ctx.count(1, multi=1)
                    ctx.nontriv("multi|%s|%d|%s" % (future, k, defs[idx]))
                    idef, iinsp = norm_exc(view.get(j, "MISSING")), alone[k][j]
                    m = model[k * len(okj) + idx] if model else None
                    has_tv = any(_mentions(x, TVN) for x in [h["ret"]] + [a for _, a in h["po"] + h["pk"] + h["ko"]] +
                                 [x[1] for x in (h["vp"], h["vk"]) if x])
                    dcls, conforms = None, True
                    if m is not None and m["D"] != "-":
                        dcls = m["D"].split(",")[0]     # the classes are syntactic: also valid for headers using the TypeVar
                    if m is not None and m.get("S") == "1" and not has_tv:
                        for stream, iv, mv in (("multi_def", idef, strip_errs(m["def"])), ("multi_insp", iinsp, strip_errs(m["insp"]))):
                            ctx.corr(stream)
                            c = cmp_sig(iv, mv)
                            if c not in ("eq", "order"):
                                conforms = False
                                if dcls is None:
                                    ctx.disagree(stream, case, iv, mv)
                    elif m is not None and m.get("S") != "1":
                        continue
                    if canon_sig(idef) != canon_sig(iinsp):
                        ctx.candidate(case, "signature from the def node differs from the signature from the function object: def=%s inspect=%s"
                                      % (idef, iinsp), cls=dcls, conforms=conforms, stream="multi_sig")
            # call verdicts: one importer, one Checker, all modules  vs  one importer per module on a fresh Checker
            def importer(ks):
                src = HEADER.split("\n")[:-1] + ["import %s as H%d" % (names[k], k) for k in ks] + ["def run():"]
                where = {}
                for j in okj:
                    for k in ks:
                        for ci, c in enumerate(calls_for(batch[j])):
                            if "ARGB" not in c and c != "":
                                continue
                            src.append("    H%d.f%d(%s)" % (k, j, c.replace("ARGB", "H%d.ARGI" % k)))
                            where[len(src)] = (k, j, ci)
                if not where:
                    src.append("    pass")
                return "\n".join(src) + "\n", where

            def verdicts(ks, checker):
                src, where = importer(ks)
                fails, _, _ = pya.check_source(src, checker=checker)
                bad = {v: False for v in where.values()}
                for f in fails:
                    if f["lineno"] in where and f["code"] in ("incompatible_call", "incompatible_argument"):
                        bad[where[f["lineno"]]] = True
                return bad

            shared = verdicts(list(range(K)), pya.make_checker())
            shared_rev = verdicts(list(range(K))[::-1], pya.make_checker())
            for k in range(K):
                single = verdicts([k], pya.make_checker())
                for key, v in single.items():
                    ctx.corr("multi_calls")
                    ctx.count(1, call=1)
                    for label, other in (("all modules", shared), ("all modules, reverse order", shared_rev)):
                        if other[key] != v:
                            kk, j, ci = key
                            ctx.candidate({"def": defs[okj.index(j)], "future": future, "header": batch[j], "module": kk,
                                           "call": "f(%s)" % calls_for(batch[j])[ci].replace("ARGB", "ARGI")},
                                          "call %s of module %d's function from an importer: %s when the importer uses only that module, "
                                          "%s when the same Checker also checks calls into the other module(s) (%s)"
                                          % (calls_for(batch[j])[ci].replace("ARGB", "ARGI"), kk, "rejected" if v else "accepted",
                                             "rejected" if other[key] else "accepted", label),
                                          cls=None, conforms=False, stream="multi_calls")


# ------------------------------------------------------------------ methods with __x parameters (implementation only)
def eval_methods(ctx):
    """Kinds of the parameters of methods from the def node (compute_parameters, recorded in-process) vs from the function
    object, for classes whose names do / do not start with underscores (Python strips the class name's leading underscores
    when it mangles __x; regression: before b1f1f0a is_positional_only_arg_name did not)."""
    import pyanalyze.name_check_visitor as ncv
    classes = ["Pub", "_Priv", "__Dun", "P_q", "_", "_P__q"]
    methods = ["def m(self, __x: int) -> None: pass", "def n(self, a: int, __b: int = 0, c: int = 1) -> None: pass",
               "def o(self, x: int, y: int = 0) -> None: pass", "def p(self, __x__: int) -> None: pass"]
    lines, where = [], {}
    for c in classes:
        lines.append("class %s:" % c)
        for m in methods:
            lines.append("    " + m)
            where[len(lines)] = (c, m.split("(")[0][4:])
    rec = {}
    orig = ncv.compute_value_of_function

    def wrap(info, vctx, **kw):
        rec[info.node.lineno] = [p.param.kind.name for p in info.params]
        return orig(info, vctx, **kw)

    ncv.compute_value_of_function = wrap
    try:
        _, _, mod = pya.check_source("\n".join(lines) + "\n")
    finally:
        ncv.compute_value_of_function = orig
    checker = pya.make_checker()
    for ln, (c, m) in where.items():
        fn = getattr(getattr(mod, c), m)
        sig = checker.arg_spec_cache.get_argspec(fn)
        obj = [p.kind.name for p in sig.parameters.values()]
        ctx.count(1, method=1)
        ctx.corr("methods")
        if rec.get(ln) != obj:
            ctx.candidate({"class": c, "def": lines[ln - 1].strip()},
                          "parameter kinds of %s.%s: %s from the def node, %s from the function object (parameter names %s)"
                          % (c, m, rec.get(ln), obj, list(sig.parameters)),
                          cls=None, conforms=True, stream="methods")


# ------------------------------------------------------------------ decorated functions (implementation only)
DECO_PRE = (
    "import functools, contextlib\nfrom typing import Iterator, AsyncIterator\n"
    "def deco(fn):\n    @functools.wraps(fn)\n    def w(*a, **k):\n        return fn(*a, **k)\n    return w\n"
)
DECO_DEFS = {
    "wr": ("@deco\ndef wr(x: int) -> str:\n    return ''", None),
    "cm": ("@contextlib.contextmanager\ndef cm(x: int) -> Iterator[int]:\n    yield 1", "wrappedDecorator"),
    "acm": ("@contextlib.asynccontextmanager\nasync def acm(x: int) -> AsyncIterator[int]:\n    yield 1", "wrappedDecorator"),
    "lc": ("@functools.lru_cache(maxsize=None)\ndef lc(x: int) -> int:\n    return 1", "wrappedDecorator"),
    "lc2": ("@functools.lru_cache\ndef lc2(x: int) -> int:\n    return 1", "wrappedDecorator"),
    "co": ("async def co(x: int) -> int:\n    return 1", None),
    "plain": ("def plain(x: int) -> int:\n    return 1", None),
}
DECO_METHODS = "class K:\n    @staticmethod\n    def sm(x: int) -> int:\n        return 1\n    @classmethod\n    def cmeth(cls, x: int) -> int:\n        return 1\n"


def eval_decorated(ctx):
    """Decorated functions from a small safe list: the same calls next to the nested def (the def node with the decorator applied
    through its declared type), for the module-level def in its own module, and from an importing module (both the function
    object). Verdicts (incompatible_call / incompatible_argument / missing_await) and the value of the call are compared.
    Known finding wrappedDecorator: a function object carrying __wrapped__ (contextmanager, asynccontextmanager, lru_cache) is
    read with every parameter and the result as Any (arg_spec.py:422 is_wrapped), the def node applies the decorator's type."""
    if ctx.scratch not in sys.path:
        sys.path.insert(0, ctx.scratch)
    _MODCOUNT[0] += 1
    name = "c13deco_%d_%d" % (os.getpid(), _MODCOUNT[0])
    defs = [d for d, _ in DECO_DEFS.values()]
    with open(os.path.join(ctx.scratch, name + ".py"), "w") as f:
        f.write(DECO_PRE + "\n".join(defs) + "\n" + DECO_METHODS)
    importlib.invalidate_caches()
    importlib.import_module(name)
    calls = ["%s(1)", "%s('a')", "%s()"]
    ind = lambda t: "\n".join("    " + l for l in t.split("\n"))
    body = "\n".join("    " + c % n for n in DECO_DEFS for c in calls)
    mcalls = "\n".join("    " + c % n for n in ("K.sm", "K.cmeth", "K().sm", "K().cmeth") for c in calls)
    nested = DECO_PRE + "def outer():\n" + "\n".join(ind(d) for d in defs) + "\n" + body + "\n"
    own = DECO_PRE + "\n".join(defs) + "\n" + DECO_METHODS + "def run():\n" + body + "\n" + mcalls + "\n"
    imp = "import %s as H\ndef run():\n" % name + "\n".join("    " + c % ("H." + n) for n in DECO_DEFS for c in calls) + "\n" + \
        "\n".join("    " + c % ("H." + n) for n in ("K.sm", "K.cmeth", "K().sm", "K().cmeth") for c in calls) + "\n"

    def collect(src):
        fails, tree, _ = pya.check_source(src, annotate=True)
        codes = {}
        for f in fails:
            codes.setdefault(f["lineno"], set()).add(f["code"])
        out = {}
        for fn in tree.body:
            if isinstance(fn, ast.FunctionDef) and fn.name in ("run", "outer"):
                for n in fn.body:
                    if isinstance(n, ast.Expr) and isinstance(n.value, ast.Call):
                        v = getattr(n.value, "inferred_value", None)
                        out[ast.unparse(n.value).replace("H.", "")] = (
                            tuple(sorted(c for c in codes.get(n.lineno, ()) if c in ("incompatible_call", "incompatible_argument", "missing_await"))),
                            _strip_any(_strip_tv(v)))
        return out

    a, b, c = collect(nested), collect(own), collect(imp)
    for k in b:
        ctx.count(1, decorated=1)
        ctx.corr("decorated")
        views = {"own module": b[k], "importer": c.get(k)}
        if k in a:
            views["nested def"] = a[k]
        if len({repr(v) for v in views.values()}) > 1:
            fn = k.split("(")[0]
            cls = DECO_DEFS.get(fn, (None, None))[1]
            ctx.candidate({"call": k, "def": DECO_DEFS.get(fn, (DECO_METHODS, None))[0]},
                          "the call %s is judged differently: %s" % (k, "; ".join("%s: %s" % kv for kv in views.items())),
                          cls=cls, conforms=True, stream="decorated")


# ------------------------------------------------------------------ Unpack[...] on *args / **kwargs: implementation only
UNPACK_PRE = (
    "from typing import Tuple, Any\nfrom typing_extensions import TypedDict, Unpack, NotRequired, Required, TypeVarTuple\n"
    "class TD(TypedDict):\n    a: int\n    b: NotRequired[str]\n"
    "class TD2(TypedDict, total=False):\n    a: Required[int]\n    c: bytes\n"
    "class TD0(TypedDict):\n    pass\n"
    "Ts = TypeVarTuple('Ts')\n"
)
UNPACK_VP = ["Unpack[Tuple[int, str]]", "Unpack[tuple[int, str]]", "Unpack[Tuple[int]]", "Unpack[Tuple[int, ...]]",
             "Unpack[Tuple[int, Unpack[Tuple[str, ...]]]]", "Unpack[Ts]", "Tuple[int, str]", "int"]
UNPACK_VK = ["Unpack[TD]", "Unpack[TD2]", "Unpack[TD0]", "TD", "int"]
UNPACK_POS = ["", "1", "1, 'a'", "'a', 1", "1, 'a', 2", "1, 2", "'a'"]
UNPACK_KW = ["", "a=1", "a=1, b='x'", "a='x'", "a=1, b=2", "b='x'", "a=1, c=b''", "a=1, c=2", "a=1, z=3", "z=1"]


def unpack_defs(rng=None, n=0):
    """(name, def text, calls): a var-positional / var-keyword parameter annotated with Unpack[...] in each spelling (plain,
    quoted, partly quoted), alone, next to ordinary parameters, and both together."""
    out = []

    def spell(a):
        return [a, repr(a)] + (["Unpack[%r]" % a[7:-1]] if a.startswith("Unpack[") else [])

    k = 0
    for a in UNPACK_VP:
        for sp in spell(a):
            out.append(("u%d" % k, "def u%d(*args: %s) -> None:\n    pass" % (k, sp), UNPACK_POS)); k += 1
        out.append(("u%d" % k, "def u%d(x: str, *args: %s, k: int = 0) -> None:\n    pass" % (k, repr(a)),
                    ["'s', " + c if c else "'s'" for c in UNPACK_POS] + ["'s', 1, 'a', k=1", "1"])); k += 1
    for a in UNPACK_VK:
        for sp in spell(a):
            out.append(("u%d" % k, "def u%d(**kw: %s) -> None:\n    pass" % (k, sp), UNPACK_KW)); k += 1
        out.append(("u%d" % k, "def u%d(x: str, *, k: int = 0, **kw: %s) -> None:\n    pass" % (k, repr(a)),
                    ["'s', " + c if c else "'s'" for c in UNPACK_KW] + ["'s', k=1, a=1", "a=1"])); k += 1
    for a, b in [(UNPACK_VP[0], UNPACK_VK[0]), (UNPACK_VP[3], UNPACK_VK[1]), (UNPACK_VP[0], UNPACK_VK[3])]:
        for q in (str, repr):
            out.append(("u%d" % k, "def u%d(*args: %s, **kw: %s) -> None:\n    pass" % (k, q(a), q(b)),
                        ["1, 'a', a=1", "1, 'a'", "1, a=1", "1, 'a', a='x'", "1, 'a', a=1, z=2", "a=1"])); k += 1
    for _ in range(n):      # random combinations
        a, b = rng.choice(UNPACK_VP + [None]), rng.choice(UNPACK_VK + [None])
        ps = (["x: int"] if rng.random() < 0.4 else []) + \
            (["*args: %s" % rng.choice(spell(a))] if a else (["*"] if rng.random() < 0.3 else [])) + \
            (["k: int = 0"] if rng.random() < 0.5 else [])
        if ps and ps[-1] == "*":
            ps.pop()
        if b:
            ps.append("**kw: %s" % rng.choice(spell(b)))
        pre = "1, " if ps and ps[0] == "x: int" else ""
        calls = [(pre + ", ".join(x for x in (rng.choice(UNPACK_POS), rng.choice(UNPACK_KW)) if x)).rstrip(", ") for _ in range(5)]
        out.append(("u%d" % k, "def u%d(%s) -> None:\n    pass" % (k, ", ".join(ps)), sorted(set(calls)))); k += 1
    return out


def eval_unpack(ctx):
    """`*args: Unpack[tuple[...]]` / `**kwargs: Unpack[TD]` (functions.py compute_parameters and arg_spec.py from_signature
    both evaluate the annotation with allow_unpack=True for these two kinds; model: unpack_flag_routes_agree). Each def is
    written unquoted, quoted and partly quoted, in an ordinary module and under `from __future__ import annotations`; the
    signature of the nested def (def node) is compared with that of the module-level function object, and the same calls are
    judged next to the nested def, in the defining module and from an importer."""
    from pyanalyze.value import CallableValue
    if ctx.scratch not in sys.path:
        sys.path.insert(0, ctx.scratch)
    defs = unpack_defs(ctx.rng, ctx.n(20, 400))
    ind = lambda t: "\n".join("    " + l for l in t.split("\n"))
    for future in (False, True):
        fut = "from __future__ import annotations\n" if future else ""
        _MODCOUNT[0] += 1
        name = "c13unp_%d_%d" % (os.getpid(), _MODCOUNT[0])
        good = []
        for d in defs:
            try:
                exec(fut + UNPACK_PRE + d[1] + "\n", {"__name__": "c13probe"})
                good.append(d)
            except Exception:
                pass
        with open(os.path.join(ctx.scratch, name + ".py"), "w") as f:
            f.write(fut + UNPACK_PRE + "\n".join(d[1] for d in good) + "\n")
        importlib.invalidate_caches()
        H = importlib.import_module(name)
        checker = pya.make_checker()
        callsrc = lambda pre: "\n".join("    %s%s(%s)" % (pre, n, c) for n, _, cs in good for c in cs)
        nested = fut + UNPACK_PRE + "def outer():\n" + "\n".join(ind(d[1]) + "\n    " + d[0] for d in good) + "\n" + callsrc("") + "\n"
        own = fut + UNPACK_PRE + "\n".join(d[1] for d in good) + "\ndef run():\n" + callsrc("") + "\n"
        imp = "import %s as H\ndef run():\n" % name + callsrc("H.") + "\n"

        def collect(src):
            fails, tree, _ = pya.check_source(src, annotate=True)
            codes = {}
            for f in fails:
                codes.setdefault(f["lineno"], set()).add(f["code"])
            out, sigs, noise = {}, {}, {}
            for fn in tree.body:
                if isinstance(fn, ast.FunctionDef) and fn.name in ("run", "outer"):
                    for n in fn.body:
                        if isinstance(n, ast.Expr) and isinstance(n.value, ast.Call):
                            out[ast.unparse(n.value).replace("H.", "")] = tuple(sorted(
                                c for c in codes.get(n.lineno, ()) if c in ("incompatible_call", "incompatible_argument")))
                        elif isinstance(n, ast.Expr) and isinstance(n.value, ast.Name):
                            v = getattr(n.value, "inferred_value", None)
                            # a def whose Signature cannot be built (InvalidSignature, e.g. the positional-only `@0` of an
                            # unpacked tuple after a positional-or-keyword parameter) is Any[error] here, an exception there
                            sigs[n.value.id] = _strip_any(_strip_tv(v.signature)) if isinstance(v, CallableValue) else "INVALID"
                        elif isinstance(n, ast.FunctionDef):
                            noise[n.name] = sorted(c for l in range(n.lineno, n.end_lineno + 1) for c in codes.get(l, ()))
                elif isinstance(fn, ast.FunctionDef):
                    noise[fn.name] = sorted(c for l in range(fn.lineno, fn.end_lineno + 1) for c in codes.get(l, ()))
            return out, sigs, noise

        (a, asig, anoise), (b, _, bnoise), (c, _, _) = collect(nested), collect(own), collect(imp)
        src = {d[0]: d[1] for d in good}
        for n, text, _ in good:
            ctx.count(1, unpack=1)
            ctx.corr("unpack")
            try:
                rsig = _strip_any(_strip_tv(checker.arg_spec_cache.get_argspec(getattr(H, n))))
            except Exception as e:
                rsig = "INVALID" if type(e).__name__ == "InvalidSignature" else "EXC:%s" % type(e).__name__
            if asig.get(n) != rsig:
                ctx.candidate({"def": text, "future": future},
                              "the signature of the def node and of the function object differ for\n%s\n  def node: %s\n  object:   %s"
                              % (text, asig.get(n), rsig), cls=None, conforms=True, stream="unpack-sig")
            if anoise.get(n) != bnoise.get(n):
                ctx.candidate({"def": text, "future": future},
                              "the def statement is reported differently nested (%s) and at module level (%s):\n%s"
                              % (anoise.get(n), bnoise.get(n), text), cls=None, conforms=True, stream="unpack-def")
        for k in b:
            ctx.count(1, unpack_calls=1)
            views = {"nested def": a.get(k), "own module": b[k], "importer": c.get(k)}
            if len({repr(v) for v in views.values()}) > 1:
                ctx.candidate({"call": k, "def": src.get(k.split("(")[0]), "future": future},
                              "the call %s is judged differently: %s" % (k, "; ".join("%s: %s" % kv for kv in views.items())),
                              cls=None, conforms=True, stream="unpack-call")


# ------------------------------------------------------------------ nested scopes inside each function kind: implementation only
NEST_PRE = "from typing import Iterator, AsyncIterator, Any\n"
NEST_PRELUDES = [
    "",
    "def inner():\n    yield 1",
    "def inner() -> int:\n    return 2",
    "async def inner():\n    yield 1",
    "async def inner() -> AsyncIterator[int]:\n    for i in range(x):\n        yield i",
    "async def inner() -> int:\n    return 2",
    "async def inner():\n    await other()\n    return 2",
    "def a():\n    async def b():\n        yield 1\n    return b",
    "async def a():\n    def b():\n        yield 1\n    return b",
    "lam = lambda: 1",
    "lam = lambda: (yield)",
    "lam = lambda: (yield from [1])",
    "class K:\n    def m(self):\n        yield 1\n    async def am(self):\n        yield 2\n    async def co(self):\n        return 3",
    "xs = [i for i in range(3)]",
    "g = (i for i in range(3))",
    "d = {i: (lambda: i) for i in range(3)}",
    "if x:\n    async def inner():\n        yield 1",
    "for _ in range(2):\n    async def inner():\n        yield 1",
    "try:\n    async def inner():\n        yield 1\nfinally:\n    pass",
    "with open('f') as fh:\n    def inner():\n        yield 1",
]
NEST_KINDS = {
    "plain": ("def %s(x: int) -> int:", "return 1"),
    "coro": ("async def %s(x: int) -> int:", "return 1"),
    "gen": ("def %s(x: int) -> Iterator[int]:", "yield 1"),
    "agen": ("async def %s(x: int) -> AsyncIterator[int]:", "yield 1"),
    "coro_await": ("async def %s(x: int) -> int:", "return await other()"),
}


def nest_defs():
    out, k = [], 0
    ind = lambda t: "\n".join("    " + l for l in t.split("\n"))
    for kind, (head, tail) in NEST_KINDS.items():
        for pre in NEST_PRELUDES:
            n = "n%d" % k
            k += 1
            out.append((n, kind, pre, head % n + "\n" + (ind(pre) + "\n" if pre else "") + "    " + tail))
    return out


def eval_nested_scopes(ctx):
    """The kind of a function (plain / coroutine / generator / async generator) is decided by its OWN body: a yield / await /
    return inside a nested def, async def, lambda, class body or comprehension belongs to that scope (functions.py
    IsGeneratorVisitor; the function object's kind is the compiler's co_flags). Every outer kind is given every nested-scope
    prelude; compared: the def-node signature against the function-object signature, both against the same header without the
    prelude, and the verdicts and values of the same calls next to the nested def, in the defining module and from an importer."""
    from pyanalyze.value import CallableValue
    if ctx.scratch not in sys.path:
        sys.path.insert(0, ctx.scratch)
    defs = nest_defs()
    ind = lambda t: "\n".join("    " + l for l in t.split("\n"))
    _MODCOUNT[0] += 1
    name = "c13nest_%d_%d" % (os.getpid(), _MODCOUNT[0])
    other = "async def other() -> int:\n    return 0\n"
    with open(os.path.join(ctx.scratch, name + ".py"), "w") as f:
        f.write(NEST_PRE + other + "\n".join(d[3] for d in defs) + "\n")
    importlib.invalidate_caches()
    H = importlib.import_module(name)
    checker = pya.make_checker()
    callsrc = lambda pre: "\n".join("    %s%s(%s)" % (a, pre + n, c) for n, _, _, _ in defs
                                    for a, c in (("", "1"), ("", "'a'"), ("await ", "1")))
    nested = NEST_PRE + other + "async def outer():\n" + "\n".join(ind(d[3]) + "\n    " + d[0] for d in defs) + "\n" + callsrc("") + "\n"
    own = NEST_PRE + other + "\n".join(d[3] for d in defs) + "\nasync def run():\n" + callsrc("") + "\n"
    imp = "import %s as H\nasync def run():\n" % name + callsrc("H.") + "\n"

    def collect(src):
        fails, tree, _ = pya.check_source(src, annotate=True)
        codes = {}
        for f in fails:
            codes.setdefault(f["lineno"], set()).add(f["code"])
        out, sigs = {}, {}
        for fn in tree.body:
            if isinstance(fn, ast.AsyncFunctionDef) and fn.name in ("run", "outer"):
                for n in fn.body:
                    if isinstance(n, ast.Expr) and isinstance(n.value, (ast.Call, ast.Await)):
                        v = getattr(n.value, "inferred_value", None)
                        out[ast.unparse(n.value).replace("H.", "")] = (tuple(sorted(codes.get(n.lineno, ()))), _strip_any(_strip_tv(v)))
                    elif isinstance(n, ast.Expr) and isinstance(n.value, ast.Name):
                        v = getattr(n.value, "inferred_value", None)
                        sigs[n.value.id] = _strip_any(_strip_tv(v.signature)) if isinstance(v, CallableValue) else "INVALID:%r" % (v,)
        return out, sigs

    (a, asig), (b, _), (c, _) = collect(nested), collect(own), collect(imp)
    rsig = {}
    for n, kind, pre, text in defs:
        try:
            rsig[n] = _strip_any(_strip_tv(checker.arg_spec_cache.get_argspec(getattr(H, n))))
        except Exception as e:
            rsig[n] = "EXC:%s" % type(e).__name__
    base = {kind: n for n, kind, pre, _ in defs if pre == ""}

    src = {d[0]: d[3] for d in defs}
    for n, kind, pre, text in defs:
        ctx.count(1, nested_scopes=1)
        ctx.corr("nested-scopes")
        if asig.get(n) != rsig[n]:
            ctx.candidate({"def": text}, "the signature of the def node and of the function object differ for\n%s\n  def node: %s\n  object:   %s"
                          % (text, asig.get(n), rsig[n]), cls=None, conforms=True, stream="nested-sig")
        b0 = base[kind]
        for view, sg in (("def node", asig), ("function object", rsig)):
            if sg.get(n) != sg.get(b0):
                ctx.candidate({"def": text}, "a nested scope changes the %s signature of the enclosing %s function:\n%s\n  with:    %s\n  without: %s"
                              % (view, kind, text, sg.get(n), sg.get(b0)), cls=None, conforms=True, stream="nested-kind")
    for k in b:
        ctx.count(1, nested_scope_calls=1)
        views = {"nested def": a.get(k), "own module": b[k], "importer": c.get(k)}
        if len({repr(v) for v in views.values()}) > 1:
            fn = k.replace("await ", "").split("(")[0]
            ctx.candidate({"call": k, "def": src.get(fn)},
                          "the call %s is judged differently: %s" % (k, "; ".join("%s: %s" % kv for kv in views.items())),
                          cls=None, conforms=True, stream="nested-call")


def _strip_any(x):
    """Any sources are not compared (an AnyValue keeps only its class name)."""
    if isinstance(x, tuple):
        if x and x[0] == "AnyValue":
            return ("AnyValue",)
        return tuple(_strip_any(y) for y in x)
    return x


# ------------------------------------------------------------------ extra vocabulary: implementation only
def eval_extra(ctx):
    ns = dict(NS)
    exec(EXTRA_HEADER, ns)
    from pyanalyze.annotations import type_from_ast, type_from_runtime
    for E in EXTRA + EXTRA_META:
        def go(fn):
            ctx_ = _rec_ctx(ns)
            try:
                return fn(ctx_), ctx_.n
            except Exception as e:
                return "EXC:%s" % type(e).__name__, 0
        a = go(lambda c: type_from_ast(ast.parse(E, mode="eval").body, ctx=c))
        s = go(lambda c: type_from_runtime(E, ctx=c))
        try:
            obj = eval(E, dict(ns))
        except Exception:
            continue
        r = go(lambda c: type_from_runtime(obj, ctx=c))
        ctx.count(1, extra=1)
        ctx.corr("extra")

        def key(x):
            v, n = x
            if isinstance(v, str):
                return v
            return (_strip_tv(v), n)
        if not (key(a) == key(s) == key(r)):
            ctx.candidate({"expr": E}, "readings differ on %s: ast=%s str=%s rt=%s" % (E, a[0], s[0], r[0]),
                          cls=None, conforms=True, stream="extra")


def _strip_tv(v):
    """Structural key of an arbitrary Value (dataclass fields, recursively). One representation difference is folded:
    the runtime route names typing.ContextManager / AsyncContextManager by the synthetic type
    'contextlib.AbstractContextManager' (annotations.py:874 _maybe_get_extra), the AST route by the class itself."""
    import contextlib, dataclasses
    from pyanalyze.value import Value
    if isinstance(v, str) and v in ("contextlib.AbstractContextManager", "contextlib.AbstractAsyncContextManager"):
        return getattr(contextlib, v.split(".")[1])
    from pyanalyze.value import MultiValuedValue
    if isinstance(v, MultiValuedValue):  # member order is representation only
        return ("MultiValuedValue",) + tuple(sorted((_strip_tv(x) for x in v.vals), key=repr))
    if isinstance(v, Value) and dataclasses.is_dataclass(v):
        return (type(v).__name__,) + tuple(_strip_tv(getattr(v, f.name)) for f in dataclasses.fields(v) if f.compare)
    if isinstance(v, (list, tuple)):
        return tuple(_strip_tv(x) for x in v)
    if isinstance(v, dict):
        return tuple((k, _strip_tv(x)) for k, x in v.items())
    if dataclasses.is_dataclass(v) and not isinstance(v, type):
        return (type(v).__name__,) + tuple(_strip_tv(getattr(v, f.name)) for f in dataclasses.fields(v) if f.compare)
    return v


# ------------------------------------------------------------------ corpus / run
def _mentions(t, name_id, outer_only=False):
    """does the term use the name (outer_only: outside string constants)?"""
    if not isinstance(t, (list, tuple)) or not t:
        return False
    if t[0] == "name":
        return t[1] == name_id
    if t[0] == "dot":
        return t[1] == name_id
    if t[0] == "str" and outer_only:
        return False
    if t[0] == "lit":
        return False
    return any(_mentions(x, name_id, outer_only) or (isinstance(x, list) and any(_mentions(y, name_id, outer_only) for y in x))
               for x in t[1:])


def _has_chain(t, chain):
    if not isinstance(t, (list, tuple)) or not t:
        return False
    if t[0] == "dot":
        return (t[1], list(t[2])) == (chain[0], list(chain[1]))
    if t[0] == "lit":
        return False
    return any(_has_chain(x, chain) or (isinstance(x, list) and any(_has_chain(y, chain) for y in x)) for x in t[1:])


def corpus():
    path = os.path.join(lean.HERE, "corpus", "C13.jsonl")
    anns, sigs = [], []
    if os.path.exists(path):
        for l in open(path):
            l = l.strip()
            if not l:
                continue
            d = json.loads(l)
            if "term" in d:
                anns.append(tt(d["term"]))
            elif "header" in d:
                sigs.append(hdr_from_json(d["header"]))
    return anns, sigs


def hdr_from_json(h):
    def arg(x):
        return None if x is None else (x[0], None if x[1] is None else tt(x[1]))

    def dd(x):
        return None if x is None else ("ell" if x == "ell" else tuple(x))

    return {"po": [arg(x) for x in h["po"]], "pk": [arg(x) for x in h["pk"]], "vp": arg(h["vp"]), "ko": [arg(x) for x in h["ko"]],
            "kd": [dd(x) for x in h["kd"]], "vk": arg(h["vk"]), "df": [dd(x) for x in h["df"]],
            "ret": None if h["ret"] is None else tt(h["ret"]), "future": bool(h["future"]), "kind": h.get("kind", "plain")}


def gen_all(ctx):
    rng = ctx.rng
    anns = exhaustive_terms()
    ctx.extra["exhaustive_part"] = "%d annotation expressions of depth <= 1" % len(anns)
    anns += depth2_terms(rng, ctx.n(2000, 25000))
    for _ in range(ctx.n(1600, 40000)):
        t = gen_term(rng, rng.choice([2, 2, 3]))
        r = rng.random()
        if r < 0.06:
            t = with_undefined(rng, t)
        elif r < 0.14:
            t = ("str", gen_term(rng, 2, quoted=True))
        anns.append(t)
    seen, out = set(), []
    for t in anns:
        k = repr(t)
        if k not in seen:
            seen.add(k)
            out.append(t)
    sigs = small_headers()
    ctx.extra["exhaustive_part"] += "; %d def headers with <= 3 parameters" % len(sigs)
    cap = ctx.n(350, 100000)
    if len(sigs) > cap:
        rng.shuffle(sigs)
        sigs = sigs[:cap]
        ctx.extra["exhaustive_part"] += " (sampled down to %d by the seed)" % cap
    sigs += kind_headers()
    for _ in range(ctx.n(600, 9000)):
        sigs.append(random_header(rng, rng.choice([0, 1, 1, 2])))
    return out, sigs


def run(ctx, with_model=True):
    canns, csigs = corpus()
    anns, sigs = gen_all(ctx)
    eval_ann(ctx, canns + anns, with_model)
    eval_sig(ctx, csigs + sigs, with_model)
    mh = multi_headers(ctx.rng, ctx.n(12, 600))
    eval_multi(ctx, mh, with_model, K=2)
    eval_multi(ctx, mh[::ctx.n(16, 2)], with_model, K=3)
    eval_extra(ctx)
    eval_methods(ctx)
    eval_decorated(ctx)
    eval_unpack(ctx)
    eval_nested_scopes(ctx)


def run_impl_only(ctx):
    run(ctx, with_model=False)


def replay(ctx, data):
    case = data["case"]
    if "term" in case:
        eval_ann(ctx, [tt(case["term"])])
    elif "header" in case and str(data.get("stream", "")).startswith("multi"):
        eval_multi(ctx, [hdr_from_json(case["header"])], K=3)
    elif "header" in case:
        eval_sig(ctx, [hdr_from_json(case["header"])])
    else:
        eval_extra(ctx)
    print(json.dumps({"case": {k: v for k, v in case.items() if k in ("expr", "def", "call", "future")},
                      "candidates": ctx.candidates, "broken": ctx.broken}, indent=1, default=str))
    return 1 if (ctx.candidates or ctx.broken) else 0
