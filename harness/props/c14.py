"""C14 — value algebra: unions form a semilattice; equality, hashing, substitution.

Streams
  unite : unite_values(a, b, c) decoded structurally            vs Lean `unite`
  eq    : a == b            vs Lean `Ty.beq`;     hash : hash(a) == hash(b)  vs Lean `Ty.hashEq` (every pair, equal or not)
  hashcoll : ALL pairs of a small universe of values (every atom of the generators; one-level composites over the
          atoms involved in the systematic zero-hash collision): hash(a) == hash(b) vs `Ty.hashEq`, a == b vs `Ty.beq`
  spec  : Lean `mem` vs the Python reference on the witness objects
  tv    : (implementation only, harness/props/c14x.py) a type variable planted in every child position of every Value class
          (table regenerated from the tree and pinned by Lean obligations), under every kind of container: pyanalyze's own
          traversal (walk_values / extract_typevars) against a structural occurrence oracle, and the substitution clauses
          (every occurrence replaced, equal to the value written directly, identity on closed values, commutes with uniting)
  (eq / hash / hashcoll skip pairs in the model's class `seqArgs`, see ASSUMPTIONS)
Property search on the implementation (fresh Value objects for every operand occurrence):
  idempotent / commutative / associative up to ==, no nested unions, Never is the identity, the union accepts each
  operand, members(union) = union of members, a == b => hash(a) == hash(b), equal alternatives merged,
  substitute_typevars: identity on closed values, replaces every occurrence, commutes with uniting.
"""
import json

from harness.common import lean, pya, values as V, gen_values as G
from harness.props.c03 import subterms, totuple, property_silent, translate as translate_class_table
from harness.props.c04 import mutate_ty
from harness.props import c14x

PROP = "C14"
LEAN_PROP = "PyaModel.Props.C14"
LEAN_TARGETS = ["PyaModel.Core.Sexp", "PyaModel.Spec.Mem", "PyaModel.Generated.ClassTable", "PyaModel.Spec.D14", "PyaModel.Core.Union",
                "PyaModel.Spec.ValueChildren", "PyaModel.Generated.ValueChildren"]
ANCHORS = [
    ("pyanalyze/value.py", "unite_values"),
    ("pyanalyze/value.py", "flatten_values"),
    ("pyanalyze/value.py", "annotate_value"),
    ("pyanalyze/value.py", "MultiValuedValue.__post_init__"),
    ("pyanalyze/value.py", "MultiValuedValue.__eq__"),
    ("pyanalyze/value.py", "MultiValuedValue.substitute_typevars"),
    ("pyanalyze/value.py", "KnownValue.__eq__"),
    ("pyanalyze/value.py", "KnownValue.__hash__"),
    ("pyanalyze/value.py", "GenericValue.substitute_typevars"),
    ("pyanalyze/value.py", "SequenceValue.substitute_typevars"),
    ("pyanalyze/value.py", "TypeVarValue.substitute_typevars"),
    ("pyanalyze/value.py", "TypedDictValue.substitute_typevars"),
    ("pyanalyze/value.py", "TypedDictValue.walk_values"),
    ("pyanalyze/value.py", "CallableValue.substitute_typevars"),
    ("pyanalyze/value.py", "extract_typevars"),
    ("pyanalyze/signature.py", "Signature.substitute_typevars"),
    ("pyanalyze/signature.py", "Signature.__hash__"),
]


def translate(ctx):
    translate_class_table(ctx)
    c14x.translate(ctx)
RULE = (
    "triples (a, b, c) of seeded random value terms (literals incl. unhashable lists/sets/dicts, classes, generics, sequence "
    "forms, nested unions, annotated, type[...], NewType, Any); b and c are drawn near a (copy, reordering of a union, mutation) "
    "half of the time so that equal-but-differently-built alternatives are frequent; TypeVar-bearing values are generated for the "
    "substitution laws (implementation side only); non-trivial = at least one operand is not atomic; distinct by term text"
)
ASSUMPTIONS = [
    "values of classes outside the Lean term language (TypedDictValue, DictIncompleteValue, CallableValue, exact type[...]) are covered by an implementation-only law stream (`ext`): pairs equal by construction but built differently, bare and nested",
    "hash(a) == hash(b) is modelled structurally, plus the one systematic collision found: a literal v with hash(v) == 0 (0, False, '', b'') gives hash(KnownValue(v)) == hash(TypedValue(type(v))) (= hash of a pair (type, x) with hash(x) == 0), propagating through every enclosing value; other collisions are not modelled -- the `hashcoll` stream compares hash equality on ALL pairs of the small universe so that any further systematic collision shows up as a broken correspondence; accidental 64-bit collisions are assumed away",
    "object identity is invisible to the model, the harness builds a fresh Value for every operand occurrence",
    "SequenceValue's dataclass hash and == also cover the derived field args = unite_values(members); the model compares the members only. The two differ only when one sequence form has two flattened members (possibly the same one: an unhashable literal) that are hash-equal but not == (tuple[int, Literal[0]]) or == but not hash-equal (tuple[[1], int], tuple[list[int | str], list[str | int]]): the model's decidable class `seqArgs` (Spec/D14.lean Ty.seqArgsIrregular); pairs in that class are skipped (counted as `seqargs_skipped`) by the eq / hash / hashcoll comparisons, the unite stream still covers them",
    "IntEnum members inside container literals ((IE.X,) == (1,) in Python, hash-equal too) are outside the object model (Obj.pyEq keeps instances apart from ints): the hashcoll universe holds no IntEnum member inside a container",
    "Annotated[...] metadata has no content in the Lean terms (`annotated t` = one fixed metadata item): AnnotatedValue with distinct metadata items, the normalisation of Annotated-in-Annotated / repeated metadata, and the constructor route MultiValuedValue(vals) against unite_values(*vals) are searched on the implementation only (`ann` stream); the raw-constructor / annotate_value call sites of value.py are pinned by annotated_construction_sites_registered",
    "TypeVarValue / TypedDict / Callable / dict-incomplete / type-guard values are outside the Lean term language (new constructors of `Ty` would touch the kernels of every other property): the substitution laws and the laws on those constructors are searched on the implementation only (`ext`, `tv`); the `tv` stream's occurrence oracle is a structural walk over the dataclass fields registered as child positions (Spec/ValueChildren.lean; fields with compare=False, default values, callbacks and derived fields are not type positions), its coverage of the Value classes is pinned by the obligations value_children_registered / registered_children_live / harness_registry_pinned / planted_children_have_planters",
]
TRUSTED = ["Spec/Mem.lean validated against the CPython-isinstance reference (stream spec)"]


def reorder(rng, t):
    k = t[0]
    if k == "union" and len(t[1]) > 1:
        xs = list(t[1])
        rng.shuffle(xs)
        return ("union", xs)
    if k in ("generic", "seq") and t[2]:
        xs = list(t[2])
        i = rng.randrange(len(xs))
        xs[i] = ("many", reorder(rng, xs[i][1])) if xs[i][0] == "many" else reorder(rng, xs[i])
        return (k, t[1], xs)
    if k == "annotated":
        return ("annotated", reorder(rng, t[1]))
    return t


def gen_val(rng, depth):
    r = rng.random()
    if r < 0.12:
        o = G.gen_obj(rng, 2)
        return ("known", o)
    return G.gen_ty(rng, depth, allow_any=rng.random() < 0.15, big_unhashable=True)


def near(rng, a, depth):
    r = rng.random()
    if r < 0.25:
        return a
    if r < 0.45:
        return reorder(rng, a)
    if r < 0.6:
        return mutate_ty(rng, a) if a[0] != "known" else gen_val(rng, depth)
    return gen_val(rng, depth)


def gen_triples(ctx):
    rng, depth = ctx.rng, ctx.n(2, 3)
    out = []
    for _ in range(ctx.n(2500, 30000)):
        a = G.norm_term(gen_val(rng, depth))
        b = G.norm_term(near(rng, a, depth))
        c = G.norm_term(near(rng, rng.choice([a, b]), depth))
        if "many" in (a[0], b[0], c[0]):
            continue
        out.append((a, b, c))
    return out


def corpus():
    import os
    path = os.path.join(lean.HERE, "corpus", "C14.jsonl")
    out = []
    if os.path.exists(path):
        for l in open(path):
            if l.strip():
                d = json.loads(l)
                out.append(tuple(totuple(x) for x in d["ops"]))
    return out


def val(t):
    return V.ty_to_value(t)


def dec(v):
    try:
        return V.value_to_ty(v)
    except V.Unencodable as e:
        return "UNENC:%s" % (e,)
    except Exception as e:
        return "EXC:%s" % type(e).__name__


def unite_impl(*ts):
    from pyanalyze.value import unite_values
    try:
        return unite_values(*[val(t) for t in ts])
    except Exception as e:
        return "EXC:%s" % type(e).__name__


def nested_union(t, top=True):
    k = t[0]
    if k == "union":
        return any(x[0] == "union" or (x[0] == "annotated" and x[1][0] == "union") for x in t[1])
    return False


def evaluate(ctx, triples, with_model=True):
    from pyanalyze.value import CanAssignError, KnownValue, MultiValuedValue, NO_RETURN_VALUE, unite_values
    checker = pya.make_checker()
    rng = ctx.rng
    m_unite = m_beq = m_heq = d_ops = d_pair = None
    if with_model:
        lines = []
        for a, b, c in triples:
            sa, sb, sc = V.ty_sexp(a), V.ty_sexp(b), V.ty_sexp(c)
            lines += ["unite %s %s %s" % (sa, sb, sc), "beq %s %s" % (sa, sb), "heq %s %s" % (sa, sb),
                      "d14ops %s %s %s" % (sa, sb, sc), "d14pair %s %s" % (sa, sb)]
        out = lean.run_driver("Val", lines)
        m_unite, m_beq, m_heq, d_ops, d_pair = out[0::5], out[1::5], out[2::5], out[3::5], out[4::5]
    spec_lines, spec_ref = [], []
    subst_jobs = []
    for i, (a, b, c) in enumerate(triples):
        case = {"a": V.ty_sexp(a), "b": V.ty_sexp(b), "c": V.ty_sexp(c), "ops": [a, b, c]}
        ctx.count(1, **{"a_" + a[0]: 1})
        if any(t[0] in ("union", "generic", "seq", "annotated") for t in (a, b, c)):
            ctx.nontriv(case["a"] + "|" + case["b"] + "|" + case["c"])
        ops_cls = [] if not d_ops or d_ops[i] in ("-", "bad-op") else d_ops[i].split(",")
        pair_cls = [] if not d_pair or d_pair[i] in ("-", "bad-op") else d_pair[i].split(",")
        # `seqArgs` is not a finding class: it marks the boundary of the fragment on which hash / == are compared
        seqargs = "seqArgs" in pair_cls
        ops_cls = [c for c in ops_cls if c != "seqArgs"]
        pair_cls = [c for c in pair_cls if c != "seqArgs"]
        conforms = True
        # ---- correspondence
        u = unite_impl(a, b, c)
        ud = dec(u) if not isinstance(u, str) else u
        try:
            va_, vb_ = val(a), val(b)  # both alive: unhashable literals hash by id()
            eq = va_ == vb_
            heq = hash(va_) == hash(vb_)
        except Exception as e:
            eq = heq = "EXC:%s" % type(e).__name__
        if with_model:
            ctx.corr("unite")
            mu = m_unite[i]
            iu = V.ty_sexp(ud) if not isinstance(ud, str) else ud
            if iu != mu:
                conforms = False
                ctx.disagree("unite", case, iu, mu)
            if seqargs:
                ctx.tag("seqargs_skipped")
            else:
                ctx.corr("eq")
                if ("1" if eq is True else "0" if eq is False else eq) != m_beq[i]:
                    conforms = False
                    ctx.disagree("eq", case, eq, m_beq[i])
                # hash equality is compared on every pair: the systematic collision of zero-hash literals with the
                # TypedValue of their class (hash((int, 0)) == hash((int, False))) is part of the model
                ctx.corr("hash")
                if ("1" if heq is True else "0" if heq is False else heq) != m_heq[i]:
                    conforms = False
                    ctx.disagree("hash", case, heq, m_heq[i])
        if i % 293 == 0:
            ctx.sample({"a": case["a"], "b": case["b"], "c": case["c"], "unite": V.ty_sexp(ud) if not isinstance(ud, str) else ud,
                        "a==b": eq, "hash(a)==hash(b)": heq, "D": ops_cls})

        def cand(what, law, classes, **extra):
            cls = classes[0] if classes else None
            ctx.candidate(dict(case, law=law, **extra), what, cls=cls, conforms=conforms, stream="law-" + law)

        # ---- laws on the implementation
        if eq is True and heq is not True:
            cand("a == b but hash(a) != hash(b)", "eq-hash", pair_cls)
        if isinstance(u, str):
            cand("unite_values raised: %s" % u, "total", [])
            continue
        try:
            uaa = unite_impl(a, a)
            if not (uaa == val(a)):
                cand("unite(a, a) != a", "idempotent", ops_cls)
            uab, uba = unite_impl(a, b), unite_impl(b, a)
            if not (uab == uba):
                cand("unite(a, b) != unite(b, a)", "commutative", ops_cls)
            l = unite_values(unite_impl(a, b), val(c))
            r = unite_values(val(a), unite_impl(b, c))
            if not (l == r):
                cand("unite(unite(a, b), c) != unite(a, unite(b, c))", "associative", ops_cls)
            if isinstance(u, MultiValuedValue) and any(isinstance(x, MultiValuedValue) for x in u.vals):
                cand("nested union in the result", "flat", [])
            if not (unite_values(NO_RETURN_VALUE, val(a)) == val(a)) and not (a[0] == "union"):
                cand("unite(Never, a) != a", "never-identity", ops_cls)
            if eq is True:
                m = unite_impl(a, b)
                if not (m == val(a)):
                    cand("a == b but unite(a, b) != a (equal alternatives not merged)", "merge-equal", ops_cls)
            for t in (a, b, c):
                r_ = u.can_assign(val(t), checker)
                if isinstance(r_, CanAssignError):
                    cand("the union does not accept its operand %s" % V.ty_sexp(t), "accepts-operand", [])
                    break
        except Exception as e:
            cand("exception while evaluating the laws: %r" % (e,), "total", [])
            continue
        # ---- members(unite) = union of members (on witness objects, via the reference membership of the decoded result)
        if not isinstance(ud, str) and not G.has_any(ud):
            for t in (a, b, c):
                if G.has_any(t) or t[0] == "known" and False:
                    continue
                o = G.gen_obj_for(rng, t)
                if any(property_silent(x, o) for x in (a, b, c)):
                    continue
                py = V.obj_to_py(o)
                lhs = G.member(py, ud)
                rhs = any(G.member(py, x) for x in (a, b, c))
                key = V.obj_sexp(V.canon_obj(o))
                spec_lines.append("mem %s %s" % (key, V.ty_sexp(ud)))
                spec_ref.append(lhs)
                if lhs != rhs:
                    cand("object %r: in the union = %s, in an operand = %s" % (py, lhs, rhs), "members", [], object=repr(py))
                    break
        # ---- substitution laws (implementation only; TypeVar-bearing values are outside the Lean terms)
        if i % 3 == 0:
            job = subst_prepare(ctx, rng, a, b, case, conforms)
            if job is not None:
                subst_jobs.append(job)
    if subst_jobs:
        souts = None
        if with_model:
            flat = lean.run_driver("Val", [l for j in subst_jobs for l in subst_lines(j)])
            souts = [flat[3 * k:3 * k + 3] for k in range(len(subst_jobs))]
        for k, job in enumerate(subst_jobs):
            subst_finish(ctx, job, souts[k] if souts else None)
    if with_model and spec_lines:
        out = lean.run_driver("Val", spec_lines)
        for l, m, r in zip(spec_lines, out, spec_ref):
            ctx.corr("spec")
            if m != ("1" if r else "0"):
                ctx.disagree("spec", l, "member=%s" % r, "mem=%s" % m)


def plant(rng, t, p=0.35):
    """Replace random leaves of a closed term by type variables 0 / 1."""
    k = t[0]
    if k in ("typed", "known", "newtype", "subclass") and rng.random() < p:
        return ("tvar", rng.choice([0, 0, 1]))
    if k in ("generic", "seq"):
        return (k, t[1], [("many", plant(rng, m[1], p)) if m[0] == "many" else plant(rng, m, p) for m in t[2]])
    if k == "union":
        return ("union", [plant(rng, x, p) for x in t[1]])
    if k == "annotated":
        return ("annotated", plant(rng, t[1], p))
    return t


def has_tvar(t):
    return any(s[0] == "tvar" for s in subterms(t))


def subst_prepare(ctx, rng, a, b, case, conforms_outer):
    """Phase 1: choose the open terms and the map; returns a job or None."""
    ctx.tag("subst_instances")
    oa, ob = G.norm_term(plant(rng, a)), G.norm_term(plant(rng, b))
    if "many" in (oa[0], ob[0]):
        return None
    m = {0: G.norm_term(G.gen_ty(rng, 1)), 1: G.norm_term(G.gen_ty(rng, 1))}
    if any(v[0] == "many" for v in m.values()):
        return None
    if rng.random() < 0.4:
        m[0] = ("typed", G.INT)  # makes collapses with existing `int` members likely
    msexp = "(" + " ".join("(%d %s)" % (i, V.ty_sexp(v)) for i, v in m.items()) + ")"
    return dict(a=a, oa=oa, ob=ob, m=m, msexp=msexp, conforms=conforms_outer,
                case=dict(case, open_a=V.ty_sexp(oa), open_b=V.ty_sexp(ob), tvmap=msexp))


def subst_lines(job):
    return ["subst %s %s" % (job["msexp"], V.ty_sexp(job["oa"])), "subst %s %s" % (job["msexp"], V.ty_sexp(job["ob"])),
            "d14subst %s %s %s" % (job["msexp"], V.ty_sexp(job["oa"]), V.ty_sexp(job["ob"]))]


def subst_finish(ctx, job, out):
    """Phase 2: correspondence with the Lean `subst` (out = the three driver lines, or None) and the three laws."""
    from pyanalyze.value import unite_values, TypeVarValue
    oa, ob, scase, conforms = job["oa"], job["ob"], job["case"], job["conforms"]
    tvmap = {V.TYPEVARS[i]: val(v) for i, v in job["m"].items()}
    classes = []
    try:
        sa = val(oa).substitute_typevars(tvmap)
        sb = val(ob).substitute_typevars(tvmap)
    except Exception as e:
        ctx.candidate(dict(scase, law="total"), "substitute_typevars raised %r" % (e,), cls=None, conforms=True, stream="law-total")
        return
    if out is not None:
        for o_, s_, mm in ((oa, sa, out[0]), (ob, sb, out[1])):
            ctx.corr("subst")
            d = dec(s_)
            iu = V.ty_sexp(d) if not isinstance(d, str) else d
            if iu != mm:
                conforms = False
                ctx.disagree("subst", dict(scase, term=V.ty_sexp(o_)), iu, mm)
        classes = [] if out[2] in ("-", "bad-op") else out[2].split(",")

    def cand(what, law):
        ctx.candidate(dict(scase, law=law), what, cls=classes[0] if classes else None, conforms=conforms, stream="law-" + law)

    try:
        va = val(job["a"])
        if not (va.substitute_typevars(tvmap) == va):
            cand("substitute_typevars changed a value without type variables", "subst-closed")
        for s_ in (sa, sb):
            if any(isinstance(x, TypeVarValue) and x.typevar in tvmap for x in s_.walk_values()):
                cand("a mapped type variable survives the substitution", "subst-replaces")
        left = unite_values(val(oa), val(ob)).substitute_typevars(tvmap)
        right = unite_values(sa, sb)
        if not (left == right):
            cand("substitution does not commute with uniting: subst(unite(a, b)) != unite(subst a, subst b)", "subst-unite")
    except Exception as e:
        cand("exception in substitution laws: %r" % (e,), "total")


# ------------------------------------------------------------------ constructors outside the Lean term language
def ext_pairs(rng, n):
    """Pairs (kind, build_a, build_b) of Values that are equal by construction but built differently
    (TypedDict key order, separately built signatures, ...), bare and wrapped. Implementation-only laws."""
    from pyanalyze.signature import ParameterKind, SigParameter, Signature
    from pyanalyze.value import (AnnotatedValue, CallableValue, DictIncompleteValue, GenericValue, KnownValue, KVPair,
                                 MultiValuedValue, SequenceValue, SubclassValue, TypedDictEntry, TypedDictValue, TypedValue)
    leaf = [TypedValue(int), TypedValue(str), KnownValue(1), TypedValue(float), KnownValue(None)]
    out = []
    for _ in range(n):
        kind = rng.choice(["typeddict", "typeddict", "typeddict", "dictinc", "callable", "callable_impl", "subclass_exact"])
        cls = None
        if kind == "typeddict":
            keys = rng.sample(["a", "b", "c", "d"], rng.choice([2, 2, 3, 4]))
            spec = {k: (rng.choice(leaf), rng.random() < 0.7, rng.random() < 0.2) for k in keys}
            extra = rng.choice([None, None, TypedValue(int)])
            perm = list(keys)
            rng.shuffle(perm)

            def mk(order, spec=spec, extra=extra):
                items = {k: TypedDictEntry(spec[k][0], required=spec[k][1], readonly=spec[k][2]) for k in order}
                return TypedDictValue(items, extra_keys=extra) if extra is not None else TypedDictValue(items)

            base = (lambda keys=keys, mk=mk: mk(keys), lambda perm=perm, mk=mk: mk(perm))
            desc = "TypedDict keys %s vs %s" % (keys, perm)
        elif kind == "dictinc":
            keys = rng.sample(["a", "b", "c"], 2)
            vt = rng.choice(leaf)
            base = (lambda: DictIncompleteValue(dict, [KVPair(KnownValue(k), vt) for k in keys]),) * 2
            desc = "DictIncompleteValue %s" % keys
        elif kind == "callable":
            pt, rt = rng.choice(leaf), rng.choice(leaf)
            base = (lambda: CallableValue(Signature.make([SigParameter("x", ParameterKind.POSITIONAL_ONLY, annotation=pt)], rt)),) * 2
            desc = "CallableValue (%s) -> %s" % (pt, rt)
        elif kind == "callable_impl":
            # the same signature attached to two different callables / impl functions: Signature.__eq__ ignores them
            # (compare=False), the hand-written Signature.__hash__ includes them
            pt, rt = rng.choice(leaf), rng.choice(leaf)
            how = rng.choice(["callable", "impl"])
            objs = (_sig_fn_a, _sig_fn_b)

            def mkc(o, pt=pt, rt=rt, how=how):
                return CallableValue(Signature.make([SigParameter("x", ParameterKind.POSITIONAL_ONLY, annotation=pt)], rt,
                                                    **{how: o}))
            base = (lambda mkc=mkc, objs=objs: mkc(objs[0]), lambda mkc=mkc, objs=objs: mkc(objs[1]))
            desc = "CallableValue (%s) -> %s with different %s" % (pt, rt, how)
            cls = "callableHashImpl"
        else:
            base = (lambda: SubclassValue(TypedValue(int), exactly=True),) * 2
            desc = "type[int] exactly"
        wrap = rng.choice(["bare", "bare", "list", "annotated", "union", "tuple", "dictval"])
        w = {
            "bare": lambda v: v,
            "list": lambda v: GenericValue(list, [v]),
            "annotated": lambda v: AnnotatedValue(v, [KnownValue("meta")]),
            "union": lambda v: MultiValuedValue([v, KnownValue(None)]),
            "tuple": lambda v: SequenceValue(tuple, [(False, TypedValue(int)), (False, v)]),
            "dictval": lambda v: GenericValue(dict, [TypedValue(str), v]),
        }[wrap]
        out.append((desc + " in " + wrap, (lambda base=base, w=w: w(base[0]())), (lambda base=base, w=w: w(base[1]())), cls))
    return out


def _sig_fn_a(x):
    return x


def _sig_fn_b(x):
    return x


def ext_stream(ctx):
    from pyanalyze.value import CanAssignError, MultiValuedValue, unite_values
    checker = pya.make_checker()
    for desc, fa, fb, cls in ext_pairs(ctx.rng, ctx.n(400, 4000)):
        ctx.count(1, ext=1)
        ctx.nontriv("ext|" + desc)
        case = {"ext": desc}

        def cand(what, law, cls=cls):
            ctx.candidate(dict(case, law=law), what, cls=cls, conforms=True, stream="law-" + law)

        try:
            a, b = fa(), fb()
            if not (a == b):
                continue  # not equal on this tree: nothing to demand
            if hash(a) != hash(b):
                cand("a == b but hash(a) != hash(b): " + desc, "eq-hash")
            if not (unite_values(fa(), fb()) == a):
                cand("a == b but unite(a, b) != a: " + desc, "merge-equal")
            if not (unite_values(fa(), fa()) == a):
                cand("unite(a, a) != a: " + desc, "idempotent")
            other = KnownValueOf(7)
            if not (unite_values(fa(), other) == unite_values(fb(), other)) or not (
                unite_values(fa(), other) == unite_values(other, fa())
            ):
                cand("uniting does not respect equality / order of operands: " + desc, "commutative")
            u = unite_values(fa(), fb(), other)
            if isinstance(u, MultiValuedValue) and any(isinstance(x, MultiValuedValue) for x in u.vals):
                cand("nested union in the result", "flat")
            if isinstance(u.can_assign(fa(), checker), CanAssignError):
                cand("the union does not accept its operand: " + desc, "accepts-operand")
        except Exception as e:
            cand("exception in the laws on %s: %r" % (desc, e), "total")


# ------------------------------------------------------------------ hash collisions: all pairs of a small universe
def _nested_intenum(o, top=True):
    from harness import universe as U
    k = o[0]
    if k == "inst":
        return (not top) and o[1] == V.CID[U.IE]
    if k in ("tuple", "list", "set", "fset"):
        return any(_nested_intenum(x, False) for x in o[1])
    if k == "dict":
        return any(_nested_intenum(x, False) for x in o[1] + o[2])
    return False


def hashcoll_universe(big):
    """(atoms, composites). atoms: every atom the generators draw from. composites: one constructor over the atoms
    involved in the zero-hash collision and their neighbours (plus a few two-level terms around colliding unions and
    sequence forms): systematic collisions propagate through tuple hashes, this is where they would (dis)appear."""
    atoms = ([("any",)] + [("typed", c) for c in G.TYPED] + [("known", o) for o in G.small_objs() if not _nested_intenum(o)]
             + [("subclass", c) for c in [0, G.INT, G.FLOAT, G.STR, G.BOOL]]
             + [("newtype", n, G.NT_CLS[n]) for n in range(len(G.NEWTYPES))] + [("union", [])])
    k0, k1, ks, kn = ("known", ("int", 0)), ("known", ("int", 1)), ("known", ("str", "")), ("known", ("none",))
    tint, tstr = ("typed", G.INT), ("typed", G.STR)
    if big:
        small = [("any",), tint, tstr, ("typed", G.BOOL), ("typed", G.BYTES), k0, k1, ("known", ("bool", 0)), ks,
                 ("known", ("bytes", "")), kn, ("known", ("list", [])), ("subclass", G.INT), ("newtype", 0, G.NT_CLS[0])]
        second = small[:9]
    else:
        small = [("any",), tint, tstr, k0, k1, ks, ("known", ("bool", 0)), ("typed", G.BOOL), ("known", ("list", [])), ("subclass", G.INT)]
        second = small[:5]
    comp = list(small)
    for x in small:
        comp += [("generic", G.LIST, [x]), ("generic", G.SEQUENCE, [x]), ("seq", G.TUPLE, [x]), ("seq", G.LIST, [x]),
                 ("seq", G.TUPLE, [("many", x)]), ("annotated", x)]
        for y in second:
            comp += [("union", [x, y]), ("seq", G.TUPLE, [x, y]), ("generic", G.DICT, [x, y])]
    comp.append(("seq", G.TUPLE, []))
    pick = [("union", [tint, k0]), ("union", [k0, tint]), ("union", [tint, tstr]), ("union", [tstr, tint]),
            ("seq", G.TUPLE, [tint, k0]), ("seq", G.TUPLE, [tint, tint]), ("seq", G.TUPLE, [k0, k0])]
    for x in pick:
        comp += [("generic", G.LIST, [x]), ("seq", G.TUPLE, [x]), ("annotated", x), ("seq", G.TUPLE, [x, tstr]),
                 ("generic", G.SET, [x]) if x[0] == "union" else ("union", [x, ("typed", G.FLOAT)])]
    comp += [("union", [x, y]) for x in pick[4:] for y in pick[4:] if x != y]

    def dedup(ts):
        seen, out = set(), []
        for t in ts:
            k = V.ty_sexp(t)
            if k not in seen:
                seen.add(k)
                out.append(t)
        return out
    return dedup(atoms), dedup(comp)


def hashcoll_stream(ctx):
    """hash(a) == hash(b) and a == b on the implementation vs `Ty.hashEq` / `Ty.beq`, for ALL pairs of each group of the
    small universe (two separately built Values per pair). A systematic hash collision (or a systematic
    non-collision) that the model does not know is a broken correspondence here."""
    lines, ref = [], []
    for group in hashcoll_universe(ctx.big()):
        vs = []
        for t in group:
            try:
                vs.append((V.ty_sexp(t), val(t), val(t)))
            except Exception:
                continue
        for i, (sa, va, _) in enumerate(vs):
            for sb, _, vb in vs[i:]:
                lines += ["heq %s %s" % (sa, sb), "beq %s %s" % (sa, sb), "d14pair %s %s" % (sa, sb)]
                try:
                    ref.append((sa, sb, hash(va) == hash(vb), va == vb))
                except Exception as e:
                    ref.append((sa, sb, "EXC:%s" % type(e).__name__, "EXC"))
    out = lean.run_driver("Val", lines)
    ctx.count(1, hashcoll_pairs=len(ref))
    ctx.nontriv("hashcoll|%d" % len(ref))
    coll = 0
    for k, (sa, sb, h, e) in enumerate(ref):
        mh, me, cls = out[3 * k], out[3 * k + 1], out[3 * k + 2]
        if "seqArgs" in cls.split(","):
            ctx.tag("seqargs_skipped")
            continue
        ctx.corr("hashcoll", 2)
        case = {"a": sa, "b": sb, "stream": "hashcoll"}
        if mh != ("1" if h is True else "0" if h is False else h):
            ctx.disagree("hashcoll", case, "hash-equal=%s" % h, "hashEq=%s" % mh)
        if me != ("1" if e is True else "0" if e is False else e):
            ctx.disagree("hashcoll", case, "==: %s" % e, "beq=%s" % me)
        if h is True and e is False:
            coll += 1
    ctx.tag("hashcoll_collisions", coll)


# ------------------------------------------------------------------ big unions (>= 10 members: literal fast path)
def gen_big_triples(ctx):
    """Triples around unions of 9..14 members (MultiValuedValue switches to a hash-set fast path for its literal members
    at 10): a big union (with / without an unhashable literal, with / without non-literal members) against an
    unhashable literal, a hashable literal, a second big union, a copy / reordering of itself."""
    rng = ctx.rng
    out = []
    unh = [("known", o) for o in G.BIG_UNHASHABLE]
    for _ in range(ctx.n(120, 1500)):
        a = G.gen_big_union(rng)
        r = rng.random()
        if r < 0.4:
            b = rng.choice(unh)
        elif r < 0.55:
            b = rng.choice(G.BIG_POOL)
        elif r < 0.8:
            b = G.gen_big_union(rng)
        else:
            b = reorder(rng, a)
        r = rng.random()
        c = rng.choice(unh) if r < 0.35 else rng.choice(G.BIG_EXTRA) if r < 0.6 else G.gen_big_union(rng) if r < 0.75 else a
        t = [G.norm_term(x) for x in (a, b, c)]
        rng.shuffle(t)
        out.append(tuple(t))
    # fixed shapes: exactly 9 / 10 / 11 literal members plus one unhashable literal operand
    lits = [("known", ("int", i)) for i in range(12)]
    for n in (8, 9, 10, 11):
        for u in unh[:3]:
            out.append((("union", lits[:n]), u, ("known", ("str", "a"))))
            out.append((u, ("union", lits[:n] + [u]), ("typed", G.STR)))
    return out


def KnownValueOf(x):
    from pyanalyze.value import KnownValue
    return KnownValue(x)


def run(ctx):
    evaluate(ctx, corpus() + gen_triples(ctx) + gen_big_triples(ctx))
    hashcoll_stream(ctx)
    ext_stream(ctx)
    c14x.tv_stream(ctx)
    c14x.ann_stream(ctx)


def run_impl_only(ctx):
    evaluate(ctx, corpus() + gen_triples(ctx) + gen_big_triples(ctx), with_model=False)
    ext_stream(ctx)
    c14x.tv_stream(ctx)
    c14x.ann_stream(ctx)


def replay(ctx, data):
    # failing-input replays carry one case; broken-correspondence replays carry the list of disagreements
    cases = [data["case"]] if "case" in data else [b["case"] for b in data.get("broken", []) if isinstance(b.get("case"), dict)]
    triples, seen = [], set()
    for c in cases:
        if "ops" in c and json.dumps(c["ops"]) not in seen:
            seen.add(json.dumps(c["ops"]))
            triples.append(tuple(totuple(x) for x in c["ops"]))
    if triples:
        evaluate(ctx, triples)
    if any(c.get("stream") == "hashcoll" for c in cases):
        hashcoll_stream(ctx)
    if any("tv" in c for c in cases):
        c14x.tv_stream(ctx, only={c["tv"] for c in cases if "tv" in c})
    if any("ext" in c for c in cases):
        ext_stream(ctx)
    if any("ann" in c for c in cases):
        c14x.ann_stream(ctx)
    print(json.dumps({"candidates": ctx.candidates[:3], "broken": ctx.broken[:3]}, indent=1, default=str))
    return 1 if (ctx.candidates or ctx.broken) else 0
