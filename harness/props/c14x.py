"""C14, values outside the Lean term language: type-variable occurrences and substitution on the implementation.

The substitution clauses of C14 ("substituting type variables is the identity on values without type variables, replaces
every occurrence, and commutes with uniting") are searched here on EVERY Value class that contains other values, with an
occurrence oracle that does not depend on pyanalyze's own traversal (`Value.walk_values` / `extract_typevars`):

* `registry_from_tree()` enumerates, from the live tree, every dataclass field of every Value / Extension class (and of
  the dataclasses reachable from them: Signature, SigParameter, TypedDictEntry, KVPair, Composite, ...) whose annotation
  mentions a value class. `translate` writes it to `Generated/ValueChildren.lean`; `REGISTRY` below (mirrored by the
  pinned `Spec/ValueChildren.lean`) gives every row a status:
    planted  - a child position: the generators plant a type variable there, the laws are demanded
    derived  - recomputed from other fields by the constructor (`SequenceValue.args`, `TypedDictValue.args`, ...)
    notType  - not a type position (default values, callbacks, attribute names, caches)
  The Lean obligations `value_children_registered` (every live row is registered) and `harness_registry_pinned`
  (this table = the pinned one) break when a container field appears upstream or the tables drift.
* `occurrences(v)` is the structural walk: it follows the `planted` rows only (through dataclass fields, tuples, lists,
  dicts) and returns every TypeVarValue with its path of (Class, field) edges.
* `tv_stream(ctx)`: for every planted position P and every outer container O, the values O(P(T)) (alone / with a second
  occurrence elsewhere) are checked for
    walk     set(extract_typevars(v)) == structural occurrences            (pyanalyze's traversal is exhaustive)
    replaces no variable of dom(m) occurs structurally in v[m]
    direct   v[m] == the same value written directly with the substituted type, and uniting the two merges them
    closed   v0[m] == v0 for the variable-free instance v0
    commute  unite(v, w)[m] == unite(v[m], w[m])
  A failure is attributed to the edge where it happens (the first child on the path that pyanalyze's walk does not
  yield / that substitution handed back unchanged), which names its class: `walkValuesOmits<Class><Field>`,
  `substSkips<Class><Field>`.
"""
import dataclasses
import re

from harness.common import lean, pya  # noqa: F401  (pya puts the tree under test on sys.path)

# ------------------------------------------------------------------ the registry
PLANTED, DERIVED, NOTTYPE = "planted", "derived", "notType"
REGISTRY = {
    ("AnnotatedValue", "metadata"): PLANTED,
    ("AnnotatedValue", "value"): PLANTED,
    ("AsyncTaskIncompleteValue", "args"): DERIVED,
    ("AsyncTaskIncompleteValue", "value"): PLANTED,
    ("CallValue", "args"): NOTTYPE,                    # ParamSpec call capture (ActualArguments), not a type position
    ("CallableValue", "signature"): PLANTED,
    ("Composite", "value"): PLANTED,
    ("Composite", "varname"): NOTTYPE,                 # origin bookkeeping
    ("DictIncompleteValue", "args"): DERIVED,
    ("DictIncompleteValue", "kv_pairs"): PLANTED,
    ("GenericValue", "args"): PLANTED,
    ("HasAttrExtension", "attribute_name"): NOTTYPE,
    ("HasAttrExtension", "attribute_type"): PLANTED,
    ("HasAttrGuardExtension", "attribute_name"): NOTTYPE,
    ("HasAttrGuardExtension", "attribute_type"): PLANTED,
    ("KVPair", "key"): PLANTED,
    ("KVPair", "value"): PLANTED,
    ("KnownValueWithTypeVars", "typevars"): NOTTYPE,   # compare=False: a recorded substitution, not part of the value
    ("MultiValuedValue", "_known_subvals"): DERIVED,
    ("MultiValuedValue", "vals"): PLANTED,
    ("NoReturnGuardExtension", "guarded_type"): PLANTED,
    ("OverloadedSignature", "signatures"): PLANTED,
    ("ParameterTypeGuardExtension", "guarded_type"): PLANTED,
    ("SequenceValue", "args"): DERIVED,
    ("SequenceValue", "members"): PLANTED,
    ("SigParameter", "annotation"): PLANTED,
    ("SigParameter", "default"): NOTTYPE,
    ("Signature", "impl"): NOTTYPE,
    ("Signature", "parameters"): PLANTED,
    ("Signature", "return_value"): PLANTED,
    ("SubclassValue", "typ"): PLANTED,
    ("TypeAliasValue", "alias"): NOTTYPE,              # the definition of the alias (compare=False), not an occurrence
    ("TypeAliasValue", "type_arguments"): PLANTED,
    ("TypeGuardExtension", "guarded_type"): PLANTED,
    ("TypeIsExtension", "guarded_type"): PLANTED,
    ("TypeVarValue", "bound"): PLANTED,
    ("TypeVarValue", "constraints"): PLANTED,
    ("TypeVarValue", "default"): NOTTYPE,
    ("TypedDictEntry", "typ"): PLANTED,
    ("TypedDictValue", "args"): DERIVED,
    ("TypedDictValue", "extra_keys"): PLANTED,
    ("TypedDictValue", "items"): PLANTED,
    ("UnboundMethodValue", "composite"): PLANTED,
    ("UnboundMethodValue", "typevars"): NOTTYPE,       # compare=False, as above
    ("UnpackedValue", "value"): PLANTED,
}
MODULES = ("pyanalyze.value", "pyanalyze.signature", "pyanalyze.stacked_scopes")


def fields_of(c):
    """[(name, annotation string)] of a dataclass or NamedTuple class."""
    if dataclasses.is_dataclass(c):
        return [(f.name, f.type if isinstance(f.type, str) else str(f.type)) for f in dataclasses.fields(c)]
    if isinstance(c, type) and issubclass(c, tuple) and hasattr(c, "_fields"):
        ann = getattr(c, "__annotations__", {})
        return [(n, ann[n] if isinstance(ann.get(n), str) else str(ann.get(n))) for n in c._fields]
    return []


def is_record(o):
    return (dataclasses.is_dataclass(o) and not isinstance(o, type)) or (isinstance(o, tuple) and hasattr(o, "_fields"))


def _subclasses(c):
    out = []
    for s in c.__subclasses__():
        out.append(s)
        out += _subclasses(s)
    return out


def registry_from_tree():
    """Sorted (class, field) rows of the live tree: dataclass fields whose annotation mentions a value class, for the
    Value / Extension classes of pyanalyze.value and the dataclasses (of value / signature / stacked_scopes) reachable
    from them through such fields (type aliases such as ConcreteSignature are expanded)."""
    import importlib
    import pyanalyze.value as PV
    mods = [importlib.import_module(m) for m in MODULES]
    by_name, alias = {}, {}
    for m in mods:
        for n, c in vars(m).items():
            if isinstance(c, type):
                if fields_of(c) and c.__module__ == m.__name__:
                    by_name.setdefault(n, c)
            elif n[:1].isupper() and type(c).__module__ == "typing" and "pyanalyze" in str(c):
                alias.setdefault(n, str(c))
    value_classes = [c for r in (PV.Value, PV.Extension) for c in [r] + _subclasses(r)]
    value_names = {c.__name__ for c in value_classes}
    roots = [c for c in value_classes
             if c.__module__ == "pyanalyze.value" and dataclasses.is_dataclass(c) and not c.__name__.startswith("_")]

    def names_of(ts, depth=0):
        names = set(re.findall(r"[A-Za-z_][A-Za-z_0-9]*", ts))
        if depth < 2:
            for n in list(names):
                if n in alias:
                    names |= names_of(alias[n], depth + 1)
        return names

    todo, seen, rows = list(roots), set(), set()
    while todo:
        c = todo.pop()
        if c in seen:
            continue
        seen.add(c)
        for fname, ftype in fields_of(c):
            names = names_of(ftype)
            reach = [by_name[n] for n in names if n in by_name and by_name[n] is not c
                     and not issubclass(by_name[n], (PV.Value, PV.Extension))]
            reach = [r for r in reach if any(names_of(gt) & (value_names | {"Signature", "SigParameter"}) for _, gt in fields_of(r))]
            if names & value_names or reach:
                rows.add((c.__name__, fname))
                if REGISTRY.get((c.__name__, fname)) != NOTTYPE:  # not-a-type-position fields are not followed
                    todo += reach
    return sorted(rows)


def lean_table(name, rows):
    body = ",\n  ".join("(%s)" % ", ".join('"%s"' % x for x in r) for r in rows)
    return "def %s : List (%s) :=\n  [%s]\n" % (name, " × ".join(["String"] * len(rows[0])), body)


def translate(ctx):
    """Generated/ValueChildren.lean: the child fields of the live tree, the harness registry, the planted rows that have a
    planter. The pinned table and the obligations are in Spec/ValueChildren.lean / Props/C14.lean."""
    import os
    live = registry_from_tree()
    reg = sorted((c, f, s) for (c, f), s in REGISTRY.items())
    planters = sorted(_mk())
    text = ("/-! GENERATED by harness/props/c14x.py translate() from the live pyanalyze tree — do not edit.\n"
            "`valueChildren`: every dataclass field of a Value / Extension class (and of the dataclasses reachable from them)\n"
            "whose annotation mentions a value class. `harnessRegistry`: the status table of the harness.\n"
            "`harnessPlanters`: the positions the `tv` stream plants a type variable in. -/\nnamespace Pya\n\n"
            + lean_table("valueChildren", live) + "\n" + lean_table("harnessRegistry", reg) + "\n"
            + lean_table("harnessPlanters", planters) + "\n"
            + "/-- calls of the raw `AnnotatedValue(` constructor / of the normalising `annotate_value(` in pyanalyze/value.py:\n"
              "(enclosing function, callee, number of calls) -/\n" + lean_table("annotatedSites", annotated_sites()) + "\nend Pya\n")
    changed = lean.write_if_changed(os.path.join(lean.LEAN, "PyaModel", "Generated", "ValueChildren.lean"), text)
    ctx.extra["value_children_regenerated"] = {"changed_on_disk": changed, "rows": len(live)}
    return live


# ------------------------------------------------------------------ the structural occurrence oracle
def _status(cls, field):
    for k in cls.__mro__:
        s = REGISTRY.get((k.__name__, field))
        if s is not None and (k is cls or (cls.__name__, field) not in REGISTRY):
            return REGISTRY.get((cls.__name__, field), s)
    return None


def _planted_children(o):
    for name, _ in fields_of(type(o)):
        if _status(type(o), name) == PLANTED:
            yield (type(o).__name__, name), getattr(o, name)


def occurrences(v):
    """[(typevar, path, chain)] for every TypeVarValue reachable through planted rows; path = ((Class, field), ...) and
    chain = the record objects owning those edges (chain[0] is v)."""
    from pyanalyze.value import TypeVarValue
    out = []

    def walk(o, path, chain, stack):
        if isinstance(o, TypeVarValue):
            out.append((o.typevar, tuple(path), tuple(chain) + (o,)))
        if is_record(o):
            if id(o) in stack:
                return
            stack = stack | {id(o)}
            for edge, child in _planted_children(o):
                walk(child, path + [edge], chain + [o], stack)
        elif isinstance(o, dict):
            for k, x in o.items():
                walk(k, path, chain, stack)
                walk(x, path, chain, stack)
        elif isinstance(o, (list, tuple, set, frozenset)):
            for x in o:
                walk(x, path, chain, stack)

    walk(v, [], [], frozenset())
    return out


def typevars_in(v):
    return {t for t, _, _ in occurrences(v)}


def cls_name(prefix, edge):
    if edge is None:
        return None
    c, f = edge
    if prefix == "walkValuesOmits" and (c, f) == ("TypedDictValue", "extra_keys"):
        return "walkValuesOmitsExtraKeys"
    return prefix + c + "".join(p.capitalize() for p in f.strip("_").split("_"))


def walk_omission_class(v, missing):
    """Class of a walk_values omission: on the path to a missing variable, the first edge whose child Value is not yielded
    by walk_values (by identity): the owner of that edge is the class whose walk_values leaves the child out."""
    from pyanalyze.value import Value
    yielded = {id(x) for x in v.walk_values()}
    for tv, path, chain in occurrences(v):
        if tv not in missing:
            continue
        owner = None  # the last yielded Value above the first non-yielded one
        for i, node in enumerate(chain):
            if isinstance(node, Value) and id(node) not in yielded:
                # edge from the nearest enclosing *Value* that was yielded
                j = i - 1
                while j > 0 and not (isinstance(chain[j], Value) and id(chain[j]) in yielded):
                    j -= 1
                return cls_name("walkValuesOmits", path[j] if j < len(path) else path[-1])
        return cls_name("walkValuesOmits", path[-1] if path else None)
    return None


def subst_skip_class(v, m, dom):
    """Class of an occurrence that survives v[m]: on the path to an occurrence of a mapped variable, the deepest record N
    with its own substitute_typevars such that the variable still occurs in N[m] (everything below N substitutes
    correctly on its own): class = N's class with the edge towards the occurrence. Over all occurrences the deepest such
    N wins (an enclosing value keeps the variable merely because a member does)."""
    best = None
    cache = {}
    for tv, path, chain in occurrences(v):
        if tv not in dom:
            continue
        for i in range(len(chain) - 1, -1, -1):
            node = chain[i]
            sub = getattr(node, "substitute_typevars", None)
            if sub is None:
                continue
            if id(node) not in cache:
                try:
                    cache[id(node)] = bool(typevars_in(sub(m)) & dom)
                except Exception:
                    cache[id(node)] = False
            if cache[id(node)]:
                edge = path[i] if i < len(path) else (type(node).__name__, "self")
                if best is None or i > best[0]:
                    best = (i, edge)
                break
    return cls_name("substSkips", best[1]) if best else None


# ------------------------------------------------------------------ planters: a value with x at one child position
def _mk():
    from pyanalyze.signature import OverloadedSignature, ParameterKind, SigParameter, Signature
    from pyanalyze.stacked_scopes import Composite
    from pyanalyze import value as PV
    I, S = PV.TypedValue(int), PV.TypedValue(str)

    def sig(p=None, r=None, name="x"):
        return Signature.make([SigParameter(name, ParameterKind.POSITIONAL_ONLY, annotation=p if p is not None else I)],
                              r if r is not None else I)

    def alias(x):
        from typing import TypeVar
        P = _ALIAS_PARAM
        a = PV.TypeAlias(lambda: PV.GenericValue(list, [PV.TypeVarValue(P)]), lambda: [P])
        return PV.TypeAliasValue("A", "m", a, (x,))

    def is_tv_like(x):
        return isinstance(x, (PV.TypeVarValue, PV.TypedValue))

    P = {
        ("GenericValue", "args"): [lambda x: PV.GenericValue(list, [x]), lambda x: PV.GenericValue(dict, [S, x])],
        ("SequenceValue", "members"): [lambda x: PV.SequenceValue(tuple, [(False, I), (False, x)]),
                                       lambda x: PV.SequenceValue(tuple, [(True, x)])],
        ("DictIncompleteValue", "kv_pairs"): [lambda x: PV.DictIncompleteValue(dict, [PV.KVPair(PV.KnownValue("a"), x)])],
        ("KVPair", "key"): [lambda x: PV.DictIncompleteValue(dict, [PV.KVPair(x, I, is_many=True)])],
        ("KVPair", "value"): [lambda x: PV.DictIncompleteValue(dict, [PV.KVPair(PV.KnownValue("a"), x, is_required=False)])],
        ("TypedDictValue", "items"): [lambda x: PV.TypedDictValue({"a": PV.TypedDictEntry(I), "b": PV.TypedDictEntry(x, required=False)})],
        ("TypedDictEntry", "typ"): [lambda x: PV.TypedDictValue({"k": PV.TypedDictEntry(x, readonly=True)})],
        ("TypedDictValue", "extra_keys"): [lambda x: PV.TypedDictValue({"a": PV.TypedDictEntry(I)}, extra_keys=x),
                                           lambda x: PV.TypedDictValue({}, extra_keys=x, extra_keys_readonly=True)],
        ("AsyncTaskIncompleteValue", "value"): [lambda x: PV.AsyncTaskIncompleteValue(list, x)],
        ("CallableValue", "signature"): [lambda x: PV.CallableValue(sig(p=x))],
        ("Signature", "parameters"): [lambda x: PV.CallableValue(Signature.make(
            [SigParameter("a", ParameterKind.POSITIONAL_OR_KEYWORD, annotation=I),
             SigParameter("b", ParameterKind.KEYWORD_ONLY, annotation=x)], S))],
        ("SigParameter", "annotation"): [lambda x: PV.CallableValue(Signature.make(
            [SigParameter("args", ParameterKind.VAR_POSITIONAL, annotation=x)], I))],
        ("Signature", "return_value"): [lambda x: PV.CallableValue(sig(r=x))],
        ("OverloadedSignature", "signatures"): [lambda x: PV.CallableValue(OverloadedSignature([sig(p=S), sig(p=I, r=x)]))],
        ("SubclassValue", "typ"): [lambda x: PV.SubclassValue(x) if is_tv_like(x) else None],
        ("MultiValuedValue", "vals"): [lambda x: PV.MultiValuedValue([PV.KnownValue(None), x])],
        ("AnnotatedValue", "value"): [lambda x: PV.AnnotatedValue(x, [PV.KnownValue("meta")])],
        ("AnnotatedValue", "metadata"): [lambda x: PV.AnnotatedValue(I, [x])],
        ("TypeGuardExtension", "guarded_type"): [lambda x: PV.AnnotatedValue(PV.TypedValue(bool), [PV.TypeGuardExtension(x)])],
        ("TypeIsExtension", "guarded_type"): [lambda x: PV.AnnotatedValue(PV.TypedValue(bool), [PV.TypeIsExtension(x)])],
        ("ParameterTypeGuardExtension", "guarded_type"): [lambda x: PV.AnnotatedValue(I, [PV.ParameterTypeGuardExtension("x", x)])],
        ("NoReturnGuardExtension", "guarded_type"): [lambda x: PV.AnnotatedValue(I, [PV.NoReturnGuardExtension("x", x)])],
        ("HasAttrGuardExtension", "attribute_type"): [lambda x: PV.AnnotatedValue(I, [PV.HasAttrGuardExtension("x", PV.KnownValue("a"), x)])],
        ("HasAttrExtension", "attribute_type"): [lambda x: PV.AnnotatedValue(I, [PV.HasAttrExtension(PV.KnownValue("a"), x)])],
        ("TypeVarValue", "bound"): [lambda x: PV.TypeVarValue(_U, bound=x)],
        ("TypeVarValue", "constraints"): [lambda x: PV.TypeVarValue(_U, constraints=(I, x))],
        ("UnpackedValue", "value"): [lambda x: PV.UnpackedValue(x)],
        ("TypeAliasValue", "type_arguments"): [alias],
        ("UnboundMethodValue", "composite"): [lambda x: PV.UnboundMethodValue("f", Composite(x))],
        ("Composite", "value"): [lambda x: PV.UnboundMethodValue("g", Composite(x, None))],
    }
    return P


from typing import TypeVar as _TypeVar  # noqa: E402

_T, _U, _ALIAS_PARAM = _TypeVar("_T"), _TypeVar("_U"), _TypeVar("_P")
PLANTERS = {k: None for k, s in REGISTRY.items() if s == PLANTED}  # keys only; the builders come from _mk() (needs the tree)

OUTERS = ["bare", "callable-param", "callable-return", "generic", "sequence", "typeddict-item", "typeddict-extra",
          "annotated-value", "annotated-metadata", "union", "dictinc-value", "typevar-bound", "subclass", "overload"]


def outer(kind, x, P):
    from pyanalyze import value as PV
    if kind == "bare":
        return x
    key = {"callable-param": ("CallableValue", "signature"), "callable-return": ("Signature", "return_value"),
           "generic": ("GenericValue", "args"), "sequence": ("SequenceValue", "members"),
           "typeddict-item": ("TypedDictValue", "items"), "typeddict-extra": ("TypedDictValue", "extra_keys"),
           "annotated-value": ("AnnotatedValue", "value"), "annotated-metadata": ("AnnotatedValue", "metadata"),
           "union": ("MultiValuedValue", "vals"), "dictinc-value": ("KVPair", "value"),
           "typevar-bound": ("TypeVarValue", "bound"), "subclass": ("SubclassValue", "typ"),
           "overload": ("OverloadedSignature", "signatures")}[kind]
    if kind == "annotated-value" and isinstance(x, PV.AnnotatedValue):
        return None
    return P[key][0](x)


def build_cases(rng, n_random):
    """(description, build(x)) for every planted position under every outer container; build(x) puts x at the position."""
    P = _mk()
    missing = sorted(k for k in PLANTERS if k not in P)
    cases = []
    for pos in sorted(P):
        for bi, b in enumerate(P[pos]):
            for o in OUTERS:
                cases.append(("%s.%s#%d in %s" % (pos[0], pos[1], bi, o), (lambda x, b=b, o=o: None if b(x) is None else outer(o, b(x), P))))
    return cases, missing


def tv_stream(ctx, only=None):
    from pyanalyze import value as PV
    from pyanalyze.value import extract_typevars, unite_values
    T, U = _T, _U
    tv = lambda: PV.TypeVarValue(T)  # noqa: E731
    repl = [PV.TypedValue(str), PV.GenericValue(list, [PV.TypedValue(int)]), PV.KnownValue(1)]
    cases, missing = build_cases(ctx.rng, 0)
    for k in missing:
        ctx.obligation_broken("planter for %s.%s" % k, "a registered child position has no planter in harness/props/c14x.py")
    n = 0
    for desc, build in cases:
        if only is not None and desc not in only:
            continue
        for mode in ("alone", "nested", "elsewhere"):
            for ri, rv in enumerate(repl if ctx.big() else repl[:1]):
                def inst(leaf, mode=mode, build=build):
                    x = leaf if mode != "nested" else PV.GenericValue(list, [leaf])
                    v = build(x)
                    if v is None:
                        return None
                    if mode == "elsewhere":
                        v = PV.SequenceValue(tuple, [(False, leaf), (False, v)])
                    return v
                try:
                    v = inst(tv())
                except Exception as e:
                    ctx.tag("tv_unbuildable")
                    continue
                if v is None:
                    continue
                n += 1
                ctx.count(1, tv=1)
                ctx.nontriv("tv|%s|%s|%d" % (desc, mode, ri))
                case = {"tv": desc, "mode": mode, "repl": str(rv), "value": str(v)[:300]}
                m = {T: rv}
                dom = {T}

                def cand(what, law, cls):
                    ctx.candidate(dict(case, law=law), what, cls=cls, conforms=True, stream="law-" + law)

                try:
                    st = typevars_in(v)
                    wk = set(extract_typevars(v))
                    if st != wk:
                        missing_tv = st - wk
                        cand("extract_typevars (walk_values) finds %s, the structural walk %s" % (
                            sorted(t.__name__ for t in wk), sorted(t.__name__ for t in st)), "tv-walk",
                            walk_omission_class(v, missing_tv) if missing_tv else None)
                    r = v.substitute_typevars(m)
                    left = typevars_in(r) & dom
                    skip_cls = subst_skip_class(v, m, dom)
                    if left:
                        cand("a mapped type variable survives substitute_typevars (structural walk of the result)", "subst-replaces", skip_cls)
                    direct = inst(rv)
                    if direct is not None:
                        if not (r == direct):
                            cand("v[T := X] != the same value written with X", "subst-direct", skip_cls)
                        elif not PV.is_union(r):
                            u = unite_values(r, inst(rv))
                            if not (u == direct):
                                cand("v[T := X] and the value written with X are == but uniting them does not give that value", "subst-merge", skip_cls)
                    closed = inst(PV.TypedValue(bytes))
                    if closed is not None:
                        if typevars_in(closed) & dom:
                            pass
                        elif not (closed.substitute_typevars(m) == closed):
                            cand("substitute_typevars changed a value in which no mapped variable occurs", "subst-closed", None)
                    w = PV.KnownValue(None)
                    lhs = unite_values(inst(tv()), w).substitute_typevars(m)
                    rhs = unite_values(inst(tv()).substitute_typevars(m), w.substitute_typevars(m))
                    if not (lhs == rhs):
                        cand("substitution does not commute with uniting on this value", "subst-unite", skip_cls)
                except Exception as e:
                    cand("exception in the type-variable laws: %r" % (e,), "total", None)
    ctx.tag("tv_values", n)


# ------------------------------------------------------------------ Annotated with real metadata: construction routes
def annotated_sites():
    """(enclosing function, callee, number of calls) for every call of the raw `AnnotatedValue(` constructor and of the
    normalising helper `annotate_value(` in pyanalyze/value.py (the tree under test)."""
    import ast
    import os
    import pyanalyze.value as PV
    src = open(os.path.splitext(PV.__file__)[0] + ".py").read()
    tree = ast.parse(src)
    rows = {}

    def visit(node, qual):
        for ch in ast.iter_child_nodes(node):
            q = qual
            if isinstance(ch, (ast.FunctionDef, ast.AsyncFunctionDef, ast.ClassDef)):
                q = (qual + "." if qual else "") + ch.name
            if isinstance(ch, ast.Call) and isinstance(ch.func, ast.Name) and ch.func.id in ("AnnotatedValue", "annotate_value"):
                rows[(qual or "<module>", ch.func.id)] = rows.get((qual or "<module>", ch.func.id), 0) + 1
            visit(ch, q)

    visit(tree, "")
    return sorted((f, c, str(n)) for (f, c), n in rows.items())


def _struct_nodes(v):
    out = []

    def walk(o, stack):
        if is_record(o):
            if id(o) in stack:
                return
            out.append(o)
            for _, child in _planted_children(o):
                walk(child, stack | {id(o)})
        elif isinstance(o, dict):
            for x in o.values():
                walk(x, stack)
        elif isinstance(o, (list, tuple, set, frozenset)):
            for x in o:
                walk(x, stack)

    walk(v, frozenset())
    return out


def annotated_illformed(v):
    """None, or why: an AnnotatedValue directly inside an AnnotatedValue / a repeated metadata item (structural walk)."""
    from pyanalyze.value import AnnotatedValue
    for n in _struct_nodes(v):
        if isinstance(n, AnnotatedValue):
            if isinstance(n.value, AnnotatedValue):
                return "Annotated directly inside Annotated: %s" % (n,)
            md = list(n.metadata)
            for i in range(len(md)):
                for j in range(i + 1, len(md)):
                    try:
                        if md[i] == md[j]:
                            return "repeated metadata item in %s" % (n,)
                    except Exception:
                        pass
    return None


def ann_stream(ctx):
    """AnnotatedValue with distinct metadata items around type variables, unions and unions with annotated alternatives:
    the constructor route MultiValuedValue(vals) against unite_values(*vals) (same members), well-formedness of every
    result (no Annotated in Annotated, no repeated metadata), substitution commuting with uniting (as member sets)."""
    import itertools
    from pyanalyze import value as PV
    from pyanalyze.value import AnnotatedValue, MultiValuedValue, TypedValue, TypeVarValue, annotate_value, flatten_values, unite_values
    T = _T
    m1, m2, m3 = PV.AlwaysPresentExtension(), PV.DeprecatedExtension("old"), PV.KnownValue("meta")
    I, S, B = TypedValue(int), TypedValue(str), TypedValue(bytes)
    tv = TypeVarValue(T)

    def ann(x, *ms):
        return annotate_value(x, ms)

    pool = [I, S, tv, ann(I, m1), ann(S, m2), ann(tv, m2), ann(tv, m1, m2), ann(I, m1, m3),
            MultiValuedValue([I, S]), MultiValuedValue([ann(I, m1), S]), MultiValuedValue([ann(tv, m2), S]),
            MultiValuedValue([tv, ann(B, m1)]), ann(MultiValuedValue([I, S]), m2), ann(MultiValuedValue([tv, B]), m1),
            ann(MultiValuedValue([ann(I, m1), S]), m2), ann(MultiValuedValue([ann(tv, m2), B]), m2),
            PV.GenericValue(list, [ann(tv, m2)]), PV.GenericValue(list, [MultiValuedValue([ann(tv, m2), S])])]
    maps = [I, ann(I, m1), MultiValuedValue([I, ann(S, m1)]), MultiValuedValue([ann(I, m1), S]), MultiValuedValue([ann(I, m2), S]),
            ann(MultiValuedValue([I, S]), m1), ann(MultiValuedValue([I, S]), m2), MultiValuedValue([ann(I, m1, m2), ann(S, m2)])]

    def members(v):
        return list(flatten_values(v))

    def same_members(a, b):
        xs, ys = members(a), members(b)
        return all(any(x == y for y in ys) for x in xs) and all(any(x == y for x in xs) for y in ys)

    def check(case, what, v, cls=None):
        bad = annotated_illformed(v)
        if bad:
            ctx.candidate(dict(case, law="annotated-normal"), "%s: %s" % (what, bad), cls=cls, conforms=True, stream="law-annotated-normal")

    n = 0
    lists = [list(p) for p in itertools.permutations(pool, 2)] + [[a, b, c] for a in pool[3:8] for b in pool[8:13] for c in pool[13:16]]
    if not ctx.big():
        lists = lists[::2]
    for vals in lists:
        n += 1
        ctx.count(1, ann=1)
        case = {"ann": [str(v) for v in vals]}
        ctx.nontriv("ann|" + "|".join(case["ann"]))
        try:
            ctor, uni = MultiValuedValue(vals), unite_values(*vals)
            check(case, "MultiValuedValue(vals)", ctor)
            check(case, "unite_values(*vals)", uni)
            if not same_members(ctor, uni):
                ctx.candidate(dict(case, law="route"), "MultiValuedValue(vals) and unite_values(*vals) have different members: %s vs %s" % (ctor, uni),
                              cls=None, conforms=True, stream="law-route")
            if len(vals) == 2 and (typevars_in(vals[0]) or typevars_in(vals[1])):
                for rv in maps:
                    m = {T: rv}
                    c2 = dict(case, tvmap=str(rv))
                    lhs = unite_values(*vals).substitute_typevars(m)
                    svals = [v.substitute_typevars(m) for v in vals]
                    rhs = unite_values(*svals)
                    # AnnotatedValue.substitute_typevars rebuilds itself with the raw constructor: when the variable is
                    # replaced by an annotated value the result is Annotated-in-Annotated / repeats metadata. A failure is
                    # put in that class only if the substitution of an annotated member ALONE is already ill-formed.
                    parts = [x for v in list(vals) + [uni] for x in _struct_nodes(v) if isinstance(x, AnnotatedValue)]
                    scls = "annotatedSubstNotNormalised" if any(annotated_illformed(x.substitute_typevars(m)) for x in parts) else None
                    check(c2, "subst(unite)", lhs, scls)
                    check(c2, "unite(subst)", rhs, scls)
                    if not same_members(lhs, rhs):
                        ctx.candidate(dict(c2, law="subst-unite-members"), "subst(unite(a, b)) and unite(subst a, subst b) have different members: %s vs %s" % (lhs, rhs),
                                      cls=scls, conforms=True, stream="law-subst-unite-members")
                    # the constructor route after substitution
                    c3 = MultiValuedValue(svals)
                    check(c2, "MultiValuedValue(subst vals)", c3, scls)
                    if not same_members(c3, rhs):
                        ctx.candidate(dict(c2, law="route"), "MultiValuedValue(subst vals) and unite_values(subst vals) have different members",
                                      cls=scls, conforms=True, stream="law-route")
        except Exception as e:
            ctx.candidate(dict(case, law="total"), "exception in the Annotated laws: %r" % (e,), cls=None, conforms=True, stream="law-total")
    ctx.tag("ann_lists", n)
