"""C15 — type-variable solutions satisfy the bounds they were solved from; the verdict is order-independent.

Streams
  solve    : resolve_bounds_map({T: bounds}) on generated multisets of LowerBound / UpperBound / IsOneOf (/ OrBound) over static
             values, in EVERY distinct permutation, decoded structurally          vs Lean `resolve (leCa liveTable) joinU`
  sat      : the three parts of the property evaluated with the real is_assignable on the real solution
                                                                                   vs Lean `satLower/satUpper/satOneOf` (spec side)
  abstract : the same solver run over a synthetic universe (mock Values whose mutual assignability is a random 0/1 matrix,
             mostly NOT a preorder)                                                vs Lean `resolve` over a synthetic class table
  gen      : TypeVarValue(bound, constraints).can_assign(v) / .can_be_assigned(v) (bound generation + make_bounds_map)
                                                                                   vs Lean `TV.accepts` / `TV.acceptedBy`
  gen      : … also against another TypeVarValue (equal / different variable, each with bound or constraints)
  e2e      : generic functions in a checked module, called with argument tuples in every (parameter, argument) order
             (positionally, by keyword in reversed order, keyword-only, with defaults); the bounds collected by
             Signature.check_call_with_bound_args are recorded (call-level resolve_bounds_map), fed to the Lean model, and the
             solution compared
  e2e-bounds: the recorded bounds of each type variable  vs  the bounds predicted from the declared parameter / argument types
             alone (lower bound per argument in parameter order, then the declared bound / constraints)
  e2e-call : for signatures whose parameters are plain type variables: call accepted  vs  predicted from the Lean model
             (every argument alone solvable, all bounds solvable, the solution accepts every argument)
  gram, gram-bounds, gram-call, gram-meta : generic signatures built from a grammar (1-3 parameters, each a term over T / bounded K /
             V / constrained AS, list[.], Sequence[.], dict[.,.], tuple[.,.], tuple[., ...], Callable[[.], .], Optional[.], . | None;
             a type variable may occur several times inside ONE parameter; return annotation None / int / T / list[T] / a type
             variable of no parameter), arguments built structurally so that the occurrences agree or conflict. Oracle independent
             of the call path: every argument is assigned to its parameter annotation (Value.can_assign), the bounds maps are
             unified in parameter order and handed to the Lean `solveCall` (unify, solve ONCE over the union). Compared: the
             bounds of the call-level solve (and that it happened at all), its solution, "a parameter rejects / the model finds
             no solution => diagnosed", and the metamorphic pair f(p: tuple[a, b]) called with (x, y)  ==  g(p0: a, p1: b) called
             with x, y (theorem solveCall_grouping: the verdict depends on the sequence of leaf bounds, not on their grouping)
Property search on the implementation (independent evaluation: the harness, not the solver, checks the solution with
is_assignable against every bound it was given):
  lower / upper / oneof : accepted  =>  the solution accepts every lower bound / is accepted by every upper bound / is one of
                          the constraints (or Any)
  unsat                 : no value satisfies the collected bounds (`specOk` = 0)  =>  the call is diagnosed
  order                 : the verdict (accepted / diagnosed) is the same in every permutation of the bounds; end to end: the
                          same in every order of the (parameter, argument) pairs
A failing input is classified by the exception classes the Lean driver computes from the definitions the `_partial` theorems
exclude (`D15_twoUppers`, `D15_oneOfUpper`, `D15_nonTransitive`; `anyUpper` was repaired in /repo); a class only explains failures of the
kinds its theorem speaks about.
"""
import itertools, json, os

from harness.common import lean, pya, values as V, gen_values as G
from harness.props.c03 import subterms, totuple, translate  # noqa: F401  (translate regenerates Generated/ClassTable.lean)
from harness.props.c04 import unmodelled

PROP = "C15"
LEAN_PROP = "PyaModel.Props.C15"
NAMESPACE = "Pya.C15"
LEAN_TARGETS = ["PyaModel.Core.Sexp", "PyaModel.Spec.TypeVarSpec", "PyaModel.Generated.ClassTable"]
ANCHORS = [
    ("pyanalyze/typevar.py", "solve"),
    ("pyanalyze/typevar.py", "resolve_bounds_map"),
    ("pyanalyze/typevar.py", "remove_redundant_solutions"),
    ("pyanalyze/value.py", "TypeVarValue.can_assign"),
    ("pyanalyze/value.py", "TypeVarValue.can_be_assigned"),
    ("pyanalyze/value.py", "TypeVarValue.make_bounds_map"),
    ("pyanalyze/value.py", "TypeVarValue.get_inherent_bounds"),
    ("pyanalyze/value.py", "unify_bounds_maps"),
    ("pyanalyze/value.py", "Value.can_assign"),
    ("pyanalyze/value.py", "unite_values"),
    ("pyanalyze/signature.py", "Signature.check_call_with_bound_args"),
]
RULE = (
    "multisets of 0..5 bounds (lower / upper / at most one distinct constraint list, occasionally an OrBound or an exact "
    "duplicate) over a pool of static values (classes incl. a diamond hierarchy, literals, unions, list[...] / Sequence[...], "
    "tuple forms, NewType, Never) mixed with 'gradual' ones (Any, list[Any], bare list) and seeded random value terms; all "
    "multisets of <= 2 bounds over a 14-value pool and all of 3 bounds over a 9-value pool exhaustively, then seeded random "
    "ones; every multiset is solved in EVERY distinct permutation (<= 120). abstract: random relations on 4-5 mock values. "
    "e2e: 23 generic signature shapes (T, list[T], Sequence[T], dict[K, V], Callable[[T], U], bounded, constrained; returning T or "
    "None; plain, defaulted and keyword-only parameters) x argument tuples from a pool of 30 typed variables, literals and functions, "
    "every (parameter, argument) order, a third of the calls by keyword in reversed order. gram: 14 fixed parameter lists with several occurrences of a type variable inside one parameter x 5 return annotations, then "
    "seeded random signatures from the grammar of the module docstring, each also with reversed parameters and with its tuple "
    "parameters spread over several parameters. non-trivial = at least two bounds "
    "that are not exact duplicates; distinct by bound text"
)
ASSUMPTIONS = [
    "assignability is taken from pyanalyze itself (Value.is_assignable with a default Checker): the property is about the solver, "
    "the soundness of is_assignable is C04; the model instantiates the abstract relation with the shared model `ca liveTable false`",
    "the property's 'when no such value exists the call is diagnosed' follows from the first half (an accepted call's solution is "
    "itself such a value); a diagnosis of a satisfiable set is not counted as a violation (the theorem solve_error_iff_partial is stronger)",
    "bounds whose values contain type variables, ParamSpec variables and the contents of OrBound are outside the model; more than "
    "one distinct constraint list per type variable cannot arise from a declaration and is only used in the correspondence streams",
    "hash(a) == hash(b) is modelled structurally (no accidental collisions); the harness builds a fresh Value per bound occurrence",
]
TRUSTED = [
    "Spec/TypeVarSpec.lean (Sat / specOk) has no external system to be validated against; its executable parts are compared "
    "with the harness's own evaluation of the property on the real solution (stream sat)",
]

INT, STR, BOOL, FLOAT, OBJ, NONE, BYTES = (("typed", c) for c in (G.INT, G.STR, G.BOOL, G.FLOAT, 0, G.NONE, G.BYTES))
A_, B_, C_, D_ = (("typed", V.CID[c]) for c in (V.U.A, V.U.B, V.U.Cc, V.U.D))
ANY, NEVER = ("any",), ("union", [])
LIT1, LITT, LITA = ("known", ("int", 1)), ("known", ("bool", 1)), ("known", ("str", "a"))


def lst(t):
    return ("generic", G.LIST, [t])


POOL_SMALL = [INT, STR, BOOL, OBJ, LIT1, LITA, A_, B_, lst(INT), lst(ANY), ("typed", G.LIST), ("union", [INT, STR]), ANY, NEVER]
POOL_TINY = [INT, STR, BOOL, OBJ, LIT1, LITT, ("union", [INT, STR]), ANY, ("typed", G.LIST)]
POOL = POOL_SMALL + [
    FLOAT, NONE, BYTES, C_, D_, LITT, lst(STR), lst(BOOL), ("generic", G.SEQUENCE, [INT]), ("generic", G.SEQUENCE, [STR]),
    ("union", [INT, NONE]), ("union", [STR, BYTES]), ("union", [B_, C_]), ("seq", G.TUPLE, [INT, STR]), ("newtype", 0, G.INT),
    ("generic", G.DICT, [STR, INT]), ("typed", G.DICT), lst(lst(ANY)), ("subclass", G.INT), ("annotated", INT),
]
CONSTRAINT_LISTS = [[INT, STR], [STR, BYTES], [INT, FLOAT], [BOOL, INT], [INT, STR, OBJ], [A_, B_], [lst(INT), lst(STR)], [INT],
                    [LIT1, STR], [INT, ANY]]


# ------------------------------------------------------------------ bound terms
# ("L", ty) ("U", ty) ("O", [tys]) ("R", [[bounds], ...])
def bound_sexp(b):
    k = b[0]
    if k in ("L", "U"):
        return "(%s %s)" % (k, V.ty_sexp(b[1]))
    if k == "O":
        return "(" + " ".join(["O"] + [V.ty_sexp(t) for t in b[1]]) + ")"
    if k == "R":
        return "(" + " ".join(["R"] + ["(" + " ".join(bound_sexp(x) for x in bs) + ")" for bs in b[1]]) + ")"
    raise ValueError(b)


def bounds_text(bs):
    return " ".join(bound_sexp(b) for b in bs)


def bound_values(b):
    if b[0] in ("L", "U"):
        return [b[1]]
    if b[0] == "O":
        return list(b[1])
    return []


class Universe:
    """How value terms become Values. The default universe is the class universe of harness/common/values.py; a mock
    universe maps `typed i` to a mock Value whose assignability to the other mocks is a given 0/1 matrix."""

    def __init__(self, tab=None):
        self.tab = tab
        if tab is not None:
            from dataclasses import dataclass
            from pyanalyze import value as PV

            @dataclass(frozen=True)
            class MockValue(PV.Value):
                idx: int

                def can_assign(self, other, ctx):
                    if isinstance(other, MockValue):
                        return {} if tab[self.idx][other.idx] else PV.CanAssignError("mock %d <- %d" % (self.idx, other.idx))
                    return super().can_assign(other, ctx)

                def __str__(self):
                    return "M%d" % self.idx

            self.Mock = MockValue

    def value(self, t):
        if self.tab is None:
            return V.ty_to_value(t)
        from pyanalyze import value as PV
        k = t[0]
        if k == "typed":
            return self.Mock(t[1])
        if k == "any":
            return PV.AnyValue(PV.AnySource.explicit)
        if k == "union":
            return PV.NO_RETURN_VALUE if not t[1] else PV.MultiValuedValue([self.value(x) for x in t[1]])
        raise ValueError(t)

    def decode(self, v):
        if self.tab is None:
            return V.value_to_ty(v)
        from pyanalyze import value as PV
        if isinstance(v, self.Mock):
            return ("typed", v.idx)
        if isinstance(v, PV.AnyValue):
            return ("any",)
        if isinstance(v, PV.MultiValuedValue):
            return ("union", [self.decode(x) for x in v.vals])
        raise V.Unencodable(v)

    def prefix(self, op):
        if self.tab is None:
            return op
        return "a%s (M %s)" % (op, " ".join("".join("1" if x else "0" for x in row) for row in self.tab))

    def bound(self, b):
        from pyanalyze import value as PV
        T = V.TYPEVARS[0]
        k = b[0]
        if k == "L":
            return PV.LowerBound(T, self.value(b[1]))
        if k == "U":
            return PV.UpperBound(T, self.value(b[1]))
        if k == "O":
            return PV.IsOneOf(T, tuple(self.value(t) for t in b[1]))
        if k == "R":
            return PV.OrBound(tuple(tuple(self.bound(x) for x in bs) for bs in b[1]))
        raise ValueError(b)


def decode_bound(b, uni=None):
    from pyanalyze import value as PV
    dec = (uni or Universe()).decode
    if isinstance(b, PV.LowerBound):
        return ("L", dec(b.value))
    if isinstance(b, PV.UpperBound):
        return ("U", dec(b.value))
    if isinstance(b, PV.IsOneOf):
        return ("O", [dec(c) for c in b.constraints])
    if isinstance(b, PV.OrBound):
        return ("R", [[decode_bound(x, uni) for x in bs] for bs in b.bounds])
    raise V.Unencodable(b)


def show_result(uni, sol, errors, objs=()):
    """Canonical text of what resolve_bounds_map returned for T, in the driver's format. An `Any` solution is tagged
    `value` when it is (identically) one of the bound values, else by its AnySource."""
    from pyanalyze import value as PV
    if errors:
        e = errors[0]
        return "errBounds" if getattr(e, "message", "") == "Incompatible bounds on type variable" else "errOptions"
    try:
        t = uni.decode(sol)
    except V.Unencodable as e:
        return "UNENC:%s" % (e,)
    src = "value"
    if isinstance(sol, PV.AnyValue):
        own = [getattr(o, "value", None) for o in objs] + [c for o in objs for c in getattr(o, "constraints", ())]
        if not any(sol is v for v in own):
            src = {"generic_argument": "generic", "inference": "inference"}.get(sol.source.name, "source:" + sol.source.name)
    return "ok %s %s" % (src, V.ty_sexp(t))


def impl_resolve(uni, checker, objs):
    from pyanalyze.typevar import resolve_bounds_map
    T = V.TYPEVARS[0]
    try:
        tv_map, errors = resolve_bounds_map({T: list(objs)}, checker)
        return tv_map[T], list(errors), None
    except Exception as e:  # noqa: BLE001
        return None, [], "EXC:%s" % type(e).__name__


def parse_report(line):
    """`res=… n=… spec=… sat=… D=…` -> dict"""
    out = {"raw": line}
    if not line.startswith("res="):
        return out
    line, _, tail = line.partition(" leaves=")
    body, _, d = line.rpartition(" D=")
    body, _, sat = body.rpartition(" sat=")
    body, _, spec = body.rpartition(" spec=")
    body, _, n = body.rpartition(" n=")
    out.update(res=body[4:], n=n, spec=spec, sat=sat, D=[] if d == "-" else d.split(","))
    return out


ADMISSIBLE = {
    "lower": ["nonTransitive"],
    "upper": ["twoUppers", "oneOfUpper", "nonTransitive"],
    "oneof": [],
    "order": ["twoUppers", "nonTransitive"],
    "unsat": ["twoUppers", "oneOfUpper", "nonTransitive"],   # the classes solve_error_iff_partial excludes
}


def sampled_perms(bs, k=22):
    """For a multiset too big for all its orders: a deterministic sample that puts every bound whose literal is ==-equal to
    another bound's literal of a different type (1 / True, 0 / False) first, last and just after the 10th position."""
    import random as _random
    n = len(bs)
    rng = _random.Random(n * 7919 + sum(len(bound_sexp(b)) for b in bs))
    base = list(range(n))

    def lit(b):
        return V.obj_to_py(b[1][1]) if b[0] == "L" and b[1][0] == "known" and b[1][1][0] in ("int", "bool", "flt") else None
    special = [i for i in base if lit(bs[i]) is not None and any(
        j != i and lit(bs[j]) is not None and lit(bs[j]) == lit(bs[i]) and type(lit(bs[j])) is not type(lit(bs[i])) for j in base)]
    out, seen = [], set()

    def add(p):
        if tuple(p) not in seen:
            seen.add(tuple(p))
            out.append(tuple(p))
    add(base)
    add(base[::-1])
    for i in special:
        rest = [j for j in base if j != i]
        rng.shuffle(rest)
        add([i] + rest)
        add(rest + [i])
        if n > 10:
            add(rest[:10] + [i] + rest[10:])
    while len(out) < k:
        q = base[:]
        rng.shuffle(q)
        add(q)
    return out


def literal_member_fails(b, sol):
    """Reference membership (type(a) is type(b) and a == b), independent of pyanalyze: a literal lower bound against a solution
    that is a literal or a union of literals. True = the solution does not contain the literal."""
    if b[0] != "L" or b[1][0] != "known":
        return False
    try:
        t = V.value_to_ty(sol)
    except Exception:  # noqa: BLE001
        return False
    if not (t[0] == "known" or (t[0] == "union" and t[1] and all(x[0] == "known" for x in t[1]))):
        return False
    return not G.member(V.obj_to_py(b[1][1]), t)


def distinct_perms(bs):
    if len(bs) > 6:
        return sampled_perms(bs)
    seen, out = set(), []
    for p in itertools.permutations(range(len(bs))):
        key = tuple(bound_sexp(bs[i]) for i in p)
        if key not in seen:
            seen.add(key)
            out.append(p)
    return out


def evaluate(ctx, multisets, with_model=True, uni=None, stream="solve", sample_every=997):
    """multisets: list of lists of bound terms. Solves each in every distinct permutation."""
    from pyanalyze import value as PV
    default_uni = uni or Universe()
    unis = [m[0] if isinstance(m, tuple) else default_uni for m in multisets]
    multisets = [m[1] if isinstance(m, tuple) else m for m in multisets]
    checker = pya.make_checker()
    jobs = []      # (multiset index, perm, bounds in that order)
    for mi, bs in enumerate(multisets):
        for p in distinct_perms(bs):
            jobs.append((mi, p, [bs[i] for i in p]))
    if not jobs:
        return
    reports = None
    if with_model:
        out = lean.run_driver("C15", ["%s %s" % (unis[mi].prefix("resolve"), bounds_text(pb)) for mi, _, pb in jobs])
        reports = [parse_report(l) for l in out]
    pending = []   # candidates waiting for the expensive class: dict(case, what, kind, conforms, cheap, lines)
    by_ms = {}
    objs_of = {}
    for ji, (mi, p, pb) in enumerate(jobs):
        bs = multisets[mi]
        uni = unis[mi]
        if mi not in objs_of:
            objs_of[mi] = [uni.bound(b) for b in bs]   # one fresh Value per bound occurrence, shared by the permutations
        objs = [objs_of[mi][i] for i in p]
        sol, errors, exc = impl_resolve(uni, checker, objs)
        impl = exc or show_result(uni, sol, errors, objs)
        rep = reports[ji] if reports else None
        conforms = True
        kinds = {b[0] for b in pb}
        ctx.count(1, **{"n_bounds_%d" % len(pb): 1, "verdict_" + impl.split(" ")[0].split(":")[0]: 1})
        if len({bound_sexp(b) for b in pb}) >= 2:
            ctx.nontriv(stream + "|" + bounds_text(pb))
        if rep is not None:
            ctx.corr(stream)
            if impl != rep.get("res"):
                conforms = False
                ctx.disagree(stream, {"stream": stream, "bounds": pb, "text": bounds_text(pb), "tab": uni.tab}, impl, rep["raw"])
        if ji % sample_every == 0:
            ctx.sample({"stream": stream, "bounds": bounds_text(pb), "impl": impl, "model": rep["raw"] if rep else None})
        st = by_ms.setdefault(mi, {"ok": None, "err": None})
        ok = impl.startswith("ok ")
        slot = "ok" if ok else "err" if impl.startswith("err") else None
        if slot and st[slot] is None:
            st[slot] = (pb, conforms, rep["D"] if rep and "D" in rep else [], impl)
        if exc:
            ctx.candidate({"stream": stream, "bounds": pb, "text": bounds_text(pb), "tab": uni.tab}, "resolve_bounds_map raised %s" % exc,
                          cls=None, conforms=conforms, stream=stream)
            continue
        if not ok:
            continue
        # ---- the property, evaluated on the implementation's own solution with the real is_assignable
        fails = []
        lo = up = oo = True
        for b, o in zip(pb, objs):
            if b[0] == "L" and uni.tab is None and literal_member_fails(b, sol):
                fails.append(("lower", "the solution %s does not contain the literal lower bound %s (reference membership)" % (sol, o.value)))
            if b[0] == "L" and not sol.is_assignable(o.value, checker):
                lo = False
                fails.append(("lower", "the solution %s does not accept the lower bound %s" % (sol, o.value)))
            elif b[0] == "U" and not o.value.is_assignable(sol, checker):
                up = False
                fails.append(("upper", "the solution %s is not accepted by the upper bound %s" % (sol, o.value)))
            elif b[0] == "O" and not (isinstance(sol, PV.AnyValue) or any(sol == c for c in o.constraints)):
                oo = False
                fails.append(("oneof", "the solution %s is not one of the constraints %s" % (sol, ", ".join(map(str, o.constraints)))))
        if rep is not None and conforms and rep.get("sat", "-") != "-":
            ctx.corr("sat")
            bits = "".join("1" if x else "0" for x in (lo, up, oo))
            if bits != rep["sat"]:
                ctx.disagree("sat", {"stream": stream, "bounds": pb, "text": bounds_text(pb), "tab": uni.tab}, "sat=" + bits, rep["raw"])
        seen_kinds = set()
        for kind, what in fails:
            if kind in seen_kinds:
                continue
            seen_kinds.add(kind)
            ctx.tag("fail_" + kind)
            case = {"stream": stream, "bounds": pb, "text": bounds_text(pb), "kind": kind, "solution": impl, "tab": uni.tab}
            pending.append(dict(case=case, what=what, kind=kind, conforms=conforms, cheap=rep["D"] if rep and "D" in rep else [],
                                perms=[pb], uni=uni))
    for mi, st in by_ms.items():
        uni = unis[mi]
        if st["ok"] is not None and st["err"] is not None:
            ctx.tag("fail_order")
            (pb1, c1, d1, i1), (pb2, c2, d2, i2) = st["ok"], st["err"]
            case = {"stream": stream, "bounds": pb1, "text": bounds_text(pb1), "kind": "order", "other_order": bounds_text(pb2),
                    "bounds2": pb2, "verdicts": [i1, i2], "tab": uni.tab}
            pending.append(dict(case=case, what="accepted in the order [%s] (%s) but diagnosed in the order [%s]" % (
                bounds_text(pb1), i1, bounds_text(pb2)), kind="order", conforms=c1 and c2, cheap=sorted(set(d1) | set(d2)),
                perms=[pb1, pb2], uni=uni))
    classify(ctx, pending, with_model, default_uni, stream)


def classify(ctx, pending, with_model, uni, stream):
    """Attach the exception class: a cheap class when one explains the failure kind, else ask the driver for the full list."""
    need = []
    for c in pending:
        adm = ADMISSIBLE[c["kind"]]
        c["cls"] = next((k for k in adm if k in c["cheap"]), None)
        if c["cls"] is None and with_model and "nonTransitive" in adm:
            need.append(c)
    if need:
        lines, owner = [], []
        for c in need:
            for pb in c["perms"]:
                lines.append("%s %s" % (c.get("uni", uni).prefix("d15"), bounds_text(pb)))
                owner.append(c)
        out = lean.run_driver("C15", lines)
        for c, l in zip(owner, out):
            if l.startswith("D=") and "nonTransitive" in l[2:].split(","):
                c["cls"] = "nonTransitive"
    for c in pending:
        ctx.candidate(c["case"], c["what"], cls=c["cls"], conforms=c["conforms"], stream=stream + "-" + c["kind"])


# ------------------------------------------------------------------ generators
def risky(vals):
    """value-dependent protocol region of the shared `ca` model (harness/props/c04.py: unmodelled)"""
    return any(unmodelled(a, b) for a in vals for b in vals)


def clean(t):
    t = G.norm_term(t)
    return None if t[0] == "many" else t


def exhaustive_multisets():
    out = [[]]
    singles = [(k, v) for k in ("L", "U") for v in POOL_SMALL] + [("O", cs) for cs in CONSTRAINT_LISTS[:4]]
    out += [[b] for b in singles]
    out += [list(c) for c in itertools.combinations_with_replacement(singles, 2)]
    tiny = [(k, v) for k in ("L", "U") for v in POOL_TINY] + [("O", [INT, STR]), ("O", [BOOL, INT, OBJ])]
    out += [list(c) for c in itertools.combinations_with_replacement(tiny, 3)]
    return [m for m in out if sum(1 for b in m if b[0] == "O") <= 1 or len({bound_sexp(b) for b in m if b[0] == "O"}) == 1]


def random_value(rng, pool):
    r = rng.random()
    if r < 0.75:
        return rng.choice(pool)
    for _ in range(10):
        t = clean(G.gen_ty(rng, rng.choice([1, 1, 2]), allow_any=rng.random() < 0.2))
        if t is not None:
            return t
    return INT


_REL = {}


def pool_relation():
    """is_assignable on the pool (computed once): used only to *bias* the generator towards satisfiable multisets"""
    if not _REL:
        ck = pya.make_checker()
        vals = [V.ty_to_value(t) for t in POOL]
        for i, a in enumerate(vals):
            for j, b in enumerate(vals):
                try:
                    _REL[i, j] = b.is_assignable(a, ck)   # POOL[i] may be assigned to POOL[j]
                except Exception:  # noqa: BLE001
                    _REL[i, j] = False
    return _REL


def random_multiset(rng, maxn, malformed=False):
    n = rng.choice([k for k in (2, 3, 3, 3, 4, 4, 4, 5) if k <= maxn])
    # a multiset draws from a small sub-pool so that comparable / equal / incomparable values meet often
    sub = [random_value(rng, POOL) for _ in range(rng.choice([2, 3, 3, 4]))]
    lo_pool = up_pool = sub
    if rng.random() < 0.6:
        # around a pivot: lower bounds mostly from below it, upper bounds mostly from above it
        rel = pool_relation()
        p = rng.randrange(len(POOL))
        below = [POOL[i] for i in range(len(POOL)) if rel[i, p] and POOL[i] != ANY]
        above = [POOL[j] for j in range(len(POOL)) if rel[p, j] and POOL[j] != ANY]
        lo_pool = below + sub[:1]
        up_pool = above + sub[:1]
    oneof = None
    bs = []
    for _ in range(n):
        r = rng.random()
        if r < 0.5:
            bs.append(("L", rng.choice(lo_pool)))
        elif r < 0.85:
            bs.append(("U", rng.choice(up_pool)))
        elif r < 0.97:
            if oneof is None or malformed:
                oneof = ("O", rng.choice(CONSTRAINT_LISTS) if rng.random() < 0.7 else [rng.choice(sub) for _ in range(rng.randint(0 if malformed else 1, 3))])
            bs.append(oneof)
        else:
            bs.append(("R", [[("L", rng.choice(sub))], [("U", rng.choice(sub))]]))
    if bs and rng.random() < 0.15:
        bs[rng.randrange(len(bs))] = rng.choice(bs)   # an exact duplicate: exercises dict.fromkeys
    return bs


def gen_multisets(ctx):
    rng = ctx.rng
    out = exhaustive_multisets()
    ctx.tag("multisets_exhaustive", len(out))
    n = ctx.n(2200, 45000)
    for _ in range(n):
        bs = random_multiset(rng, 5)
        if not risky([v for b in bs for v in bound_values(b)]):
            out.append(bs)
    return out


BIG_LITS = ([("known", ("int", n)) for n in range(10)] + [("known", ("bool", 0)), ("known", ("bool", 1)), ("known", ("str", "a")),
            ("known", ("str", "ab")), ("known", ("none",)), ("known", ("flt", 1)), ("known", ("inst", V.CID[V.U.Color], 0)),
            ("known", ("inst", V.CID[V.U.Color], 1)), ("known", ("inst", V.CID[V.U.IE], 0))])


def gen_big(ctx):
    """10-13 distinct literal lower bounds with ==-equal literals of different types planted (1 / True, 0 / False): the
    accumulated lower bound reaches the 10-member fast path of MultiValuedValue; solved in ~22 sampled orders."""
    rng = ctx.rng
    planted = [[("known", ("int", 1)), ("known", ("bool", 1))], [("known", ("int", 0)), ("known", ("bool", 0))],
               [("known", ("int", 1)), ("known", ("bool", 1)), ("known", ("int", 0)), ("known", ("bool", 0))]]
    out = []
    for k in range(ctx.n(10, 150)):
        keep = planted[k % 3]
        rest = [v for v in BIG_LITS if v not in keep]
        rng.shuffle(rest)
        vals = keep + rest[:rng.choice([10, 11, 12, 13]) - len(keep)]
        bs = [("L", v) for v in vals]
        if rng.random() < 0.3:
            bs.append(("U", OBJ))
        elif rng.random() < 0.2:
            bs.append(("O", [OBJ, INT]))
        out.append(bs)
    return out


def gen_malformed(ctx):
    """several different constraint lists, empty constraint lists, 6 bounds: correspondence only"""
    rng = ctx.rng
    out = [[("O", [])], [("O", []), ("L", INT)], [("O", [INT, STR]), ("O", [STR])], [("O", [STR]), ("O", [INT, STR]), ("L", LIT1)],
           [("O", [INT, BOOL, OBJ, LIT1]), ("L", LIT1)], [("O", [OBJ, INT, BOOL]), ("L", LITT)], [("O", [INT, STR, OBJ]), ("L", NEVER)],
           [("O", [("typed", c) for c in (0, 1, 2, 3, 4, 5, 6, 7, 8, 9, 10)]), ("L", LITT)],
           [("O", [("typed", c) for c in (1, 0, 2, 3, 4, 5, 6, 7, 8, 9)]), ("L", LITT)]]
    for _ in range(ctx.n(60, 1500)):
        bs = random_multiset(rng, 4, malformed=True)
        if not risky([v for b in bs for v in bound_values(b)]):
            out.append(bs)
    return out


def gen_abstract(ctx):
    """(matrix, multisets) groups: random relations on n mock values"""
    rng = ctx.rng
    groups = []
    for g in range(ctx.n(150, 2500)):
        n = rng.choice([3, 4, 4, 5])
        mode = rng.random()
        if mode < 0.4:      # a random preorder: reflexive-transitive closure of a random DAG
            tab = [[i == j or (i < j and rng.random() < 0.35) for j in range(n)] for i in range(n)]
            for k in range(n):
                for i in range(n):
                    for j in range(n):
                        tab[i][j] = tab[i][j] or (tab[i][k] and tab[k][j])
        elif mode < 0.7:    # reflexive, otherwise arbitrary
            tab = [[i == j or rng.random() < 0.3 for j in range(n)] for i in range(n)]
        else:               # arbitrary
            tab = [[rng.random() < 0.4 for j in range(n)] for i in range(n)]
        vals = [("typed", i) for i in range(n)] + [("union", [("typed", 0), ("typed", 1)]), ANY, NEVER]
        ms = []
        for _ in range(ctx.n(6, 12)):
            k = rng.choice([2, 3, 3, 4, 4])
            bs = []
            for _ in range(k):
                r = rng.random()
                v = rng.choice(vals[:n] if rng.random() < 0.8 else vals)
                if r < 0.5:
                    bs.append(("L", v))
                elif r < 0.9:
                    bs.append(("U", v))
                elif not any(b[0] == "O" for b in bs):
                    bs.append(("O", [("typed", i) for i in rng.sample(range(n), rng.randint(1, min(3, n)))]))
            ms.append(bs)
        groups.append(([[bool(x) for x in row] for row in tab], ms))
    return groups


# ------------------------------------------------------------------ bound generation (TypeVarValue.can_assign / can_be_assigned)
def run_gen(ctx, with_model=True):
    from pyanalyze import value as PV
    rng = ctx.rng
    checker = pya.make_checker()
    T = V.TYPEVARS[0]
    cases = []
    decls = [(None, [])] + [(b, []) for b in (INT, OBJ, A_, STR, ("generic", G.SEQUENCE, [INT]))] + [(None, cs) for cs in CONSTRAINT_LISTS[:6]]
    for decl in decls:
        for v in POOL_SMALL + [FLOAT, LITT, D_, lst(STR), BYTES]:
            for op in ("tvca", "tvcba"):
                cases.append((op, decl, v))
    for _ in range(ctx.n(150, 3000)):
        decl = rng.choice(decls)
        v = random_value(rng, POOL)
        cases.append((rng.choice(("tvca", "tvcba")), decl, v))
    cases = [c for c in cases if not risky([c[2]] + ([c[1][0]] if c[1][0] else []) + list(c[1][1]))]
    # against another TypeVarValue: ("tvtv", decl, (decl2, same typevar object?, which method))
    for decl in decls:
        for decl2 in decls[:8]:
            for same_var in (False, True):
                cases.append(("tvtv", decl, (decl2, same_var, rng.choice(("ca", "cba")))))

    def decl_sexp(d):
        b, cs = d
        return "(B%s) (C%s)" % (" " + V.ty_sexp(b) if b else "", "".join(" " + V.ty_sexp(c) for c in cs))

    def mk_tv(tvar, d):
        b, cs = d
        return PV.TypeVarValue(tvar, bound=V.ty_to_value(b) if b else None, constraints=tuple(V.ty_to_value(c) for c in cs))

    out = None
    if with_model:
        out = lean.run_driver("C15", [
            "tvtv %s %s %d" % (decl_sexp(d), decl_sexp(v[0]), int(v[1] and v[0] == d)) if op == "tvtv"
            else "%s %s %s" % (op, decl_sexp(d), V.ty_sexp(v)) for op, d, v in cases])
    for i, (op, (b, cs), v) in enumerate(cases):
        tv = mk_tv(T, (b, cs))
        try:
            if op == "tvtv":
                other = mk_tv(T if v[1] else V.TYPEVARS[1], v[0])
                r = tv.can_assign(other, checker) if v[2] == "ca" else tv.can_be_assigned(other, checker)
            else:
                r = tv.can_assign(V.ty_to_value(v), checker) if op == "tvca" else tv.can_be_assigned(V.ty_to_value(v), checker)
            if isinstance(r, PV.CanAssignError):
                impl = "ERR"
            else:
                impl = bounds_text([decode_bound(x) for x in r.get(T, [])]) if list(r) in ([], [T]) else "KEYS:%s" % list(r)
        except Exception as e:  # noqa: BLE001
            impl = "EXC:%s" % type(e).__name__
        ctx.count(1, **{"gen_" + op: 1, "gen_" + ("ERR" if impl == "ERR" else "ok"): 1})
        if out is not None:
            ctx.corr("gen")
            if impl != out[i]:
                ctx.disagree("gen", {"stream": "gen", "op": op, "bound": b, "constraints": cs, "value": v}, impl, out[i])


# ------------------------------------------------------------------ end to end
E2E_VARS = [  # (expression, annotation or None for a literal / a module-level function)
    ("vi", "int"), ("vs", "str"), ("vb", "bool"), ("vo", "object"), ("vf", "float"), ("va", "A"), ("vbb", "B"), ("vc", "Cc"), ("vd", "D"),
    ("vli", "list[int]"), ("vls", "list[str]"), ("vlb", "list[bool]"), ("vany", "Any"), ("vlany", "list[Any]"), ("vlst", "list"),
    ("vios", "int | str"), ("vn", "None"), ("vdsi", "dict[str, int]"), ("vdis", "dict[int, str]"), ("vby", "bytes"),
    ("1", None), ("True", None), ("'a'", None), ("None", None), ("1.5", None),
    ("fis", None), ("fsi", None), ("fbi", None), ("foi", None), ("fii", None),
]
# the static type of each argument expression as a value term (what pyanalyze must infer for it)
ARG_TERM = {
    "vi": INT, "vs": STR, "vb": BOOL, "vo": OBJ, "vf": FLOAT, "va": A_, "vbb": B_, "vc": C_, "vd": D_, "vli": lst(INT), "vls": lst(STR),
    "vlb": lst(BOOL), "vany": ANY, "vlany": lst(ANY), "vlst": ("typed", G.LIST), "vios": ("union", [INT, STR]), "vn": ("known", ("none",)),
    "vdsi": ("generic", G.DICT, [STR, INT]), "vdis": ("generic", G.DICT, [INT, STR]), "vby": BYTES,
    "1": LIT1, "True": LITT, "'a'": LITA, "None": ("known", ("none",)), "1.5": ("known", ("flt", 0)),
}
ELEM_TERM = {"vli": INT, "vls": STR, "vlb": BOOL, "vlany": ANY, "vlst": ANY}   # element type seen through list[T] / Sequence[T]
DICT_TERM = {"vdsi": (STR, INT), "vdis": (INT, STR)}
TV_DECL = {"": (None, []), ", bound=int": (INT, []), ", bound=A": (A_, []), ", int, str": (None, [INT, STR]),
           ", str, bytes": (None, [STR, BYTES]), ", int, float": (None, [INT, FLOAT])}
E2E_PRELUDE = """\
from typing import Any, Callable, Sequence, TypeVar
from harness.universe import A, B, Cc, D, Fl
def fis(x: int) -> str:
    raise NotImplementedError
def fsi(x: str) -> int:
    raise NotImplementedError
def fbi(x: bool) -> int:
    raise NotImplementedError
def foi(x: object) -> int:
    raise NotImplementedError
def fii(x: int) -> int:
    raise NotImplementedError
"""
# shape: parameter annotations with {T} {K} {V} {U}, return annotation, TypeVar declarations
E2E_SHAPES = {
    "T,T": (["{T}", "{T}"], "{T}", {"T": ""}),
    "T,T,T": (["{T}", "{T}", "{T}"], "{T}", {"T": ""}),
    "T,T->None": (["{T}", "{T}"], "None", {"T": ""}),
    "T,list[T]": (["{T}", "list[{T}]"], "{T}", {"T": ""}),
    "list[T],list[T]": (["list[{T}]", "list[{T}]"], "{T}", {"T": ""}),
    "T,Sequence[T],T": (["{T}", "Sequence[{T}]", "{T}"], "{T}", {"T": ""}),
    "dict[K,V],K,V": (["dict[{K}, {V}]", "{K}", "{V}"], "dict[{K}, {V}]", {"K": "", "V": ""}),
    "Callable[[T],U],T": (["Callable[[{T}], {U}]", "{T}"], "{U}", {"T": "", "U": ""}),
    "Callable[[T],U],Callable[[T],U],T": (["Callable[[{T}], {U}]", "Callable[[{T}], {U}]", "{T}"], "{U}", {"T": "", "U": ""}),
    "3xCallable[[T],int],T": (["Callable[[{T}], int]", "Callable[[{T}], int]", "Callable[[{T}], int]", "{T}"], "{T}", {"T": ""}),
    "bound=int": (["{T}", "{T}"], "{T}", {"T": ", bound=int"}),
    "bound=int->None": (["{T}", "{T}"], "None", {"T": ", bound=int"}),
    "bound=A": (["{T}", "{T}", "{T}"], "{T}", {"T": ", bound=A"}),
    "bound=int,list": (["{T}", "list[{T}]"], "{T}", {"T": ", bound=int"}),
    "constrained(int,str)": (["{T}", "{T}"], "{T}", {"T": ", int, str"}),
    "constrained(int,str)->None": (["{T}", "{T}"], "None", {"T": ", int, str"}),
    "constrained(str,bytes),3": (["{T}", "{T}", "{T}"], "{T}", {"T": ", str, bytes"}),
    "constrained(int,float),list": (["{T}", "list[{T}]"], "{T}", {"T": ", int, float"}),
    # the same with parameters that have defaults (all arguments are passed) / keyword-only parameters
    "T,T(defaults)": (["{T}", "{T}"], "{T}", {"T": ""}, "defaults"),
    "bound=int(defaults)": (["{T}", "{T}"], "{T}", {"T": ", bound=int"}, "defaults"),
    "T,T,T(kwonly)": (["{T}", "{T}", "{T}"], "{T}", {"T": ""}, "kwonly"),
    "constrained(int,str)(kwonly)": (["{T}", "{T}"], "{T}", {"T": ", int, str"}, "kwonly"),
    "T,list[T](kwonly)": (["{T}", "list[{T}]"], "{T}", {"T": ""}, "kwonly"),
}
ARGS_FOR = {
    "{T}": ["vi", "vs", "vb", "vo", "vf", "va", "vbb", "vc", "vd", "vany", "vlany", "vlst", "vli", "vios", "vn", "1", "True", "'a'", "None", "1.5", "vby"],
    "list[{T}]": ["vli", "vls", "vlb", "vlany", "vlst", "vany", "vi"],
    "Sequence[{T}]": ["vli", "vls", "vlb", "vlany", "vlst", "vany", "'a'"],
    "dict[{K}, {V}]": ["vdsi", "vdis", "vany", "vli"],
    "{K}": ["vi", "vs", "vb", "vany", "'a'", "1"],
    "{V}": ["vi", "vs", "vb", "vany", "'a'", "1"],
    "Callable[[{T}], {U}]": ["fis", "fsi", "fbi", "foi", "vany"],
    "Callable[[{T}], int]": ["fsi", "fbi", "foi", "fii", "vany"],
}
PLAIN = {"{T}": "T", "{K}": "K", "{V}": "V"}


def inherent_terms(extra):
    b, cs = TV_DECL[extra]
    return ([("U", b)] if b else []) + ([("O", list(cs))] if cs else [])


def expected_param_bounds(param, arg, tvs):
    """The bounds `param_type.can_assign(arg_value)` has to produce, per type variable role, computed from the declared
    types alone (independent of pyanalyze); None = not predicted for this combination."""
    if param in PLAIN:
        r = PLAIN[param]
        return {r: [("L", ARG_TERM[arg])] + inherent_terms(tvs[r])} if arg in ARG_TERM else None
    if param in ("list[{T}]", "Sequence[{T}]"):
        if arg == "vany":
            return {}
        return {"T": [("L", ELEM_TERM[arg])] + inherent_terms(tvs["T"])} if arg in ELEM_TERM else None
    if param == "dict[{K}, {V}]":
        if arg == "vany":
            return {}
        if arg in DICT_TERM:
            k, v = DICT_TERM[arg]
            return {"K": [("L", k)] + inherent_terms(tvs["K"]), "V": [("L", v)] + inherent_terms(tvs["V"])}
    return None


def gen_e2e(ctx):
    rng = ctx.rng
    cases = []
    # exhaustive over the two-parameter plain shape with a small argument pool, then seeded random
    small = ["vi", "vs", "vb", "vo", "vany", "vlst", "vli", "1", "'a'"]
    for a in small:
        for b in small:
            cases.append(("T,T", [a, b]))
    for _ in range(ctx.n(320, 5000)):
        name = rng.choice(list(E2E_SHAPES))
        params = E2E_SHAPES[name][0]
        cases.append((name, [rng.choice(ARGS_FOR[p]) for p in params]))
    return cases


def shape_of(name):
    sh = E2E_SHAPES[name]
    return sh[0], sh[1], sh[2], (sh[3] if len(sh) > 3 else "")


def run_e2e(ctx, cases, with_model=True):
    """Each (shape, args) is instantiated once per order of its (parameter, argument) pairs; every instance has its own
    TypeVar objects, so the recorded call-level resolve_bounds_map calls can be attributed to it. A third of the instances
    pass their arguments by keyword in reversed order (the bounds follow the parameter order, not the call order)."""
    import pyanalyze.signature as SIG
    from pyanalyze import value as PV
    checker = pya.make_checker()
    uni = Universe()
    B = ctx.n(120, 150)
    for b0 in range(0, len(cases), B):
        part = cases[b0:b0 + B]
        lines = E2E_PRELUDE.rstrip("\n").split("\n")
        insts = []   # dicts: ci, p, fn, tvn
        for ci, (name, args) in enumerate(part):
            params, ret, tvs, flavour = shape_of(name)
            for pi, p in enumerate(itertools.permutations(range(len(params)))):
                tvn = {r: "%s_%d_%d" % (r, ci, pi) for r in tvs}
                for r, extra in tvs.items():
                    lines.append('%s = TypeVar("%s"%s)' % (tvn[r], tvn[r], extra))
                fn = "f_%d_%d" % (ci, pi)
                sig = ", ".join("p%d: %s%s" % (k, params[j].format(**tvn), " = None" if flavour == "defaults" else "")
                                for k, j in enumerate(p))
                lines.append("def %s(%s%s) -> %s:" % (fn, "*, " if flavour == "kwonly" else "", sig, ret.format(**tvn)))
                lines.append("    raise NotImplementedError")
                insts.append(dict(ci=ci, p=p, fn=fn, tvn=tvn, kw=flavour == "kwonly" or (ci + pi) % 3 == 0))
        lines.append("def caller(%s) -> None:" % ", ".join("%s: %s" % (v, a) for v, a in E2E_VARS if a is not None))
        for inst in insts:
            args, p = part[inst["ci"]][1], inst["p"]
            if inst["kw"]:
                call = ", ".join("p%d=%s" % (k, args[j]) for k, j in reversed(list(enumerate(p))))
            else:
                call = ", ".join(args[j] for j in p)
            lines.append("    reveal_type(%s(%s))" % (inst["fn"], call))
            inst["line"] = len(lines)
        src = "\n".join(lines) + "\n"
        records = {}   # typevar name -> (bound objects, solution, own errors) of the LAST call-level solve (the checking pass)
        orig = SIG.resolve_bounds_map

        def recorder(bounds_map, ctx_, **kw):
            tv_map, errors = orig(bounds_map, ctx_, **kw)
            k = 0   # errors are appended in the iteration order of the failing type variables
            for tv, bounds in bounds_map.items():
                sol = tv_map.get(tv)
                failed = isinstance(sol, PV.AnyValue) and sol.source is PV.AnySource.error
                own = [errors[k]] if failed and k < len(errors) else []
                k += int(failed)
                n = getattr(tv, "__name__", None)
                if n is not None:
                    records[n] = (list(bounds), sol, own)
            return tv_map, errors

        SIG.resolve_bounds_map = recorder
        try:
            fails, _, _ = pya.check_source(src)
        finally:
            SIG.resolve_bounds_map = orig
        by_line = {inst["line"]: inst for inst in insts}
        for inst in insts:
            inst["codes"], inst["reveal"] = [], "?"
        for f in fails:
            inst = by_line.get(f["lineno"])
            if inst is not None:
                if f["code"] == "reveal_type":
                    inst["reveal"] = f["message"]
                else:
                    inst["codes"].append(f["code"])
        # ---- per instance: verdict, recorded solves (decoded), predicted bounds
        for inst in insts:
            name, args = part[inst["ci"]]
            params, ret, tvs, _ = shape_of(name)
            inst["codes"] = sorted(set(inst["codes"]))
            inst["verdict"] = "diagnosed" if inst["codes"] else "accepted"
            ctx.count(1, **{"e2e_" + inst["verdict"]: 1, "e2e_shape_" + name: 1})
            recs = {}
            for role, n in inst["tvn"].items():
                if n in records:
                    bounds, sol, errors = records[n]
                    try:
                        recs[role] = ([decode_bound(x) for x in bounds], sol, errors, bounds)
                    except V.Unencodable:
                        recs[role] = None
                        ctx.tag("e2e_unencodable_bounds")
            inst["recs"] = recs
            per = [expected_param_bounds(params[j], args[j], tvs) for j in inst["p"]]
            inst["per_param"] = per
            if all(x is not None for x in per):
                exp = {}
                for x in per:
                    for r, bs in x.items():
                        exp.setdefault(r, []).extend(bs)
                inst["expected"] = exp
            else:
                inst["expected"] = None
        e2e_bounds_and_calls(ctx, part, insts, with_model)
        e2e_unit(ctx, part, insts, with_model, checker)
        e2e_orders(ctx, part, insts, with_model, b0 == 0)


def e2e_case(part, inst, **extra):
    name, args = part[inst["ci"]]
    return dict({"stream": "e2e", "shape": name, "args": args, "order": list(inst["p"]), "by_keyword": inst["kw"],
                 "verdict": inst["verdict"], "codes": inst["codes"], "reveal": inst["reveal"]}, **extra)


def e2e_bounds_and_calls(ctx, part, insts, with_model):
    """(a) the bounds the call collected = the bounds predicted from the declared types, in parameter order;
    (b) for shapes whose parameters are all plain type variables: the call is accepted exactly when every argument alone is
        solvable, the collected bounds are solvable and the solution accepts every argument (the re-check of
        check_call_with_bound_args) - predicted with the Lean model."""
    jobs = []
    for inst in insts:
        exp = inst["expected"]
        if exp is None:
            continue
        if risky([v for bs in exp.values() for b in bs for v in bound_values(b)]):
            continue
        for role, bs in exp.items():
            rec = inst["recs"].get(role)
            if rec:
                ctx.corr("e2e-bounds")
                if bounds_text(rec[0]) != bounds_text(bs):
                    ctx.disagree("e2e-bounds", e2e_case(part, inst, typevar=role), bounds_text(rec[0]), "expected " + bounds_text(bs))
        name = part[inst["ci"]][0]
        if with_model and all(p in PLAIN for p in E2E_SHAPES[name][0]):
            singles = [bs for x in inst["per_param"] for bs in x.values()]
            jobs.append((inst, singles, list(exp.values())))
    if not jobs:
        return
    lines, owner = [], []
    for inst, singles, wholes in jobs:
        for bs in singles:
            lines.append("resolve " + bounds_text(bs))
            owner.append((inst, "single"))
        for bs in wholes:
            lines.append("resolve " + bounds_text(bs))
            owner.append((inst, "whole"))
    out = [parse_report(l) for l in lean.run_driver("C15", lines)]
    pred = {}
    for (inst, kind), rep in zip(owner, out):
        ok = rep.get("res", "").startswith("ok ")
        if kind == "whole":
            ok = ok and rep.get("sat", "-")[:1] == "1"
        pred[id(inst)] = pred.get(id(inst), True) and ok
    for inst, _, _ in jobs:
        ctx.corr("e2e-call")
        want = "accepted" if pred[id(inst)] else "diagnosed"
        if want != inst["verdict"]:
            ctx.disagree("e2e-call", e2e_case(part, inst, bounds={r: bounds_text(b) for r, b in inst["expected"].items()}),
                         inst["verdict"], "predicted " + want)


def e2e_unit(ctx, part, insts, with_model, checker):
    """The recorded call-level solves: model vs recorded solution; the property on accepted calls, evaluated against the
    predicted bounds where they are known (independent of what the call collected) and the recorded ones otherwise."""
    from pyanalyze import value as PV
    uni = Universe()
    items = []
    for inst in insts:
        for role, rec in inst["recs"].items():
            if rec is not None:
                items.append((inst, role, rec))
    reports = None
    if with_model and items:
        out = lean.run_driver("C15", ["resolve %s" % bounds_text(rec[0]) for _, _, rec in items])
        reports = [parse_report(l) for l in out]
    pending = []
    for i, (inst, role, (pb, sol, errors, objs)) in enumerate(items):
        impl = show_result(uni, sol, errors, objs)
        conforms = True
        ctx.count(1, e2e_solves=1)
        if reports is not None and not impl.startswith("UNENC") and not risky([v for b in pb for v in bound_values(b)]):
            ctx.corr("e2e")
            if impl != reports[i].get("res"):
                conforms = False
                ctx.disagree("e2e", e2e_case(part, inst, typevar=role, bounds=pb, text=bounds_text(pb)), impl, reports[i]["raw"])
        if errors and inst["verdict"] == "accepted":
            ctx.tag("fail_e2e_unsat")
            pending.append(dict(case=e2e_case(part, inst, kind="unsat", typevar=role, bounds=pb, text=bounds_text(pb)),
                                what="the bounds of %s could not be solved but the call is not diagnosed" % role, kind="unsat",
                                conforms=conforms, cheap=[], perms=[pb]))
        if errors or sol is None:
            continue
        if inst["verdict"] != "accepted":
            # the property speaks about accepted calls: after solving, check_call_with_bound_args re-checks every argument
            # against the substituted parameter type, so a solution that misses a bound is diagnosed at the call
            ctx.tag("e2e_call_diagnosed_after_solve")
            continue
        check = pb
        if inst["expected"] is not None and role in inst["expected"]:
            check = inst["expected"][role]
        vals = [uni.bound(b) for b in check]
        seen = set()
        for b, o in zip(check, vals):
            kind = what = None
            if b[0] == "L" and not sol.is_assignable(o.value, checker):
                kind, what = "lower", "the solution %s does not accept the lower bound %s" % (sol, o.value)
            elif b[0] == "U" and not o.value.is_assignable(sol, checker):
                kind, what = "upper", "the solution %s is not accepted by the upper bound %s" % (sol, o.value)
            elif b[0] == "O" and not (isinstance(sol, PV.AnyValue) or any(sol == c for c in o.constraints)):
                kind, what = "oneof", "the solution %s is not one of the constraints" % (sol,)
            if kind and kind not in seen:
                seen.add(kind)
                ctx.tag("fail_e2e_" + kind)
                pending.append(dict(case=e2e_case(part, inst, kind=kind, typevar=role, bounds=check, text=bounds_text(check), solution=impl),
                                    what=what, kind=kind, conforms=conforms, cheap=reports[i].get("D", []) if reports else [], perms=[pb]))
    classify(ctx, pending, with_model, uni, "e2e")


def e2e_orders(ctx, part, insts, with_model, sample):
    """The verdict of a call must not depend on the order of its (parameter, argument) pairs."""
    per_case = {}
    for inst in insts:
        per_case.setdefault(inst["ci"], []).append(inst)
    pend = []
    for ci, rows in per_case.items():
        name, args = part[ci]
        ctx.nontriv("e2e|%s|%s" % (name, ",".join(args)))
        if sample and ci < 3:
            ctx.sample({"stream": "e2e", "shape": name, "args": args,
                        "orders": [{"order": list(r["p"]), "verdict": r["verdict"], "codes": r["codes"], "reveal": r["reveal"]} for r in rows][:3]})
        ok = next((r for r in rows if r["verdict"] == "accepted"), None)
        bad = next((r for r in rows if r["verdict"] == "diagnosed"), None)
        if ok is None or bad is None:
            continue
        ctx.tag("fail_e2e_order")
        perms, enc = [], True
        for r in (ok, bad):
            if r["expected"] is not None:
                perms += list(r["expected"].values())
            for role, rec in r["recs"].items():
                if rec is None:
                    enc = False
                else:
                    perms.append(rec[0])
        what = "accepted with the (parameter, argument) order %s but diagnosed (%s) with the order %s" % (
            list(ok["p"]), ",".join(bad["codes"]), list(bad["p"]))
        case = {"stream": "e2e", "shape": name, "args": args, "kind": "order", "order_ok": list(ok["p"]), "order_bad": list(bad["p"]),
                "codes": bad["codes"], "bounds_ok": {r: bounds_text(x[0]) for r, x in ok["recs"].items() if x},
                "bounds_bad": {r: bounds_text(x[0]) for r, x in bad["recs"].items() if x}}
        pend.append(dict(case=case, what=what, kind="order", conforms=enc, cheap=[], perms=perms))
    if pend:
        if with_model:
            flat = [(c, pb) for c in pend for pb in c["perms"]]
            out = lean.run_driver("C15", ["resolve %s" % bounds_text(pb) for _, pb in flat])
            for (c, _), l in zip(flat, out):
                c["cheap"] = sorted(set(c["cheap"]) | set(parse_report(l).get("D", [])))
        classify(ctx, pend, with_model, Universe(), "e2e")


# ------------------------------------------------------------------ end to end, signatures from a grammar
# annotation terms: ("tv", role) | ("c", name) | ("list", t) | ("seq", t) | ("dict", k, v) | ("tup2", a, b) | ("tupv", t)
#                   | ("call", a, r) (a, r leaves) | ("opt", t) | ("ornone", t)
GRAM_ROLES = {"T": "", "K": ", bound=int", "V": "", "AS": ", str, bytes"}
GRAM_BASE = ["int", "str", "bool", "bytes", "object"]
GRAM_VARS = [("vi", "int"), ("vs", "str"), ("vb", "bool"), ("vby", "bytes"), ("vo", "object"), ("vf", "float"), ("vany", "Any"),
             ("vli", "list[int]"), ("vls", "list[str]")]
GRAM_LEAVES = ["vi", "vs", "vb", "vby", "vo", "vf", "vany", "'a'", "b'b'", "1", "True"]
GRAM_FOR_BASE = {"int": ["vi", "1", "vb"], "str": ["vs", "'a'"], "bool": ["vb", "True"], "bytes": ["vby", "b'b'"], "object": ["vo", "vi", "vs"]}
GRAM_FUNCS = [(a, r) for a in ("int", "str", "bool", "object") for r in ("int", "str", "bool")]
GRAM_PRELUDE = "from typing import Any, Callable, Optional, Sequence, TypeVar\n" + "".join(
    "def f_%s_%s(x: %s) -> %s:\n    raise NotImplementedError\n" % (a, r, a, r) for a, r in GRAM_FUNCS)
GRAM_RETURNS = ["None", "int", "{0}", "list[{0}]", "{U}"]   # {0} = a type variable of the parameters, {U} = one that is in no parameter


def ann_text(t, tvn):
    k = t[0]
    if k == "tv":
        return tvn[t[1]]
    if k == "c":
        return t[1]
    if k == "list":
        return "list[%s]" % ann_text(t[1], tvn)
    if k == "seq":
        return "Sequence[%s]" % ann_text(t[1], tvn)
    if k == "dict":
        return "dict[%s, %s]" % (ann_text(t[1], tvn), ann_text(t[2], tvn))
    if k == "tup2":
        return "tuple[%s, %s]" % (ann_text(t[1], tvn), ann_text(t[2], tvn))
    if k == "tupv":
        return "tuple[%s, ...]" % ann_text(t[1], tvn)
    if k == "call":
        return "Callable[[%s], %s]" % (ann_text(t[1], tvn), ann_text(t[2], tvn))
    if k == "opt":
        return "Optional[%s]" % ann_text(t[1], tvn)
    if k == "ornone":
        return "%s | None" % ann_text(t[1], tvn)
    raise ValueError(t)


def ann_roles(t):
    if t[0] == "tv":
        return [t[1]]
    return [r for x in t[1:] if isinstance(x, tuple) for r in ann_roles(x)]


def gen_ann(rng, roles, depth):
    def leaf():
        return ("tv", rng.choice(roles)) if rng.random() < 0.8 else ("c", rng.choice(GRAM_BASE[:3]))
    if depth <= 0 or rng.random() < 0.3:
        return leaf()
    k = rng.choice(["list", "seq", "dict", "tup2", "tup2", "tupv", "call", "opt", "ornone"])
    if k in ("list", "seq", "tupv", "opt", "ornone"):
        return (k, gen_ann(rng, roles, depth - 1))
    if k == "call":
        return ("call", leaf(), leaf())
    return (k, gen_ann(rng, roles, depth - 1), gen_ann(rng, roles, depth - 1))


def gen_arg(rng, t, home):
    """An argument expression shaped like the annotation; the leaves for one type variable mostly agree (`home`), sometimes
    conflict."""
    k = t[0]
    if k == "tv":
        return home[t[1]] if rng.random() < 0.55 else rng.choice(GRAM_LEAVES)
    if k == "c":
        return rng.choice(GRAM_FOR_BASE[t[1]]) if rng.random() < 0.85 else rng.choice(GRAM_LEAVES)
    if k in ("list", "seq"):
        es = [gen_arg(rng, t[1], home) for _ in range(rng.choice([1, 1, 2]))]
        return "[%s]" % ", ".join(es) if k == "list" or rng.random() < 0.6 else "(%s,)" % ", ".join(es)
    if k == "dict":
        return "{%s: %s}" % (gen_arg(rng, t[1], home), gen_arg(rng, t[2], home))
    if k == "tup2":
        return "(%s, %s)" % (gen_arg(rng, t[1], home), gen_arg(rng, t[2], home))
    if k == "tupv":
        return "(%s,)" % ", ".join(gen_arg(rng, t[1], home) for _ in range(rng.choice([1, 2])))
    if k == "call":
        def base_of(x, pos):
            if x[0] == "c":
                return x[1] if x[1] in ("int", "str", "bool", "object") else "object"
            e = home[x[1]]
            return {"vi": "int", "1": "int", "vs": "str", "'a'": "str", "vb": "bool", "True": "bool"}.get(e, "object" if pos == 0 else "int")
        a, r = base_of(t[1], 0), base_of(t[2], 1)
        if r == "object":
            r = "int"
        if rng.random() < 0.45:
            a, r = rng.choice(GRAM_FUNCS)
        return "f_%s_%s" % (a, r)
    if k in ("opt", "ornone"):
        return "None" if rng.random() < 0.2 else gen_arg(rng, t[1], home)
    raise ValueError(t)


def split_tuple_display(e):
    """`(a, b)` -> [a, b] for a top-level two-element tuple display, else None"""
    import ast as _ast
    try:
        node = _ast.parse(e, mode="eval").body
    except SyntaxError:
        return None
    if isinstance(node, _ast.Tuple) and len(node.elts) == 2:
        return [_ast.unparse(x) for x in node.elts]
    return None


def flatten_pairs(params, args):
    """The metamorphic twin: every top-level `tuple[a, b]` parameter called with a tuple display becomes two parameters."""
    ps, as_, changed = [], [], False
    for t, e in zip(params, args):
        parts = split_tuple_display(e) if t[0] == "tup2" else None
        if parts is not None:
            changed = True
            p2, a2, _ = flatten_pairs([t[1], t[2]], parts)
            ps += p2
            as_ += a2
        else:
            ps.append(t)
            as_.append(e)
    return ps, as_, changed


GRAM_SEEDS = [  # the parameter lists every run covers with every return annotation (several occurrences inside ONE parameter)
    [("dict", ("tv", "AS"), ("tv", "AS"))], [("tup2", ("tv", "AS"), ("tv", "AS"))], [("call", ("tv", "T"), ("tv", "T"))],
    [("tup2", ("tv", "T"), ("list", ("tv", "T")))], [("dict", ("tv", "K"), ("tv", "K"))], [("tup2", ("tv", "K"), ("opt", ("tv", "K")))],
    [("tup2", ("tup2", ("tv", "AS"), ("tv", "T")), ("tv", "AS"))], [("seq", ("tup2", ("tv", "AS"), ("tv", "AS")))],
    [("tup2", ("call", ("tv", "T"), ("c", "int")), ("tv", "T"))], [("tupv", ("tv", "AS"))], [("list", ("tv", "AS"))],
    [("tup2", ("tv", "T"), ("tv", "T")), ("tv", "T")], [("tv", "AS"), ("tv", "AS")], [("dict", ("tv", "T"), ("ornone", ("tv", "T")))],
]


def gen_gram(ctx):
    rng = ctx.rng
    cases = []

    def add(params, ret_tpl):
        roles = sorted({r for t in params for r in ann_roles(t)}) or ["T"]
        for _ in range(8):
            home = {r: rng.choice(["vby", "b'b'", "vs", "'a'"] if r == "AS" else ["vi", "vb", "1", "vs"] if r == "K" else GRAM_LEAVES[:7])
                    for r in roles + ["T"]}
            args = [gen_arg(rng, t, home) for t in params]
            if all(len(a) < 120 for a in args):
                cases.append({"params": params, "ret": ret_tpl, "ret_role": rng.choice(roles), "args": args})
                return

    for params in GRAM_SEEDS:
        for ret in GRAM_RETURNS:
            for _ in range(ctx.n(2, 6)):
                add(params, ret)
    big_lits = ["0", "1", "2", "3", "4", "5", "6", "7", "8", "9", "True", "False", "'a'", "'ab'", "None", "2.5"]
    for k in range(ctx.n(8, 60)):   # pick11(a: T, ..., k: T): 11-13 literal arguments with 1 / True or 0 / False among them
        n = rng.choice([11, 12, 13])
        keep = [["1", "True"], ["0", "False"], ["1", "True", "0", "False"]][k % 3]
        rest = [x for x in big_lits if x not in keep]
        rng.shuffle(rest)
        args = keep + rest[:n - len(keep)]
        r = rng.random()
        if r < 0.4:
            rng.shuffle(args)
        elif r < 0.7:   # the ==-equal literal just after the 10th argument
            x = args.pop(1)
            args.insert(10, x)
        cases.append({"params": [("tv", "T")] * n, "ret": rng.choice(["{0}", "None"]), "ret_role": "T", "args": args})
    for _ in range(ctx.n(220, 4000)):
        roles = rng.sample(sorted(GRAM_ROLES), rng.choice([1, 1, 2]))
        n = rng.choice([1, 1, 2, 3])
        add([gen_ann(rng, roles, 2) for _ in range(n)], rng.choice(GRAM_RETURNS))
    return cases


def run_gram(ctx, cases, with_model=True):
    """Oracle independent of the call path: every argument is assigned to its parameter annotation (Value.can_assign), the bounds
    maps are unified in parameter order, and each type variable's bounds go to the Lean `solveCall`. Compared with the call:
      gram-bounds : the bounds of the call-level solve = that union (and the solve happened at all)
      gram        : the recorded solution  vs  the model
      gram-call   : a parameter rejected / the model finds no solution  =>  the call is diagnosed
      gram-meta   : a `tuple[a, b]` parameter called with `(x, y)`  vs  two parameters `a`, `b` called with `x`, `y`
    Property: no value exists (`specOk` = 0)  =>  diagnosed; accepted => the solution satisfies the union; same verdict for the
    reversed parameter order."""
    import ast as _ast
    import pyanalyze.signature as SIG
    from pyanalyze import value as PV
    checker = pya.make_checker()
    uni = Universe()
    B = 90
    for b0 in range(0, len(cases), B):
        part = cases[b0:b0 + B]
        lines = GRAM_PRELUDE.rstrip("\n").split("\n")
        insts = []
        for ci, c in enumerate(part):
            variants = [("id", c["params"], c["args"])]
            if len(c["params"]) > 1:
                variants.append(("rev", c["params"][::-1], c["args"][::-1]))
            fp, fa, changed = flatten_pairs(c["params"], c["args"])
            if changed and len(fp) <= 5:
                variants.append(("flat", fp, fa))
            for vi_, (vname, params, args) in enumerate(variants):
                roles = sorted({r for t in params for r in ann_roles(t)})
                tvn = {r: "%s_%d_%d" % (r, ci, vi_) for r in set(roles) | {"U", c["ret_role"]}}
                for r in sorted(tvn):
                    lines.append('%s = TypeVar("%s"%s)' % (tvn[r], tvn[r], GRAM_ROLES.get(r, "")))
                fn = "g_%d_%d" % (ci, vi_)
                ret = c["ret"].format(tvn[c["ret_role"]], U=tvn["U"])
                lines.append("def %s(%s) -> %s:" % (fn, ", ".join("p%d: %s" % (k, ann_text(t, tvn)) for k, t in enumerate(params)), ret))
                lines.append("    raise NotImplementedError")
                insts.append(dict(ci=ci, variant=vname, fn=fn, tvn=tvn, params=params, args=args, roles=roles))
        lines.append("def caller(%s) -> None:" % ", ".join("%s: %s" % va for va in GRAM_VARS))
        for inst in insts:
            lines.append("    reveal_type(%s(%s))" % (inst["fn"], ", ".join(inst["args"])))
            inst["line"] = len(lines)
        src = "\n".join(lines) + "\n"
        records = {}
        orig = SIG.resolve_bounds_map

        def recorder(bounds_map, ctx_, **kw):
            tv_map, errors = orig(bounds_map, ctx_, **kw)
            k = 0
            for tv, bounds in bounds_map.items():
                sol = tv_map.get(tv)
                failed = isinstance(sol, PV.AnyValue) and sol.source is PV.AnySource.error
                own = [errors[k]] if failed and k < len(errors) else []
                k += int(failed)
                n = getattr(tv, "__name__", None)
                if n is not None:
                    records[n] = (list(bounds), sol, own)
            return tv_map, errors

        SIG.resolve_bounds_map = recorder
        try:
            fails, tree, mod = pya.check_source(src, annotate=True)
        finally:
            SIG.resolve_bounds_map = orig
        by_line = {inst["line"]: inst for inst in insts}
        for inst in insts:
            inst["codes"] = []
        for f in fails:
            inst = by_line.get(f["lineno"])
            if inst is not None and f["code"] != "reveal_type":
                inst["codes"].append(f["code"])
        for node in _ast.walk(tree):
            if isinstance(node, _ast.Call) and isinstance(node.func, _ast.Name) and node.func.id == "reveal_type" and node.lineno in by_line:
                by_line[node.lineno]["call"] = node.args[0]
        # ---- the independent route: can_assign per parameter, unify, model
        jobs = []
        for inst in insts:
            inst["codes"] = sorted(set(inst["codes"]))
            inst["verdict"] = "diagnosed" if inst["codes"] else "accepted"
            ctx.count(1, **{"gram_" + inst["verdict"]: 1, "gram_params_%d" % len(inst["params"]): 1, "gram_" + inst["variant"]: 1})
            inst["param_error"] = False
            inst["union"] = None
            try:
                sig = checker.arg_spec_cache.get_argspec(getattr(mod, inst["fn"]))
                groups = {}   # typevar name -> list of (bound objects contributed by one parameter)
                for param, a in zip(sig.parameters.values(), inst["call"].args):
                    r = param.annotation.can_assign(a.inferred_value, checker)
                    if isinstance(r, PV.CanAssignError):
                        inst["param_error"] = True
                        break
                    for tv, bounds in r.items():
                        groups.setdefault(getattr(tv, "__name__", str(tv)), []).append(list(bounds))
                if not inst["param_error"]:
                    inst["union"] = {n: ([[decode_bound(b) for b in g] for g in gs], [b for g in gs for b in g]) for n, gs in groups.items()}
            except V.Unencodable:
                ctx.tag("gram_unencodable_bounds")
            except Exception as e:  # noqa: BLE001
                ctx.tag("gram_oracle_exc_" + type(e).__name__)
            if inst["union"]:
                for n, (gs, objs) in inst["union"].items():
                    if not risky([v for g in gs for b in g for v in bound_values(b)]):
                        jobs.append((inst, n, gs, objs))
        reports = {}
        if with_model and jobs:
            out = lean.run_driver("C15", ["solvecall " + " ".join("(%s)" % bounds_text(g) for g in gs) for _, _, gs, _ in jobs])
            for (inst, n, gs, objs), l in zip(jobs, out):
                reports[id(inst), n] = parse_report(l)
        pending = []
        for inst in insts:
            c = part[inst["ci"]]
            case = {"stream": "gram", "params": c["params"], "ret": c["ret"], "ret_role": c["ret_role"], "args": c["args"],
                    "variant": inst["variant"], "def": next(l for l in src.split("\n") if l.startswith("def %s(" % inst["fn"])),
                    "call": "%s(%s)" % (inst["fn"], ", ".join(inst["args"])), "verdict": inst["verdict"], "codes": inst["codes"]}
            inst["case"] = case
            ctx.nontriv("gram|%s|%s" % (case["def"].split("(", 1)[1], ",".join(inst["args"])))
            if b0 == 0 and inst["ci"] < 2 and inst["variant"] == "id":
                ctx.sample({k: case[k] for k in ("stream", "def", "call", "verdict", "codes")})
            if inst["param_error"]:
                ctx.corr("gram-call")
                if inst["verdict"] != "diagnosed":
                    ctx.disagree("gram-call", case, "accepted", "a parameter annotation rejects its argument")
                continue
            if inst["union"] is None:
                continue
            model_err = False
            inst["D"] = []
            for n, (gs, objs) in inst["union"].items():
                flat = [b for g in gs for b in g]
                rep = reports.get((id(inst), n))
                rec = records.get(n)
                tcase = dict(case, typevar=n, bounds=flat, text=bounds_text(flat))
                ctx.corr("gram-bounds")
                if rec is None:
                    ctx.disagree("gram-bounds", tcase, "no call-level solve for this type variable", "expected " + bounds_text(flat))
                else:
                    try:
                        got = bounds_text([decode_bound(x) for x in rec[0]])
                    except V.Unencodable:
                        got = "UNENC"
                    if got != bounds_text(flat):
                        ctx.disagree("gram-bounds", tcase, got, "expected " + bounds_text(flat))
                if rep is None:
                    continue
                inst["D"] = sorted(set(inst["D"]) | set(rep.get("D", [])))
                conforms = True
                if rec is not None:
                    impl = show_result(uni, rec[1], rec[2], rec[0])
                    ctx.corr("gram")
                    if not impl.startswith("UNENC") and impl != rep.get("res"):
                        conforms = False
                        ctx.disagree("gram", tcase, impl, rep["raw"])
                if not rep.get("res", "").startswith("ok "):
                    model_err = True
                if rep.get("spec") == "0" and inst["verdict"] == "accepted":
                    ctx.tag("fail_gram_unsat")
                    pending.append(dict(case=dict(tcase, kind="unsat"), what="no value satisfies the bounds of %s (%s) but the call is not diagnosed" % (
                        n, bounds_text(flat)), kind="unsat", conforms=conforms, cheap=rep.get("D", []), perms=[flat]))
                if inst["verdict"] == "accepted" and rec is not None and rec[1] is not None and not rec[2]:
                    sol, seen = rec[1], set()
                    for b, o in zip(flat, objs):
                        kind = what = None
                        if literal_member_fails(b, sol):
                            kind, what = "lower", "the solution %s does not contain the literal lower bound %s (reference membership)" % (sol, o.value)
                        elif b[0] == "L" and not sol.is_assignable(o.value, checker):
                            kind, what = "lower", "the solution %s does not accept the lower bound %s" % (sol, o.value)
                        elif b[0] == "U" and not o.value.is_assignable(sol, checker):
                            kind, what = "upper", "the solution %s is not accepted by the upper bound %s" % (sol, o.value)
                        elif b[0] == "O" and not (isinstance(sol, PV.AnyValue) or any(sol == x for x in o.constraints)):
                            kind, what = "oneof", "the solution %s is not one of the constraints" % (sol,)
                        if kind and kind not in seen:
                            seen.add(kind)
                            ctx.tag("fail_gram_" + kind)
                            pending.append(dict(case=dict(tcase, kind=kind), what=what, kind=kind, conforms=conforms, cheap=rep.get("D", []), perms=[flat]))
            if reports:
                ctx.corr("gram-call")
                if model_err and inst["verdict"] != "diagnosed":
                    ctx.disagree("gram-call", case, "accepted", "the model finds no solution for the unified bounds")
        # ---- metamorphic and order comparisons
        per_case = {}
        for inst in insts:
            per_case.setdefault(inst["ci"], {})[inst["variant"]] = inst
        for ci, vs in per_case.items():
            base = vs["id"]
            if "flat" in vs:
                ctx.corr("gram-meta")
                if vs["flat"]["verdict"] != base["verdict"]:
                    ctx.disagree("gram-meta", dict(base["case"], twin=vs["flat"]["case"]["def"], twin_call=vs["flat"]["case"]["call"]),
                                 base["verdict"], "the same bounds spread over several parameters: " + vs["flat"]["verdict"])
            if "rev" in vs and vs["rev"]["verdict"] != base["verdict"]:
                ok, bad = (base, vs["rev"]) if base["verdict"] == "accepted" else (vs["rev"], base)
                ctx.tag("fail_gram_order")
                perms = [[b for g in gs for b in g] for r in (ok, bad) if r.get("union") for gs, _ in r["union"].values()]
                pending.append(dict(case=dict(ok["case"], kind="order", other=bad["case"]["def"], other_call=bad["case"]["call"], codes=bad["codes"]),
                                    what="accepted as %s but diagnosed (%s) with the parameters in the other order" % (ok["case"]["call"], ",".join(bad["codes"])),
                                    kind="order", conforms=True, cheap=sorted(set(ok.get("D", [])) | set(bad.get("D", []))), perms=perms))
        classify(ctx, pending, with_model, uni, "gram")


# ------------------------------------------------------------------ entry points
def corpus():
    path = os.path.join(lean.HERE, "corpus", "C15.jsonl")
    solve, e2e, abstract = [], [], []
    if os.path.exists(path):
        for l in open(path):
            if l.strip():
                d = json.loads(l)
                if d.get("stream") == "gram":
                    continue
                if d.get("stream") == "e2e":
                    e2e.append((d["shape"], d["args"]))
                elif d.get("tab"):
                    abstract.append((d["tab"], [totuple(b) for b in d["bounds"]]))
                else:
                    solve.append([totuple(b) for b in d["bounds"]])
    return solve, e2e, abstract


def gram_case(d):
    return {"params": [totuple(t) for t in d["params"]], "ret": d["ret"], "ret_role": d.get("ret_role", "T"), "args": list(d["args"])}


def corpus_gram():
    path = os.path.join(lean.HERE, "corpus", "C15.jsonl")
    out = []
    if os.path.exists(path):
        for l in open(path):
            if l.strip():
                d = json.loads(l)
                if d.get("stream") == "gram":
                    out.append(gram_case(d))
    return out


def run_all(ctx, with_model):
    c_solve, c_e2e, c_abs = corpus()
    run_gram(ctx, corpus_gram() + gen_gram(ctx), with_model)
    evaluate(ctx, c_solve, with_model, stream="solve", sample_every=5)
    for tab, bs in c_abs:
        evaluate(ctx, [bs], with_model, uni=Universe(tab), stream="abstract", sample_every=10 ** 9)
    if c_e2e:
        run_e2e(ctx, c_e2e, with_model)
    ms = gen_multisets(ctx)
    CH = 4000
    for i in range(0, len(ms), CH):
        evaluate(ctx, ms[i:i + CH], with_model, stream="solve")
    evaluate(ctx, gen_big(ctx), with_model, stream="solve-big", sample_every=61)
    # malformed stream: correspondence only (several constraint lists are outside the property)
    mal = gen_malformed(ctx)
    sub = Sub(ctx)
    evaluate(sub, mal, with_model, stream="malformed", sample_every=10 ** 9)
    items = []
    for tab, group in gen_abstract(ctx):
        u = Universe(tab)
        items += [(u, bs) for bs in group]
    evaluate(ctx, items, with_model, stream="abstract", sample_every=1499)
    run_gen(ctx, with_model)
    run_e2e(ctx, gen_e2e(ctx), with_model)


class Sub:
    """A view of ctx that keeps correspondence results but drops property candidates (inputs outside the property)."""

    def __init__(self, ctx):
        self._ctx = ctx

    def __getattr__(self, k):
        return getattr(self._ctx, k)

    def candidate(self, *a, **k):
        self._ctx.tag("outside_property_failures")


def run(ctx):
    run_all(ctx, True)


def run_impl_only(ctx):
    run_all(ctx, False)


def replay(ctx, data):
    c = data["case"]
    if c.get("stream") == "gram":
        run_gram(ctx, [gram_case(c)])
    elif c.get("stream") == "e2e" and "shape" in c:
        run_e2e(ctx, [(c["shape"], c["args"])])
    elif c.get("stream") == "gen":
        run_gen(ctx)
    else:
        uni = Universe(c["tab"]) if c.get("tab") else None
        evaluate(ctx, [[totuple(b) for b in c["bounds"]]], uni=uni, stream=c.get("stream", "solve"), sample_every=1)
    print(json.dumps({"candidates": ctx.candidates[:3], "broken": ctx.broken[:3], "samples": ctx.samples[:3]}, indent=1, default=str))
    return 1 if (ctx.candidates or ctx.broken) else 0
