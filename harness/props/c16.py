"""C16 — automatic fixes are safe: valid code, error gone, nothing else changed.

Streams
  ignores : generated program P with diagnostics -> the real `--add-ignores` loop, in-process: a NameCheckVisitor with
            add_ignores=True records one Replacement per failure, `BaseNodeVisitor._apply_changes` applies the first one
            to the file on disk (under ctx.scratch); repeated to the fixpoint or a round cap.  After every round:
            the file parses, `ast.dump` is the original one, the failures are exactly the previous ones minus the
            (code, line) the comment was added for (renumbered); at the fixpoint: nothing is reported any more and
            removing any one inserted comment brings back exactly the diagnostics it was added for.
  fixes   : generated functions with fixable diagnostics (unused variable, use_fstrings, missing_f,
            too_many_positional_args) -> the real autofix round (same route, add_ignores off), repeated to the fixpoint.
            After every round: the file parses; outside the rewritten statement the AST is unchanged (the statement is
            gone for removals); every generated function returns what it returned before on sample arguments (for
            missing_f: the old string `.format`ted); the proposing diagnostic is no longer reported.
  apply   : synthetic (file, Replacement list) -> real `_apply_changes_to_lines`           == Lean `applyChanges`
  range   : every statement of every generated program -> real `get_line_range_for_node`   == Lean `lineRange`
  cli     : a few programs through `python -m pyanalyze --add-ignores -r` in a subprocess (the real `main` loop with
            ITERATION_LIMIT) == the in-process loop == Lean `mainLoop`
  model   : lake env lean --run Driver/C16.lean (addIgnoresRound/iterate/mainLoop, applyChanges, specApply, lineRange,
            specRange, lexer, D16 classes, C11 link)
  spec-lex: Lean `lexStateAt` says "a comment line may be inserted before line p" == CPython says inserting one leaves
            ast.dump unchanged (for every line of every generated program)
Correspondence: ignores/cli == model round by round (failures in order, file text); fixes == model (the applied change);
apply/range == model directly; inside the model C11.check == C16.visible on every round (c11-link).
"""
import ast, collections, contextlib, copy, io, itertools, json, os, subprocess, sys, tokenize, types

from harness.common import lean, pya

PROP = "C16"
LEAN_PROP = "PyaModel.Props.C16"
NAMESPACE = "Pya.C16"
LEAN_TARGETS = ["PyaModel.Spec.FixSpec"]
ANCHORS = [
    ("pyanalyze/node_visitor.py", "Replacement"),
    ("pyanalyze/node_visitor.py", "BaseNodeVisitor._apply_changes_to_lines"),
    ("pyanalyze/node_visitor.py", "BaseNodeVisitor._apply_changes"),
    ("pyanalyze/node_visitor.py", "BaseNodeVisitor._run_and_apply_changes"),
    ("pyanalyze/node_visitor.py", "BaseNodeVisitor.main"),
    ("pyanalyze/node_visitor.py", "BaseNodeVisitor.show_error"),
    ("pyanalyze/node_visitor.py", "BaseNodeVisitor._lines"),
    ("pyanalyze/node_visitor.py", "BaseNodeVisitor.has_file_level_ignore"),
    ("pyanalyze/node_visitor.py", "BaseNodeVisitor.check_for_test"),
    ("pyanalyze/node_visitor.py", "ReplacingNodeVisitor.replace_node"),
    ("pyanalyze/node_visitor.py", "ReplacingNodeVisitor.remove_node"),
    ("pyanalyze/analysis_lib.py", "get_line_range_for_node"),
    ("pyanalyze/analysis_lib.py", "get_indentation"),
    ("pyanalyze/format_strings.py", "maybe_replace_with_fstring"),
    ("pyanalyze/node_visitor.py", "NodeTransformer.generic_visit"),
    ("pyanalyze/node_visitor.py", "ReplaceNodeTransformer.generic_visit"),
    ("pyanalyze/name_check_visitor.py", "NameCheckVisitor._check_function_unused_vars"),
]
RULE = (
    "ignores: programs = header (a line-1 diagnostic / leading comment block / docstring / nothing) + 1-3 functions and "
    "an optional class whose bodies are drawn from ~40 statement templates (one diagnostic per line; several of one code "
    "per line; two codes on one line; diagnostics on continuation lines inside brackets, after a backslash, inside a "
    "triple-quoted f-string; after decorators; tab indentation; nested blocks; a form feed or \\x1e above the diagnostic — "
    "regression for the repaired splitlinesMismatch) + tail (diagnostic on the "
    "last line, with and without final newline); every program imports cleanly and has diagnostics. First every "
    "template alone under every header, then seeded random combinations. A comment is 'added for' the (code, line) of "
    "the first reported failure of its round (all diagnostics of that code on that line). fixes: functions t<k>(a, b, c) "
    "from ~30 layouts of a fixable statement (one line, bracketed multi-line, triple-quoted, backslash, `;`-joined, "
    "one-line `if`, `elif`, only statement of a block, nested, first/last line), alone and in random combinations. "
    "apply: all files of <=3 lines x all deletion lists over {0..4} of length <=2 x additions of 0-2 lines / None, then "
    "random ones (duplicates, out-of-range, empty list). non-trivial = a round that changes the file"
)
ASSUMPTIONS = [
    "A1 raw-stream independence (shared with C11): the visitor's diagnostics depend only on the non-comment content of "
    "the file, so after a comment line is inserted the stream is the old one renumbered; not proved — every real round of "
    "the ignores stream is compared with the model's prediction from the first run's stream",
    "A2 comments are not tokens: a comment-only line inserted where a physical line starts in lexer state `code` changes "
    "neither the token stream nor the AST; the line-level lexer (Spec/FixSpec.lean) is validated against CPython on "
    "every line of every generated program (stream spec-lex); nested same-quote f-strings (PEP 701) and comments inside "
    "multi-line f-string replacement fields are outside the generators",
    "diagnostics carry a code and a position and obey ignore comments (all diagnostics of the visitor do); unused_ignore / "
    "bare_ignore (off by default, emitted with obey_ignore=False) are off in every stream",
    "the text of a real fix (ast_decompiler.decompile) is taken from the implementation; only its placement is modelled",
    "sources contain no carriage return (files are read with universal newlines, so none reaches pyanalyze)",
]
TRUSTED = [
    "CPython ast / tokenize / exec as oracle for 'parses', 'same tree', 'same behaviour'; the position arithmetic of the "
    "expected failure list in harness/props/c16.py",
]

IC = "# static analysis: ignore"
ROUND_CAP_QUICK, ROUND_CAP = 12, 50
FIX_CODES = ("unused_variable", "unused_assignment", "use_fstrings", "missing_f", "too_many_positional_args")


# ------------------------------------------------------------------ constants regenerated from the live source
# ------------------------------------------------------------------ fix routes: every producer call, its guards, its callers
ROUTE_FILES = ["name_check_visitor.py", "node_visitor.py", "format_strings.py", "implementation.py", "signature.py",
               "asynq_checker.py", "yield_checker.py"]
PRODUCER_CALLS = ("replace_node", "remove_node", "Replacement")


def implied_isinstance(test, pol=True):
    """{(expression text, ast class)} that a condition (pol=True) or its negation (pol=False) implies through isinstance."""
    out = set()
    if isinstance(test, ast.BoolOp):
        if (isinstance(test.op, ast.And) and pol) or (isinstance(test.op, ast.Or) and not pol):
            for v in test.values:
                out |= implied_isinstance(v, pol)
    elif isinstance(test, ast.UnaryOp) and isinstance(test.op, ast.Not):
        out |= implied_isinstance(test.operand, not pol)
    elif pol and isinstance(test, ast.Call) and isinstance(test.func, ast.Name) and test.func.id == "isinstance" and len(test.args) == 2:
        ks = test.args[1].elts if isinstance(test.args[1], ast.Tuple) else [test.args[1]]
        names = [k.attr for k in ks if isinstance(k, ast.Attribute) and isinstance(k.value, ast.Name) and k.value.id == "ast"]
        if len(names) == len(ks) == 1:
            out.add((ast.unparse(test.args[0]), names[0]))
    return out


def ast_category(cls):
    c = getattr(ast, cls, None)
    if c is None or not isinstance(c, type):
        return "other"
    return "expr" if issubclass(c, ast.expr) else "stmt" if issubclass(c, ast.stmt) else "other"


def _kind_text(kinds):
    kinds = {k for k in kinds if k != "AST"} or set(kinds)
    if not kinds:
        return "unknown"
    return "%s:%s" % ("/".join(sorted({ast_category(k) for k in kinds})), ",".join(sorted(kinds)))


def scan_fix_routes(repo):
    """Every call of replace_node / remove_node / Replacement(...) and every store into _changes_for_fixer in the fix
    producers' files: enclosing function, first argument, the conditions it sits under (enclosing `if`s, negated for
    `else`, plus negated early exits `if c: continue/return`), the kind of node it rewrites and of the replacement
    (from isinstance guards, parameter annotations, visit_<Cls>, `ast.<Cls>(…)` constructors), and its callers."""
    funcs = {}
    for fn in ROUTE_FILES:
        tree = ast.parse(open(os.path.join(repo, "pyanalyze", fn)).read())

        def walk(node, qual):
            for ch in ast.iter_child_nodes(node):
                if isinstance(ch, (ast.FunctionDef, ast.AsyncFunctionDef)):
                    funcs.setdefault(ch.name, []).append((fn, ".".join(qual + [ch.name]), ch))
                    walk(ch, qual + [ch.name])
                elif isinstance(ch, ast.ClassDef):
                    walk(ch, qual + [ch.name])
                else:
                    walk(ch, qual)
        walk(tree, [])
    producers = []

    def header_calls(st):
        if isinstance(st, (ast.FunctionDef, ast.AsyncFunctionDef, ast.ClassDef)):
            return []
        roots = []
        for f, v in ast.iter_fields(st):
            if f not in ("body", "orelse", "finalbody", "handlers"):
                roots += v if isinstance(v, list) else [v]
        out = []
        for r in roots:
            if isinstance(r, ast.AST):
                for n in ast.walk(r):
                    if isinstance(n, ast.Call):
                        nm = n.func.attr if isinstance(n.func, ast.Attribute) else n.func.id if isinstance(n.func, ast.Name) else None
                        if nm in PRODUCER_CALLS:
                            out.append((nm, n))
                    if isinstance(n, ast.Subscript) and isinstance(n.value, ast.Attribute) and n.value.attr == "_changes_for_fixer":
                        out.append(("_changes_for_fixer", n))
        return out

    for name, lst in sorted(funcs.items()):
        for fn, qual, fnode in lst:
            assigns = {}
            for n in ast.walk(fnode):
                if isinstance(n, ast.Assign) and len(n.targets) == 1 and isinstance(n.targets[0], ast.Name):
                    assigns.setdefault(n.targets[0].id, []).append(n.value)

            def expr_kind(e):
                if isinstance(e, ast.Call) and isinstance(e.func, ast.Attribute) and isinstance(e.func.value, ast.Name) and e.func.value.id == "ast":
                    return {e.func.attr}
                if isinstance(e, ast.Name) and e.id in assigns:
                    ks = set()
                    for v in assigns[e.id]:
                        k = expr_kind(v) if not isinstance(v, ast.Name) else set()
                        if not k:
                            return set()
                        ks |= k
                    return ks
                return set()

            def emit(nm, n, guards):
                target = ast.unparse(n.args[0]) if isinstance(n, ast.Call) and n.args else "-"
                kinds = set()
                for pol, t in guards:
                    kinds |= {c for (e, c) in implied_isinstance(t, pol == "if") if e == target}
                if not kinds:
                    for a in fnode.args.args + fnode.args.kwonlyargs:
                        if a.arg == target and a.annotation is not None and ast.unparse(a.annotation).startswith("ast."):
                            kinds.add(ast.unparse(a.annotation)[4:])
                    if fnode.name.startswith("visit_") and target == "node":
                        kinds = {fnode.name[6:]}
                repl = "-"
                if nm == "replace_node" and isinstance(n, ast.Call) and len(n.args) > 1:
                    repl = _kind_text(expr_kind(n.args[1]))
                producers.append({"file": fn, "func": qual, "call": nm, "target": target, "kinds": kinds, "replKind": repl,
                                  "guards": [("" if pol == "if" else "not ") + "(" + ast.unparse(t) + ")" for pol, t in guards],
                                  "fname": fnode.name, "argpos": 0})

            def visit(stmts, guards):
                early = []
                for st in stmts:
                    g = guards + early
                    for nm, n in header_calls(st):
                        emit(nm, n, g)
                    if isinstance(st, ast.If):
                        visit(st.body, g + [("if", st.test)])
                        visit(st.orelse, g + [("not", st.test)])
                        if st.body and isinstance(st.body[-1], (ast.Continue, ast.Return, ast.Raise)) and not st.orelse:
                            early.append(("not", st.test))
                    elif isinstance(st, (ast.For, ast.AsyncFor, ast.While)):
                        visit(st.body, g)
                        visit(st.orelse, g)
                    elif isinstance(st, (ast.With, ast.AsyncWith)):
                        visit(st.body, g)
                    elif isinstance(st, ast.Try):
                        visit(st.body, g)
                        for h in st.handlers:
                            visit(h.body, g)
                        visit(st.orelse, g)
                        visit(st.finalbody, g)
            visit(fnode.body, [])
    rows = []
    for p in producers:
        callers = []
        if p["fname"] != "show_error":
            params = None
            for fn, qual, fnode in funcs.get(p["fname"], []):
                if qual == p["func"]:
                    params = [a.arg for a in fnode.args.args if a.arg not in ("self", "cls")]
            for name, lst in funcs.items():
                for fn, qual, fnode in lst:
                    if qual == p["func"]:
                        continue
                    for n in ast.walk(fnode):
                        if isinstance(n, ast.Call):
                            nm = n.func.attr if isinstance(n.func, ast.Attribute) else n.func.id if isinstance(n.func, ast.Name) else None
                            if nm == p["fname"]:
                                callers.append("%s:%s(%s)" % (fn, qual, ", ".join(ast.unparse(a) for a in n.args[:3])))
                                # a visit_<Cls> method handing on its own node tells the kind of the target
                                if params and p["target"] in params and not ({k for k in p["kinds"] if k != "AST"}):
                                    i = params.index(p["target"])
                                    if i < len(n.args) and ast.unparse(n.args[i]) == "node" and fnode.name.startswith("visit_"):
                                        p.setdefault("callerKinds", set()).add(fnode.name[6:])
                                    else:
                                        p.setdefault("callerKinds", set()).add("?")
        ck = p.get("callerKinds", set())
        kinds = p["kinds"]
        if not ({k for k in kinds if k != "AST"}) and ck and "?" not in ck:
            kinds = ck
        rows.append({"file": p["file"], "func": p["func"], "call": p["call"], "target": p["target"], "targetKind": _kind_text(kinds),
                     "replKind": p["replKind"], "guards": p["guards"], "callers": sorted(set(callers))})
    return sorted(rows, key=lambda r: (r["file"], r["func"], r["call"], r["target"], r["guards"]))


def _lean_str(x):
    return json.dumps(x, ensure_ascii=True)


def routes_lean_text(rows, namespace, defname, header):
    def lst(xs):
        return "[" + ", ".join(_lean_str(x) for x in xs) + "]"
    body = ",\n".join("  { file := %s, func := %s, call := %s, target := %s, targetKind := %s, replKind := %s,\n    guards := %s,\n    callers := %s }" % (
        _lean_str(r["file"]), _lean_str(r["func"]), _lean_str(r["call"]), _lean_str(r["target"]), _lean_str(r["targetKind"]),
        _lean_str(r["replKind"]), lst(r["guards"]), lst(r["callers"])) for r in rows)
    return "%snamespace %s\n\ndef %s : List Pya.C16.Route := [\n%s\n]\n\n" % (header, namespace, defname, body)


def translate_routes(ctx):
    rows = scan_fix_routes(pya.REPO)
    exprs = sorted(c.__name__ for c in vars(ast).values() if isinstance(c, type) and issubclass(c, ast.expr) and c is not ast.expr)
    stmts = sorted(c.__name__ for c in vars(ast).values() if isinstance(c, type) and issubclass(c, ast.stmt) and c is not ast.stmt)
    text = routes_lean_text(rows, "Pya.C16.Gen", "fixRoutes",
                            "import PyaModel.Core.NodeCopy\n/-! Regenerated by harness/props/c16.py `translate` from the live pyanalyze (AST scan of the fix producers); do not edit. -/\n")
    text += "/-- the subclasses of `ast.expr` / `ast.stmt` of the running CPython -/\n"
    text += "def exprKinds : List String := [%s]\n\ndef stmtKinds : List String := [%s]\n\nend Pya.C16.Gen\n" % (
        ", ".join(_lean_str(x) for x in exprs), ", ".join(_lean_str(x) for x in stmts))
    lean.write_if_changed(os.path.join(lean.LEAN, "PyaModel", "Generated", "FixRoutes.lean"), text)
    return rows


def _guard_to_lean(e):
    """The Python subset the removal guard of `_check_function_unused_vars` is written in -> a Lean Bool term over
    `s : AssignStmt`, `u : String` (Core/Binding.lean). Anything else: ValueError (the tie is broken, never skipped)."""
    def targets_index(x):
        # statement.targets[K]
        if isinstance(x, ast.Subscript) and isinstance(x.value, ast.Attribute) and x.value.attr == "targets" \
                and isinstance(x.value.value, ast.Name) and x.value.value.id == "statement" \
                and isinstance(x.slice, ast.Constant) and isinstance(x.slice.value, int) and x.slice.value >= 0:
            return "(s.targets.nth %d)" % x.slice.value
        raise ValueError("removal guard: not statement.targets[K]: " + ast.dump(x))

    if isinstance(e, ast.BoolOp):
        op = " && " if isinstance(e.op, ast.And) else " || "
        return "(" + op.join(_guard_to_lean(v) for v in e.values) + ")"
    if isinstance(e, ast.UnaryOp) and isinstance(e.op, ast.Not):
        return "!(" + _guard_to_lean(e.operand) + ")"
    if isinstance(e, ast.Compare) and len(e.ops) == 1:
        l, op, r = e.left, e.ops[0], e.comparators[0]
        if isinstance(l, ast.Call) and isinstance(l.func, ast.Name) and l.func.id == "len" and len(l.args) == 1 \
                and isinstance(l.args[0], ast.Attribute) and l.args[0].attr == "targets" \
                and isinstance(l.args[0].value, ast.Name) and l.args[0].value.id == "statement" \
                and isinstance(r, ast.Constant) and isinstance(r.value, int):
            sym = {ast.Eq: "==", ast.NotEq: "!=", ast.Gt: ">", ast.GtE: ">=", ast.Lt: "<", ast.LtE: "<="}.get(type(op))
            if sym is None:
                raise ValueError("removal guard: comparison operator " + type(op).__name__)
            return "(s.targets.length %s %d)" % (sym, r.value) if sym in ("==", "!=") else "decide (s.targets.length %s %d)" % (sym, r.value)
        if isinstance(op, (ast.Is, ast.IsNot)) and isinstance(r, ast.Name) and r.id == "unused":
            t = "(%s.isName u)" % targets_index(l)
            return t if isinstance(op, ast.Is) else "!" + t
        raise ValueError("removal guard: comparison outside the subset: " + ast.dump(e))
    if isinstance(e, ast.Call) and isinstance(e.func, ast.Name) and e.func.id == "any" and len(e.args) == 1 \
            and ast.unparse(e.args[0]) == "(isinstance(n, ast.NamedExpr) for n in ast.walk(statement))":
        return "(!s.valueBinds.isEmpty)"
    if isinstance(e, ast.Call) and isinstance(e.func, ast.Name) and e.func.id == "isinstance" and len(e.args) == 2:
        kinds = e.args[1].elts if isinstance(e.args[1], ast.Tuple) else [e.args[1]]
        names = []
        for k in kinds:
            if isinstance(k, ast.Attribute) and isinstance(k.value, ast.Name) and k.value.id == "ast":
                names.append(k.attr)
            else:
                raise ValueError("removal guard: isinstance class outside the subset: " + ast.dump(k))
        return "(%s.isKind [%s])" % (targets_index(e.args[0]), ", ".join('"%s"' % n for n in sorted(names)))
    raise ValueError("removal guard: expression outside the subset: " + ast.dump(e))


def removal_guard_expr():
    """The test of the `if` in `_check_function_unused_vars` whose body attaches `self.remove_node(unused, statement)`."""
    import inspect, textwrap
    from pyanalyze.name_check_visitor import NameCheckVisitor
    tree = ast.parse(textwrap.dedent(inspect.getsource(NameCheckVisitor._check_function_unused_vars)))
    found = []
    for n in ast.walk(tree):
        if isinstance(n, ast.If):
            for st in n.body:
                if isinstance(st, ast.Assign) and isinstance(st.value, ast.Call) and isinstance(st.value.func, ast.Attribute) \
                        and st.value.func.attr == "remove_node":
                    found.append(n.test)
    if len(found) != 1:
        raise ValueError("_check_function_unused_vars: expected exactly one `if …: replacement = self.remove_node(…)`, found %d" % len(found))
    return found[0]


def translate(ctx):
    from pyanalyze import node_visitor
    guard = removal_guard_expr()
    text = (
        "import PyaModel.Core.Binding\n"
        "/-! Regenerated by harness/props/c16.py `translate` from the live pyanalyze; do not edit. -/\n"
        "namespace Pya.C16.Gen\n\n"
        "/-- `pyanalyze.node_visitor.ITERATION_LIMIT` -/\n"
        "def iterationLimit : Nat := %d\n\n"
        "/-- `pyanalyze.node_visitor.IGNORE_COMMENT` -/\n"
        "def ignoreComment : String := %s\n\n"
        "/-- The condition under which `_check_function_unused_vars` attaches `remove_node(unused, statement)` to an\n"
        "`ast.Assign` (micro-translated from the live source: `%s`). -/\n"
        "def removalGuard (s : Pya.C16.AssignStmt) (u : String) : Bool :=\n  %s\n\n"
        "end Pya.C16.Gen\n"
    ) % (int(node_visitor.ITERATION_LIMIT), '"' + node_visitor.IGNORE_COMMENT.replace("\\", "\\\\").replace('"', '\\"') + '"',
         ast.unparse(guard).replace("`", "'"), _guard_to_lean(guard))
    lean.write_if_changed(os.path.join(lean.LEAN, "PyaModel", "Generated", "FixConsts.lean"), text)
    translate_routes(ctx)


# ------------------------------------------------------------------ running the real thing
_CLS = None
_KW = {}
_MODN = [0]


def _classes():
    global _CLS
    if _CLS is not None:
        return _CLS
    from pyanalyze.name_check_visitor import NameCheckVisitor

    class Rec(NameCheckVisitor):
        """NameCheckVisitor that remembers which statement each proposed Replacement rewrites."""

        _stmts = None
        _routes = None

        def replace_node(self, current_node, new_node, current_statement=None):
            r = super().replace_node(current_node, new_node, current_statement)
            st = current_statement if current_statement is not None else self.current_statement
            if self._stmts is not None:
                f1, f2 = sys._getframe(1), sys._getframe(2)
                self._routes.append(("replace_node", f1.f_code.co_name, f2.f_code.co_name, type(current_node).__name__,
                                     type(new_node).__name__, r is not None))
            if r is not None and self._stmts is not None and st is not None:
                self._stmts[id(r)] = ("replace", st, r, current_node, new_node)
            return r

        def remove_node(self, current_node, current_statement=None):
            r = super().remove_node(current_node, current_statement)
            st = current_statement if current_statement is not None else self.current_statement
            if self._stmts is not None:
                f1, f2 = sys._getframe(1), sys._getframe(2)
                self._routes.append(("remove_node", f1.f_code.co_name, f2.f_code.co_name, type(current_node).__name__, "-", r is not None))
            if r is not None and self._stmts is not None and st is not None:
                self._stmts[id(r)] = ("remove", st, r, None, None)
            return r

    _CLS = (NameCheckVisitor, Rec)
    return _CLS


def get_kwargs(profile):
    NCV, _ = _classes()
    if profile not in _KW:
        if profile == "std":
            st = pya.default_settings()
        elif profile == "fix":
            st = pya.default_settings(extra_on=FIX_CODES)
        elif profile == "nodefix":
            st = pya.default_settings(extra_on=("use_fstrings", "missing_f", "too_many_positional_args"))
        elif profile == "default":
            st = NCV._get_default_settings()
        else:
            raise ValueError(profile)
        _KW[profile] = NCV.prepare_constructor_kwargs({"settings": st})
    return _KW[profile]


LAST_ROUTES = []
ROUTES_SEEN = {}


def real_round(ctx, src, add_ignores, profile):
    """One `_run_and_apply_changes(autofix=True)`-equivalent round on `src`.
    Returns (fails [(code, line, col, msg)], changes [(dels, adds|None)], info of changes[0] or None, new source)."""
    import qcore
    from pyanalyze.analysis_lib import make_module
    NCV, Rec = _classes()
    kwargs = get_kwargs(profile)
    _MODN[0] += 1
    name = "c16mod%d" % _MODN[0]
    tree = ast.parse(src)
    mod = make_module(src, {"__name__": name})
    changes = collections.defaultdict(list)
    try:
        with contextlib.redirect_stderr(io.StringIO()), contextlib.redirect_stdout(io.StringIO()):
            with qcore.override(Rec, "_changes_for_fixer", changes):
                v = Rec(mod.__name__, src, tree, module=mod, add_ignores=add_ignores, **kwargs)
                v._stmts = {}
                v._routes = []
                res = v.check()
    finally:
        for k in [k for k, m in sys.modules.items() if m is mod]:
            sys.modules.pop(k, None)
    fails = [(f["code"].name if f.get("code") is not None else None, f.get("lineno"), f.get("col_offset"),
              pya.norm(f.get("description", "")).split("\n")[0].replace(name, "<mod>")) for f in res]
    chs = changes.get(mod.__name__, [])
    out = [(list(c.linenos_to_delete), None if c.lines_to_add is None else list(c.lines_to_add)) for c in chs]
    # every producer call of this run: (call, function, its caller, kind of the rewritten node, of the replacement, produced)
    LAST_ROUTES[:] = v._routes
    for (call, f1, f2, tk, rk, ok) in v._routes:
        ROUTES_SEEN[(call, f1, f2)] = ROUTES_SEEN.get((call, f1, f2), 0) + 1
    info = None
    if chs and id(chs[0]) in v._stmts:
        kind, st, _, cur_node, new_node = v._stmts[id(chs[0])]
        info = {"kind": kind, "type": type(st).__name__, "lineno": st.lineno, "col": st.col_offset,
                "end_lineno": st.end_lineno, "end_col": st.end_col_offset}
        if cur_node is not None and hasattr(cur_node, "lineno"):
            info["target"] = (type(cur_node).__name__, cur_node.lineno, cur_node.col_offset,
                              getattr(cur_node, "end_lineno", None), getattr(cur_node, "end_col_offset", None))
            info["new_node"] = new_node
            info["target_in_joinedstr"] = any(isinstance(p_, ast.JoinedStr) and any(x is cur_node for x in p_.values)
                                              for p_ in ast.walk(st))
    # the real file route: readlines -> _apply_changes_to_lines -> write
    path = os.path.join(ctx.scratch, "c16_apply.py")
    with open(path, "w", newline="") as f:
        f.write(src)
    NCV._apply_changes({path: chs})
    with open(path, newline="") as f:
        new = f.read()
    return fails, out, info, new


# ------------------------------------------------------------------ driver protocol
def enc_line(l):
    return ".".join(str(ord(c)) for c in l) if l else "-"


def enc_lines(ls):
    return " ".join(enc_line(l) for l in ls) if ls else "E"


def enc_adds(a):
    return "N" if a is None else enc_lines(a)


def dec_lines(s):
    if s == "E":
        return []
    return ["" if t == "-" else "".join(chr(int(x)) for x in t.split(".")) for t in s.split(" ")]


HASH_MOD = 2305843009213693951


def hash_lines(ls):
    h = 11
    for l in ls:
        x = 7
        for c in l:
            x = (x * 131 + ord(c) + 1) % HASH_MOD
        h = (h * 1000003 + x) % HASH_MOD
    return h


def file_lines(src):
    """readlines() without the newline characters."""
    ls = src.split("\n")
    if ls and ls[-1] == "":
        ls.pop()
    return ls


def strip_nl(lines):
    return [l[:-1] if l.endswith("\n") else l for l in lines]


def show_fails(fails):
    return ",".join("%s@%s.%s" % (f[0], f[1], f[2]) for f in fails) or "-"


def parse_kv(s):
    if s in ("bad-op", "EXC") or s.startswith("EXC"):
        return {"raw": s}
    out = {}
    # `last=` and `model=`/`spec=` values contain spaces: split on known keys
    keys = ["D", "ok", "c11", "lex", "out", "spec", "rounds", "srounds", "last", "model", "wf", "range", "guard", "sole", "old"]
    toks = s.split(" ")
    cur = None
    for t in toks:
        k = t.split("=", 1)[0] if "=" in t else None
        if k in keys and (cur is None or k not in out):
            cur = k
            out[k] = t.split("=", 1)[1]
        elif cur is not None:
            out[cur] += " " + t
    return out


def classes_of(d):
    c = d.get("D", "-")
    return [] if c in ("-", None) else c.split(",")


# ------------------------------------------------------------------ oracles (CPython only)
def try_parse(src):
    try:
        return ast.parse(src)
    except (SyntaxError, ValueError):
        return None


def safe_insert_points(src):
    """For every line p (1-based): does inserting a comment-only line before p leave ast.dump unchanged?"""
    base = ast.dump(ast.parse(src))
    ls = src.split("\n")
    n = len(file_lines(src))
    out = []
    for p in range(1, n + 1):
        new = "\n".join(ls[:p - 1] + ["# c"] + ls[p - 1:])
        t = try_parse(new)
        out.append(t is not None and ast.dump(t) == base)
    return out


def find_stmt(tree, info):
    for n in ast.walk(tree):
        if isinstance(n, ast.stmt) and type(n).__name__ == info["type"] and n.lineno == info["lineno"] \
                and n.col_offset == info["col"] and n.end_lineno == info["end_lineno"] and n.end_col_offset == info["end_col"]:
            return n
    return None


def parent_map(tree):
    pm = {}
    for n in ast.walk(tree):
        for field, val in ast.iter_fields(n):
            if isinstance(val, list):
                for i, ch in enumerate(val):
                    if isinstance(ch, ast.AST):
                        pm[ch] = (n, field, i)
            elif isinstance(val, ast.AST):
                pm[val] = (n, field, None)
    return pm


def stmt_facts(src, tree, st):
    """(sharesLine, soleInBlock, isElif) from ast + tokenize."""
    pm = parent_map(tree)
    par, field, idx = pm[st]
    sole = idx is not None and len(getattr(par, field)) == 1
    lines = src.split("\n")
    is_elif = (isinstance(st, ast.If) and isinstance(par, ast.If) and field == "orelse" and sole
               and lines[st.lineno - 1][st.col_offset:st.col_offset + 4] == "elif")
    shares = False
    lo, hi = (st.lineno, st.col_offset), (st.end_lineno, st.end_col_offset)
    skip = {tokenize.NL, tokenize.NEWLINE, tokenize.COMMENT, tokenize.INDENT, tokenize.DEDENT, tokenize.ENDMARKER, tokenize.ENCODING}
    try:
        # tokenize counts columns in characters like ast does for ASCII sources (the generated ones)
        for tok in tokenize.generate_tokens(io.StringIO(src).readline):
            if tok.type in skip or (tok.type == tokenize.OP and tok.string == ";"):
                continue
            if st.lineno <= tok.start[0] <= st.end_lineno or st.lineno <= tok.end[0] <= st.end_lineno:
                if tok.start < lo or tok.end > hi:
                    shares = True
                    break
    except (tokenize.TokenError, IndentationError, SyntaxError):
        pass
    risky = False
    for n in ast.walk(st):
        if isinstance(n, ast.BinOp) and isinstance(n.op, ast.Mod) and isinstance(n.left, ast.Constant) and isinstance(n.left.value, str):
            if "%d" in n.left.value or not isinstance(n.right, ast.Tuple):
                risky = True
    decorated = bool(getattr(st, "decorator_list", None))
    has_walrus = any(isinstance(n, ast.NamedExpr) for n in ast.walk(st))
    tail = False
    for n in ast.walk(st):
        if isinstance(n, ast.BinOp) and isinstance(n.op, ast.Mod) and isinstance(n.left, ast.Constant) and isinstance(n.left.value, str):
            t = n.left.value
            if t.endswith("\n"):
                import re as _re
                last = None
                for m in _re.finditer(r"%[#0\- +]*(\*|\d+)?(\.(\*|\d+))?[hlL]?[diouxXeEfFgGcrsba%]", t):
                    last = m
                if last is not None and t[last.end():] != "\n":
                    tail = True
    zero = False
    for n in ast.walk(st):
        if isinstance(n, ast.BinOp) and isinstance(n.op, ast.Mod) and isinstance(n.left, ast.Constant) and isinstance(n.left.value, str):
            import re as _re
            if _re.search(r"%[#\- +]*(0[diouxXeEfFgGcrsba]|\d*\.0?[diouxXeEfFgGcrsba])", n.left.value):
                zero = True
    return shares, sole, is_elif, risky, decorated, has_walrus, tail, zero


def dump_without(tree, st, placeholder):
    """ast.dump of the tree with statement `st` removed (placeholder=None) or replaced by `pass`."""
    t = copy.deepcopy(tree)
    # locate the copy of st by position
    target = None
    for n in ast.walk(t):
        if isinstance(n, ast.stmt) and type(n) is type(st) and (n.lineno, n.col_offset, n.end_lineno, n.end_col_offset) == \
                (st.lineno, st.col_offset, st.end_lineno, st.end_col_offset):
            target = n
            break
    pm = parent_map(t)
    par, field, idx = pm[target]
    body = getattr(par, field)
    if placeholder:
        body[idx] = ast.Pass()
    else:
        del body[idx]
    return ast.dump(t)


SAMPLE_ARGS = [(3, "x", 5), (0, "", 7), (12, "k", 0)]


def behaviour(src):
    """What every generated function t<k> returns on the sample arguments (repr, or the exception type)."""
    ns = {"__name__": "c16beh"}
    try:
        exec(compile(src, "<c16>", "exec"), ns)
    except BaseException as e:  # noqa
        return {"<module>": "EXC:" + type(e).__name__}
    out = {}
    for k in sorted(ns):
        if k.startswith("t") and k[1:].isdigit() and callable(ns[k]):
            res = []
            for args in SAMPLE_ARGS:
                try:
                    res.append(repr(ns[k](*args)))
                except BaseException as e:  # noqa
                    res.append("EXC:" + type(e).__name__)
            out[k] = res
    return out


# ------------------------------------------------------------------ generators: programs with diagnostics
PRELUDE = ["import os", "def f(a: int, b: str = \"\") -> int:", "    return a"]
# (name, lines relative to the body indentation; {n} = fresh number). Groups by expected behaviour.
T_SAFE = [
    ("undef", ["x{n} = undefined_{n}"]),
    ("badarg", ["f(\"s\")"]),
    ("badcall", ["f(1, 2, 3)"]),
    ("binop", ["y{n} = 1 + \"a\""]),
    ("attr", ["os.nope{n}"]),
    ("unpack", ["a{n}, b{n} = 1, 2, 3"]),
    ("annassign", ["x{n}: int = \"s\""]),
    ("two-same-code", ["print(undefined_{n}, undefined_{n}x)"]),
    ("cont-paren", ["print(1,", "      undefined_{n})"]),
    ("cont-paren3", ["f(", "    undefined_{n},", "    2, 3)"]),
    ("cont-bslash-in-paren", ["print(1, \\", "      undefined_{n})"]),
    ("decorated", ["@undefined_dec{n}", "def inner{n}(z):", "    return undefined_{n}"]),
    ("decorated2", ["@os.nope{n}", "@undefined_dec{n}(1)", "class Inner{n}:", "    pass"]),
    ("nested-if", ["if a:", "    f(1, 2, 3)", "else:", "    undefined_{n}"]),
    ("nested-for", ["for i{n} in range(3):", "    print(i{n} + \"a\")"]),
    ("nested-try", ["try:", "    undefined_{n}", "except ValueError:", "    f(\"s\")", "finally:", "    os.nope{n}"]),
    ("nested-with", ["with open(undefined_{n}) as fh{n}:", "    fh{n}.nope{n}"]),
    ("dict-multi", ["d{n} = {{", "    1: undefined_{n},", "    2: f(\"s\"),", "}}"]),
    ("string-with-hash", ["s{n} = \"# not a comment\" + undefined_{n}"]),
    ("triple-string-before", ["s{n} = '''a", "    b'''", "undefined_{n}"]),
    ("fstring-one-line", ["s{n} = f\"{{undefined_{n}}}\""]),
    ("trailing-comment", ["x{n} = undefined_{n}  # trailing words"]),
    ("lambda", ["g{n} = lambda: undefined_{n}"]),
]
T_NEUTRAL = [
    ("assign", ["v{n} = 1"]),
    ("pass", ["pass"]),
    ("blank", [""]),
    ("comment", ["# an ordinary comment"]),
    ("call-ok", ["print(f(1))"]),
    ("docstring", ["\"\"\"A string", "over two lines.\"\"\""]),
]
T_TWOCODES = [
    ("two-codes", ["f(\"s\", undefined_{n})"]),
    ("two-codes-b", ["print(\"%d\" % \"x\", undefined_{n})"]),
    ("three-codes", ["f(\"s\", undefined_{n}, os.nope{n})"]),
    ("return-two-codes", ["return undefined_{n}"]),
]
T_STRING = [
    ("in-fstring", ["s{n} = f'''a", "{{undefined_{n}}}", "b'''"]),
    ("in-fstring-indented", ["s{n} = f\"\"\"a", "    {{undefined_{n}}} b", "    \"\"\""]),
]
T_BACKSLASH = [
    ("after-backslash", ["z{n} = 1 + \\", "    undefined_{n}"]),
    ("after-backslash-2", ["z{n} = \\", "    f(\"s\")"]),
]
T_FORMFEED = [
    ("formfeed-in-string", ["s{n} = 'a\x0cb'", "undefined_{n}"]),
    ("formfeed-comment", ["# page\x0c break", "undefined_{n}"]),
    ("unit-sep-in-string", ["s{n} = 'a\x1eb'", "f(\"s\")"]),
]
HEADERS = [
    ("none", []),
    ("line1-diag", ["def g0(): return undefined_z0"]),
    ("line1-assign", ["w0: int = \"s\""]),
    ("docstring", ["\"\"\"Module docstring.\"\"\""]),
    ("comment-block", ["#!/usr/bin/env python", "# second leading comment"]),
    ("comment-block-then-diag", ["# leading comment", "w0: int = \"s\""]),
    ("comment-blank-diag", ["# leading comment", "", "w0: int = \"s\""]),
]
TAILS = [
    ("none", []),
    ("last-diag", ["w9: int = \"s\""]),
    ("last-def", ["def g9(): return undefined_y9"]),
    ("last-ok", ["k9 = f(1)"]),
]


def inst(t, ind, n, tabs=False):
    pre = ("\t" * (ind // 4)) if tabs else (" " * ind)
    out = []
    for l in t:
        l = l.format(n=n)
        if tabs and l.startswith("    "):
            k = (len(l) - len(l.lstrip(" "))) // 4
            l = "\t" * k + l[4 * k:]
        out.append((pre + l) if l else "")
    return out


def build_program(header, bodies, tail, tabs=False, cls_body=None):
    """bodies: list (one per function) of lists of templates."""
    n = [0]
    lines = list(header) + PRELUDE
    for k, temps in enumerate(bodies):
        lines.append("def h%d(a: int) -> None:" % k)
        for t in temps:
            n[0] += 1
            lines += inst(t, 4, n[0], tabs)
        lines.append(("\t" if tabs else "    ") + "return None")
    if cls_body:
        lines += ["class K:", "    def m(self, a: int) -> int:"]
        for t in cls_body:
            n[0] += 1
            lines += inst(t, 8, n[0])
        lines.append("        return 0")
    lines += tail
    return lines


def gen_ignore_programs(ctx):
    """(tag, lines, final_newline) — exhaustive small part, then seeded random."""
    rng = ctx.rng
    progs = []
    allt = T_SAFE + T_TWOCODES + T_STRING + T_BACKSLASH + T_FORMFEED
    # 1. every template alone, plain header
    for name, t in allt:
        progs.append(("single:" + name, build_program([], [[t]], []), True))
    # 2. every header x a few templates; every tail
    few = [T_SAFE[0][1], T_SAFE[8][1], T_SAFE[11][1]]
    for hn, h in HEADERS:
        for t in (few if ctx.big() else few[:2]):
            progs.append(("header:" + hn, build_program(h, [[t]], []), True))
    for tn, tl in TAILS:
        progs.append(("tail:" + tn, build_program([], [[T_SAFE[0][1]]], tl), True))
        progs.append(("tail-nonl:" + tn, build_program([], [[T_SAFE[1][1]]], tl), False))
    progs.append(("tabs", build_program([], [[T_SAFE[0][1], T_SAFE[13][1]]], [], tabs=True), True))
    # 3. pairs of safe templates in one function (adjacent diagnostics: comment above comment situations)
    pairs = list(itertools.product(range(len(T_SAFE)), repeat=2))
    rng.shuffle(pairs)
    for i, j in pairs[:ctx.n(8, 200)]:
        progs.append(("pair", build_program([], [[T_SAFE[i][1], T_SAFE[j][1]]], []), True))
    # 4. seeded random larger programs
    for _ in range(ctx.n(28, 1000)):
        r = rng.random()
        pool = T_SAFE + T_NEUTRAL
        special = None
        if r < 0.12:
            special = rng.choice(T_TWOCODES)
        elif r < 0.18:
            special = rng.choice(T_STRING)
        elif r < 0.24:
            special = rng.choice(T_BACKSLASH)
        elif r < 0.28:
            special = rng.choice(T_FORMFEED)
        bodies = []
        for _k in range(rng.randint(1, 3)):
            bodies.append([rng.choice(pool)[1] for _ in range(rng.randint(1, 4))])
        if special is not None:
            b = rng.choice(bodies)
            b.insert(rng.randint(0, len(b)), special[1])
        hdr = rng.choice(HEADERS)[1] if rng.random() < 0.35 else []
        tail = rng.choice(TAILS)[1] if rng.random() < 0.35 else []
        cls_body = [rng.choice(pool)[1] for _ in range(rng.randint(1, 3))] if rng.random() < 0.3 else None
        progs.append(("random" + (":" + special[0] if special else ""), build_program(hdr, bodies, tail, cls_body=cls_body),
                      rng.random() < 0.9 or special in T_FORMFEED))
    return progs


# ------------------------------------------------------------------ generators: programs with fixable diagnostics
# function bodies (relative to indentation 4); every function is `def t<k>(a, b, c):`
F_OK = [
    ("fstr", ["return \"%s and %s\" % (a, b)"]),
    ("fstr-d", ["return \"n=%d\" % a"]),
    ("fstr-assign", ["x = \"%s!\" % b", "return x"]),
    ("fstr-multi", ["x = (\"%s-%s\" %", "     (a, b))", "return x"]),
    ("fstr-multi2", ["x = dict(", "    k=\"%s\" % a,", ")", "return x"]),
    ("fstr-nested", ["if a:", "    for i in range(2):", "        c = \"%s\" % b", "return c"]),
    ("fstr-while", ["while \"%s\" % a:", "    return 1", "return 2"]),
    ("fstr-attr", ["return \"%s\" % os.sep"]),
    ("unused", ["x = 1", "return a"]),
    ("unused-call", ["x = len(b)", "return a"]),
    ("unused-multi", ["x = dict(", "    k=1,", ")", "return a"]),
    ("unused-multi-odd", ["x = dict(", "    k=1,", "  )", "return a"]),
    ("unused-nested", ["if a:", "    x = 1", "    c = 2", "return c"]),
    ("unused-cascade", ["y = a", "x = y", "return b"]),
    ("unused-two", ["x = 1", "x = 2", "return a"]),
    ("unused-comp", ["return [1 for x in range(a)]"]),
    ("unused-comp-multi", ["return [", "    1", "    for x in range(a)", "]"]),
    ("unused-triple-ok", ["x = '''a", "    b", "    '''", "return a"]),
    ("missing-f", ["x = \"hello {a}\"", "return x"]),
    ("missing-f-2", ["return \"{a} and {b}\""]),
    ("tmpa", ["return big(a, b, c, 4, 5, 6, 7, 8, 9, 10, 11)"]),
    ("tmpa-multi", ["return big(a, b, c, 4, 5,", "           6, 7, 8, 9, 10, 11)"]),
    ("nofix-first", ["undefined_q", "x = 1", "return a"]),
    ("tuple-target", ["x, y = 1, 2", "return a"]),
]
F_EMPTY = [
    ("unused-only", ["x = 1"]),
    ("unused-only-if", ["if a:", "    x = 1", "return a"]),
    ("unused-only-else", ["if a:", "    return 1", "else:", "    x = 2", "return a"]),
]
F_RANGE = [
    ("unused-triple", ["x = '''a", "b'''", "return a"]),
    ("unused-triple-same-indent", ["x = \"\"\"a", "    b\"\"\"", "return a"]),
    ("unused-backslash", ["x = 1 + \\", "    2", "return a"]),
    ("unused-backslash0", ["x = 1 + \\", "2", "return a"]),
    ("fstr-triple", ["x = \"\"\"%s", "end\"\"\" % a", "return x"]),
    ("unused-bracket-col0", ["x = [1,", "2]", "return a"]),
    ("unused-then-closer", ["y = [", "    a,", "    max(", "        1, 2", "    ),", "]", "return y"]),
]
# what is left of the range heuristic after d5dca9e: the line *after* the statement taken for part of it
F_OVERRUN = [
    ("unused-then-triple-stmt", ["x = \"\"\"a\"\"\"", "\"\"\"", "note", "\"\"\"", "return a"]),
    ("fstr-then-triple-stmt", ["x = \"\"\"%s\"\"\" % a", "\"\"\"", "note", "\"\"\"", "return x"]),
    ("unused-then-deeper-comment", ["x = 1", "    # a comment indented deeper", "return a"]),
]
F_SHARED = [
    ("unused-semi", ["x = 1; y = 2", "return y"]),
    ("unused-semi-2", ["y = 2; x = 1", "return y"]),
    ("unused-if-oneline", ["if a: x = 1", "return 2"]),
    ("fstr-semi", ["y = 1; x = \"%s\" % a", "return x, y"]),
    ("fstr-if-oneline", ["if a: return \"%s\" % a", "return b"]),
    ("fstr-else-oneline", ["if a:", "    return 1", "else: return \"%s\" % b"]),
]
F_PCT = [
    ("fstr-d-float", ["h = c / 2", "return \"%d\" % h"]),
    ("fstr-d-bool", ["h = a > 1", "return \"%d items\" % h"]),
    ("fstr-s-tuple", ["t = (a,)", "return \"%s\" % t"]),
    ("fstr-s-tuple2", ["t = (a, b)", "try:", "    return \"%s\" % t", "except TypeError:", "    return \"E\""]),
]
F_TAIL = [
    ("fstr-tail-newline", ["return \"%s and %s!\\n\" % (a, c)"]),
    ("fstr-tail-text", ["return \"x\\n%s tail\\n\" % a"]),
    ("fstr-newline-only", ["return \"%s\\n\" % a"]),
    ("fstr-inner-newline", ["return \"a\\nb %s c\" % a"]),
]
F_ELIF = [
    ("fstr-elif", ["if a:", "    x = 1", "elif \"%s\" % b:", "    x = 2", "else:", "    x = 3", "return x"]),
    ("fstr-elif-chain", ["x = 0", "if a == 3:", "    x = 1", "elif a == 0:", "    x = 2", "elif \"%s\" % b:", "    x = 3", "return x"]),
]
FIX_PRELUDE = ["import os", "def big(a, b, c, d, e, f, g, h, i, j, k):", "    return (a, b, c, k)"]


def build_fix_program(bodies, header=(), tail=()):
    lines = list(header) + FIX_PRELUDE
    for k, b in enumerate(bodies):
        lines.append("def t%d(a, b, c):" % k)
        lines += [("    " + l) if l else "" for l in b]
    return lines + list(tail)


def gen_fix_programs(ctx):
    rng = ctx.rng
    progs = []
    allf = F_OK + F_EMPTY + F_RANGE + F_OVERRUN + F_SHARED + F_ELIF + F_PCT + F_TAIL
    for name, b in allf:
        progs.append(("single:" + name, build_fix_program([b])))
    # first line / last line of the file
    progs.append(("first-line", ["x0 = \"%s\" % __name__"] + build_fix_program([F_OK[0][1]])))
    progs.append(("last-line", build_fix_program([F_OK[8][1]], tail=["def t9(a, b, c): return \"%s\" % a"])))
    for _ in range(ctx.n(14, 600)):
        r = rng.random()
        pool = F_OK if r < 0.7 else allf
        progs.append(("random", build_fix_program([rng.choice(pool)[1] for _ in range(rng.randint(2, 4))])))
    return progs


# ------------------------------------------------------------------ ignores stream
KIND_CLASSES = {
    "parse": ["afterBackslash"],
    "ast": ["insideString"],
    "oversuppressed": ["ignoreAboveLineOne"],
    "reappeared": ["twoCodesOneLine"],
    "nofix": ["twoCodesOneLine"],
    "removal": ["ignoreAboveLineOne", "twoCodesOneLine"],
    "wrongtext": [],      # was splitlinesMismatch, repaired by ba62f49: a malformed change is a new violation
}


def ignores_real(ctx, src, cap, profile="std", removal_budget=6):
    """Run the real add-ignores loop on src. Returns dict(rounds=[(fails, new_src)], problems=[(kind, what)], status)."""
    orig = ast.dump(ast.parse(src))
    rounds, problems = [], []
    cur = src
    inserted = []      # (round, code, final position of the comment line, target cols)
    status = "cap"
    k = -1
    while k + 1 < cap:
        k += 1
        fails, changes, _info, new = real_round(ctx, cur, True, profile)
        rounds.append((fails, new))
        if k == 0:
            # one round per line with a diagnostic, one to see the fixpoint, and some slack
            cap = max(cap, len({f[1] for f in fails}) + 4)
        if k > 0:
            # expectation from the previous round: its failures minus the (code, line) the comment was added for
            pf, _ = rounds[k - 1]
            C, L = pf[0][0], pf[0][1]
            exp = [(c, l + 1 if l >= L else l, col) for (c, l, col, _m) in pf if not (c == C and l == L)]
            got = [(c, l, col) for (c, l, col, _m) in fails]
            missing = [e for e in exp if e not in got]
            extra = [g for g in got if g not in exp]
            if any((c, l) == (C, L + 1) for (c, l, _col) in got):
                problems.append(("reappeared", "round %d: the diagnostic %s on line %d for which the comment was added is still reported" % (k - 1, C, L)))
            elif extra:
                problems.append(("reappeared", "round %d: diagnostics not reported before: %s" % (k, extra[:3])))
            if missing:
                problems.append(("oversuppressed", "round %d: the comment added for %s on line %d also removed %s" % (k - 1, C, L, missing[:3])))
        if not fails:
            status = "fixpoint"
            if new != cur:
                problems.append(("wrongtext", "round %d: no failure but the file changed" % k))
            break
        if new == cur:
            status = "stuck"
            problems.append(("nofix", "round %d: failures reported but no change applied" % k))
            break
        # the change must be exactly one inserted comment line
        C, L = fails[0][0], fails[0][1]
        ol, nl = file_lines(cur), file_lines(new)
        if not (len(nl) == len(ol) + 1 and nl[:L - 1] == ol[:L - 1] and nl[L:] == ol[L - 1:] and nl[L - 1].strip() == "%s[%s]" % (IC, C)):
            problems.append(("wrongtext", "round %d: the change is not the insertion of one `%s[%s]` line above line %d" % (k, IC, C, L)))
        tree = try_parse(new)
        if tree is None:
            status = "broken"
            problems.append(("parse", "round %d: after inserting the ignore comment for %s above line %d the file no longer parses" % (k, C, L)))
            break
        if ast.dump(tree) != orig:
            status = "ast-changed"
            problems.append(("ast", "round %d: inserting the ignore comment for %s above line %d changed the syntax tree" % (k, C, L)))
            break
        inserted = [(r, c, (p + 1 if p >= L else p), cols) for (r, c, p, cols) in inserted]
        inserted.append((k, C, L, sorted(col for (c, l, col, _m) in fails if c == C and l == L)))
        cur = new
    if status == "cap":
        problems.append(("nofix", "no fixpoint after %d rounds (the file grew from %d to %d lines)" % (cap, len(file_lines(src)), len(file_lines(cur)))))
    if status == "fixpoint" and inserted:
        fl = file_lines(cur)
        for (r, C, p, cols) in inserted[:removal_budget]:
            without = "\n".join(fl[:p - 1] + fl[p:]) + "\n"
            if try_parse(without) is None:
                continue
            got = sorted((c, l, col) for (c, l, col, _m) in real_round(ctx, without, False, profile)[0])
            exp = sorted((C, p, col) for col in cols)
            ctx.count(1, removal_test=1)
            if got != exp:
                problems.append(("removal", "removing the comment added in round %d for %s (now line %d) brings back %s, expected %s" % (r, C, p, got[:4], exp[:4])))
    return {"rounds": rounds, "problems": problems, "status": status, "final": cur}


def ignores_cases(ctx, items, with_model, limit=150):
    """items: list of dict(case=..., src=..., cap=...). Runs real + model, compares, reports candidates."""
    reals = []
    for it in items:
        try:
            reals.append(ignores_real(ctx, it["src"], it["cap"], it.get("profile", "std"), it.get("removal", 6)))
        except Exception as e:  # generator bug (program does not import) — not a finding
            ctx.tag("generator_rejects")
            ctx.notes.append("program rejected (%s: %s): %r" % (type(e).__name__, e, it["src"][:200]))
            reals.append(None)
    todo = [(it, r) for it, r in zip(items, reals) if r is not None and r["rounds"][0][0]]
    for it, r in zip(items, reals):
        if r is not None and not r["rounds"][0][0]:
            ctx.tag("program_without_diagnostics")
    outs = [None] * len(todo)
    if with_model and todo:
        dl = []
        for it, r in todo:
            raw = " ".join("%s,%d,%d" % (c, l, col) for (c, l, col, _m) in r["rounds"][0][0])
            dl.append("I|%s|%s|%d|%d" % (enc_lines(file_lines(it["src"])), raw, len(r["rounds"]), limit))
        outs = [parse_kv(o) for o in lean.run_driver("C16", dl)]
    for (it, r), mo in zip(todo, outs):
        case = it["case"]
        ctx.count(1, ignores=1, **{"ignores_status_" + r["status"].replace("-", "_"): 1, "ignores_rounds": len(r["rounds"])})
        ctx.tag("first_run_diagnostics", len(r["rounds"][0][0]))
        if len(r["rounds"]) > 1:
            ctx.nontriv("ignores:" + json.dumps(case, sort_keys=True))
        ctx.sample({"ignores": case, "status": r["status"], "rounds": len(r["rounds"]),
                    "first_failures": [list(f[:3]) for f in r["rounds"][0][0]][:6]}, limit=3)
        conforms, cls_list = True, []
        if mo is not None:
            if "raw" in mo:
                ctx.disagree("ignores", case, "real run of %d rounds" % len(r["rounds"]), mo["raw"])
                conforms = False
            else:
                cls_list = classes_of(mo)
                for c in cls_list:
                    ctx.tag("class_" + c)
                mr = mo["rounds"].split(";")
                sr = mo.get("srounds", "").split(";")
                repaired = False
                got_all = ["%s~%d" % (show_fails(fails), hash_lines(file_lines(new))) for fails, new in r["rounds"]]
                if got_all != mr[:len(got_all)]:
                    conforms = False
                    k = next(i for i, g in enumerate(got_all) if i >= len(mr) or g != mr[i])
                    if k > 0 and cls_list and any(p[0] in ("parse", "ast") for p in r["problems"]):
                        # past the first broken round of a known-defect input the renumbering assumption no longer applies
                        pass
                    else:
                        ctx.disagree("ignores", case, "round %d: %s" % (k, got_all[k]), "round %d: %s" % (k, mr[k] if k < len(mr) else "-"))
                ctx.corr("ignores", len(got_all))
                if mo.get("c11") != "ok":
                    ctx.disagree("c11-link", case, "C16.visible", "C11.check differs (%s)" % mo.get("c11"))
                ctx.corr("c11-link")
                # model outcome of the main loop vs the real loop (when the real loop was run to its end)
                if r["status"] == "fixpoint" and mo["out"] != "done:%d" % len(r["rounds"]) and conforms and not repaired:
                    ctx.disagree("ignores", case, "fixpoint after %d runs" % len(r["rounds"]), "mainLoop: " + mo["out"])
                # outside every class the theorem promises the spec file
                if not cls_list and mo.get("ok") == "1":
                    ctx.corr("spec-final")
                    if r["status"] != "fixpoint" or str(hash_lines(file_lines(r["final"]))) != mo["spec"]:
                        ctx.disagree("spec-final", case, "status %s, final hash %d" % (r["status"], hash_lines(file_lines(r["final"]))),
                                     "specFinal hash " + mo["spec"])
                # spec-lex: the lexer's verdict on every line vs CPython
                if True:
                    safe = safe_insert_points(it["src"])
                    for p, (ok, letter) in enumerate(zip(safe, mo["lex"]), 1):
                        ctx.corr("spec-lex")
                        if ok != (letter in "cB"):
                            ctx.disagree("spec-lex", {"program": case.get("program"), "line": p},
                                         "CPython: comment before line %d %s" % (p, "harmless" if ok else "changes the tree"),
                                         "lexer state %r" % letter)
        seen = set()
        for kind, what in r["problems"]:
            if kind in seen:
                continue
            seen.add(kind)
            cls = next((c for c in KIND_CLASSES[kind] if c in cls_list), None)
            ctx.candidate(case, what, cls=cls, conforms=conforms, stream="ignores")


# ------------------------------------------------------------------ generic trees: ast <-> driver tokens (stream nodecopy)
import hashlib as _hashlib


def _leaf_tok(v):
    return "None" if v is None else "h" + _hashlib.sha1(repr(v).encode()).hexdigest()[:10]


def enc_ast(node, ids=None, with_ids=True):
    """Tokens of an ast node for the driver's `T` op. ids: dict id(obj) -> number (identity, as `node == target` in
    ReplaceNodeTransformer is identity; the shared ctx singletons get one number)."""
    if ids is None:
        ids = {}
    out = []

    def go(n):
        k = ids.setdefault(id(n), len(ids) + 1) if with_ids else 0
        fields = [(f, getattr(n, f, None)) for f, _ in ast.iter_fields(n)]
        out.extend(["n", type(n).__name__, str(k), str(len(fields))])
        for f, v in fields:
            out.append(f)
            if isinstance(v, list):
                out.extend(["m", str(len(v))])
                for it in v:
                    if it is None:
                        out.append("x")
                    elif isinstance(it, ast.AST):
                        out.append("t")
                        go(it)
                    else:
                        out.extend(["v", _leaf_tok(it)])
            elif isinstance(v, ast.AST):
                out.append("c")
                go(v)
            else:
                out.extend(["l", _leaf_tok(v)])

    go(node)
    return out, ids


def enc_result(r):
    if r is None:
        return "None"
    if isinstance(r, list):
        toks = ["M", str(len(r))]
        for t in r:
            toks += enc_ast(t, with_ids=False)[0]
        return ",".join(toks)
    return ",".join(enc_ast(r, with_ids=False)[0])


def subst_ast(node, target, repl):
    """Independent oracle: a copy of the tree with the node that *is* `target` replaced by `repl`."""
    if node is target:
        return repl
    kw = {}
    for f, _ in ast.iter_fields(node):
        v = getattr(node, f, None)
        if isinstance(v, list):
            kw[f] = [subst_ast(x, target, repl) if isinstance(x, ast.AST) else x for x in v]
        elif isinstance(v, ast.AST):
            kw[f] = subst_ast(v, target, repl)
        else:
            kw[f] = v
    return type(node)(**kw)


def run_nodecopy(ctx, sources, with_model):
    """The real NodeTransformer (plain copy, one-node replacer, and visitors returning None / a list for one node) on
    the ASTs of generated programs == Lean `visit`; the plain copy and the replacer also against the oracle."""
    from pyanalyze.node_visitor import NodeTransformer, ReplaceNodeTransformer
    rng = ctx.rng

    class Hook(NodeTransformer):
        def __init__(self, target, result):
            self.target, self.result = target, result
            super().__init__()

        def generic_visit(self, node):
            if node is self.target:
                return self.result
            return super().generic_visit(node)

    items = []
    for src in sources:
        tree = try_parse(src)
        if tree is None:
            continue
        # function by function: keeps the driver lines short
        units = [n for n in ast.walk(tree) if isinstance(n, (ast.FunctionDef, ast.ClassDef)) and n.col_offset == 0] or [tree]
        for unit in units:
            nodes = [n for n in ast.walk(unit) if n is not unit and not isinstance(n, (ast.expr_context, ast.operator, ast.unaryop,
                                                                                        ast.boolop, ast.cmpop))]
            toks, ids = enc_ast(unit)
            tl = " ".join(toks)
            items.append(("id", unit, "T|-|" + tl, NodeTransformer().visit(unit), unit))
            if not nodes:
                continue
            for kind in ("r", "r", "d", "s"):
                target = rng.choice(nodes)
                r1 = ast.Name(id="R1", ctx=ast.Load())
                r2 = ast.Name(id="R2", ctx=ast.Load())
                if kind == "r":
                    real = ReplaceNodeTransformer(target, r1).visit(unit)
                    line = "T|r %d|%s|%s" % (ids[id(target)], tl, " ".join(enc_ast(r1)[0]))
                    exp = subst_ast(unit, target, r1)
                elif kind == "d":
                    real = Hook(target, None).visit(unit)
                    line = "T|d %d|%s" % (ids[id(target)], tl)
                    exp = None
                else:
                    real = Hook(target, [r1, r2]).visit(unit)
                    line = "T|s %d|%s|%s|%s" % (ids[id(target)], tl, " ".join(enc_ast(r1)[0]), " ".join(enc_ast(r2)[0]))
                    exp = None
                items.append((kind, unit, line, real, exp))
    cap = ctx.n(450, 12000)
    if len(items) > cap:
        rng.shuffle(items)
        items = items[:cap]
    outs = [None] * len(items)
    if with_model and items:
        outs = [parse_kv_simple(o) for o in lean.run_driver("C16", [it[2] for it in items])]
    for (kind, unit, line, real, exp), mo in zip(items, outs):
        ctx.count(1, nodecopy=1, **{"nodecopy_" + kind: 1})
        got = enc_result(real)
        case = {"nodecopy": kind, "unit": ast.unparse(unit)[:400], "hook": line.split("|")[1]}
        if exp is not None:
            # spec side: identity / exact replacement, against the independent oracle
            ctx.corr("nodecopy-oracle")
            if got != enc_result(exp):
                ctx.disagree("nodecopy-oracle", case, "NodeTransformer result differs from the tree with exactly that node replaced",
                             "oracle: " + ast.dump(exp)[:300])
        if mo is not None:
            ctx.corr("nodecopy")
            if mo.get("out") != got:
                ctx.disagree("nodecopy", case, got[:300], str(mo.get("out"))[:300])
            if exp is not None and mo.get("spec") not in (None, "na") and mo.get("spec") != mo.get("out"):
                ctx.disagree("model-vs-spec", case, "visit " + str(mo.get("out"))[:200], "substTree " + str(mo.get("spec"))[:200])


def parse_kv_simple(s):
    return dict(x.split("=", 1) for x in s.split(" ") if "=" in x) if not s.startswith("bad") else {"raw": s}


# ------------------------------------------------------------------ node-level fixes in every expression / statement context
CTX_PRELUDE = FIX_PRELUDE + [
    "G0 = 0",
    "def coll(*args, **kw):", "    return (args, sorted(kw.items()))",
    "def deco(x):", "    return lambda fn: fn",
    "class Box:",
    "    def __init__(self, v=None, **kw):", "        self.v = v", "        self.kw = kw",
    "    def __enter__(self):", "        return self",
    "    def __exit__(self, *exc):", "        return False",
]
FIXABLE = [
    ("fstr", "\"%s!\" % b"),                                  # use_fstrings: BinOp -> JoinedStr
    ("tmpa", "big(a, b, c, 4, 5, 6, 7, 8, 9, 10, 11)"),        # too_many_positional_args: Call -> Call with keywords
    ("comp", "[1 for x in range(2)]"),                        # unused comprehension variable -> _
]
# expressions with one hole; any value (str / tuple / list) may fill it
CTX_EXPR = [
    ("dict-star-first", "{{**{{\"p\": a}}, \"k\": {E}, \"z\": 1}}"),
    ("dict-star-mid", "{{\"k\": {E}, **{{\"p\": a}}, \"z\": 1, **{{}}}}"),
    ("dict-plain", "{{\"k\": {E}, a: b}}"),
    ("call-star-kw", "coll(a, *[b, c], k={E}, **{{\"z\": 1}})"),
    ("call-star-arg", "coll(*[a, {E}], *(), k=1)"),
    ("call-plain", "coll({E})"),
    ("list-starred", "[a, *[b, {E}], *(c,)]"),
    ("tuple-starred", "(a, *[{E}])"),
    ("set-starred", "sorted({{a, *[len([{E}])]}})"),
    ("slice-lower", "[a, b, c, {E}][1:]"),
    ("slice-upper", "[{E}, a, b, c][:2]"),
    ("slice-step", "[{E}, a, b][::2]"),
    ("slice-all", "[a, {E}][0:2:1]"),
    ("slice-in-index", "\"abcdef\"[len([{E}]) % 3:]"),
    ("subscript", "[{E}][0]"),
    ("lambda-full", "(lambda p, q=1, *r, k, m=2, **kw: (p, q, r, k, m, sorted(kw), {E}))(a, k=b)"),
    ("lambda-empty", "(lambda: {E})()"),
    ("lambda-kwonly", "(lambda *, k, m={E}: (k, m))(k=a)"),
    ("lambda-posonly", "(lambda p, /, q=2: (p, q, {E}))(a)"),
    ("listcomp-multi", "[({E}, i, j) for i in range(2) if i >= 0 if a is not None for j in range(2) if j != i]"),
    ("setcomp", "sorted({{len([{E}]) + i for i in range(3) if i}})"),
    ("dictcomp", "{{i: {E} for i in range(2)}}"),
    ("genexp", "list(({E}, i) for i in range(2))"),
    ("fstring-spec", "f'{{len([{E}])!r:>5}}|{{a:{{c}}d}}|{{b!s}}|{{a}}'"),
    ("compare-chain", "(a < c + 100 <= len([{E}]) + 100 != -1)"),
    ("compare-in", "(len([{E}]) in (1, 2) or a not in [c] or a is not None)"),
    ("boolop-and", "(a and b and {E})"),
    ("boolop-or", "(0 or {E} or a)"),
    ("ifexp-body", "({E} if a else b)"),
    ("ifexp-else", "(b if a else {E})"),
    ("walrus", "[(y := {E}), y][1]"),
    ("unary", "(not {E}, -a, +a, ~a)"),
    ("binop", "[{E}] * 2 + [a]"),
    ("attribute", "Box({E}).v"),
    ("keyword-only-call", "Box(v=a, k={E}).kw"),
    ("nested-call", "coll(coll(a, k=coll({E})), *[coll()])"),
    ("starred-call-nested", "coll(*coll({E})[0], **dict(coll(z=1)[1]))"),
    ("const-kinds", "(1, 1.5, 2j, \"s\", u\"u\", b\"b\", None, True, ..., {E})[-1]"),
]
# statement lists with one hole (body of `def t0(a, b, c):`, relative indentation); must return something
CTX_STMT = [
    ("annassign", ["x: list = [{E}]", "return x"]),
    ("annassign-novalue", ["x: list", "x = [{E}]", "return x"]),
    ("multi-target", ["x = y = {E}", "return (x, y)"]),
    ("starred-target", ["p, *q = [{E}, a, b]", "return (p, q)"]),
    ("tuple-target", ["(p, q), r = ({E}, a), b", "return (p, q, r)"]),
    ("subscript-target", ["x = [0, 0]", "x[0] = {E}", "return x"]),
    ("slice-target", ["x = [0, 0, 0]", "x[1:] = [{E}]", "return x"]),
    ("augassign", ["x = [a]", "x += [{E}]", "return x"]),
    ("assert-msg", ["assert a is not None, {E}", "return a"]),
    ("assert-plain", ["assert len({E}) >= 0", "return a"]),
    ("raise-from", ["try:", "    raise ValueError({E}) from None", "except ValueError as e:", "    return e.args"]),
    ("raise-cause", ["try:", "    raise ValueError(a) from KeyError({E})", "except ValueError as e:", "    return e.__cause__.args"]),
    ("expr-stmt", ["r = []", "r.append({E})", "return r"]),
    ("delete", ["x = [{E}, a]", "del x[0], x[0:0]", "return x"]),
    ("return-tuple", ["return a, {E}"]),
]
# compound statements with the hole in the header (the whole statement, body included, is regenerated)
BODY_ALL = [
    "global G0",
    "r = [G0]",
    "def gen(n, /, p=0, *rest, k, m=1, **kw):",
    "    if n:",
    "        return",
    "    yield",
    "    yield n",
    "    yield from [k, m, p, rest, sorted(kw)]",
    "async def co(p, *, k=None) -> int:",
    "    async with p as q, k:",
    "        pass",
    "    async for i in p:",
    "        await i",
    "    else:",
    "        pass",
    "    return await p",
    "@deco(1)",
    "@deco(2)",
    "def ann(p: int, q: 'str' = '', *r: int, k: int, m: int = 2, **kw: int) -> int:",
    "    return p",
    "class K(Box, object, metaclass=type):",
    "    x: int = 1",
    "    y: int",
    "try:",
    "    r.append(int(\"x\"))",
    "except (KeyError, IndexError):",
    "    r.append(1)",
    "except ValueError as e:",
    "    r.append(str(e)[:3])",
    "except:",
    "    r.append(3)",
    "else:",
    "    r.append(4)",
    "finally:",
    "    r.append(5)",
    "try:",
    "    pass",
    "finally:",
    "    r.append(6)",
    "with Box(1) as b1, Box(2):",
    "    r.append(b1.v)",
    "with Box(3):",
    "    pass",
    "for i in range(2):",
    "    if i:",
    "        continue",
    "    elif a:",
    "        pass",
    "    r.append(i)",
    "else:",
    "    r.append(\"fe\")",
    "while False:",
    "    break",
    "else:",
    "    r.append(\"we\")",
    "z: int = 1",
    "del z",
    "import os.path as osp, sys",
    "from os import sep as s1, getcwd",
    "assert r, \"msg\"",
    "assert r",
    "try:",
    "    raise ValueError(\"v\") from None",
    "except ValueError:",
    "    pass",
    "try:",
    "    raise",
    "except RuntimeError:",
    "    pass",
    "r.append(list(gen(0, k=2)))",
    "r.append(K.x + ann(1, k=2))",
    "r.append((osp.sep == s1, sys is not None, getcwd is not None, co is not None))",
    "def outer2():",
    "    zz = 1",
    "    def in2():",
    "        nonlocal zz",
    "        zz += 1",
    "        return zz",
    "    return in2()",
    "r.append(outer2())",
    "r.append({**{\"p\": 1}, \"q\": [*r[:1]][0]})",
]
BODY_MATCH = [
    "match Box(r).v:",
    "    case [first, *rest] if rest:",
    "        r.append(first)",
    "    case {\"a\": 1, **kw}:",
    "        pass",
    "    case Box(v=1) | None:",
    "        pass",
    "    case (1 | 2) as num:",
    "        pass",
    "    case [1, 2, *_]:",
    "        pass",
    "    case {}:",
    "        pass",
    "    case _:",
    "        pass",
]
CTX_HEADER = [
    ("if", ["if len({E}) >= 0:", "BODY", "else:", "    r = []", "return r"]),
    ("if-elif", ["r = [0]", "if not a and c:", "    r = [1]", "elif len({E}) >= 0:", "BODY", "return r"]),
    ("while", ["r = []", "while len({E}) >= 0:", "BODY", "    break", "else:", "    r = [1]", "return r"]),
    ("for", ["r = []", "for it in [{E}]:", "BODY", "else:", "    r.append(\"done\")", "return r"]),
    ("with", ["with Box({E}) as bx, Box(a):", "BODY", "return (r, bx.v)"]),
    ("with-noas", ["r = []", "with Box({E}):", "BODY", "return r"]),
    ("try-handler-type", ["r = []", "try:", "    r.append(int(\"x\"))", "except (KeyError, type({E})):", "    r.append(1)",
                          "except ValueError as e:", "    r.append(2)", "except:", "    r.append(3)", "else:", "    r.append(4)",
                          "finally:", "    r.append(5)", "return r"]),
    ("decorator", ["@deco({E})", "@deco(0)", "def inner(p, /, q: int = 1, *r: int, k, m: int = 2, **kw: int) -> tuple:",
                   "    return (p, q, r, k, m, sorted(kw))", "return inner(a, k=b)"]),
    ("default-arg", ["def inner(p, q=1, *, k, m={E}, n=3):", "    return (p, q, k, m, n)", "return inner(a, k=b)"]),
    ("default-posonly", ["def inner(p, /, q={E}, *r, k, **kw):", "    return (p, q, r, k, sorted(kw))", "return inner(a, k=b, z=1)"]),
    ("class-base", ["class K2(Box if len({E}) >= 0 else object, metaclass=type):", "    x: int = 1", "    def m(self, *, k, j=1):",
                    "        return (k, j)", "return (K2.x, K2().m(k=a))"]),
    ("match-subject", ["r = [a, b]", "match Box([len({E}), a]).v:", "    case [n, *rest] if n >= 0:", "        r.append(rest)",
                       "    case {\"a\": 1, **kw}:", "        pass", "    case Box(v=1) | None:", "        pass",
                       "    case (1 | 2) as num:", "        pass", "    case _:", "        pass", "return r"]),
    ("if-with-match-body", ["if len({E}) >= 0:", "    r = [a, b]", "MATCH", "else:", "    r = []", "return r"]),
]


def build_ctx_program(stmt_lines):
    lines = list(CTX_PRELUDE) + ["def t0(a, b, c):"]
    for l in stmt_lines:
        if l == "BODY":
            lines += ["        " + x for x in BODY_ALL]
        elif l == "MATCH":
            lines += ["        " + x for x in BODY_MATCH]
        else:
            lines.append("    " + l)
    return lines


def ctx_programs(ctx):
    """(tag, lines, profile). Quick: every context with one fixable node (rotating with the seed), the `**` contexts with
    all; thorough: every context x every fixable node, plus random two-level nestings of expression contexts."""
    rng = ctx.rng
    progs = []
    nfx = len(FIXABLE)
    for i, (name, e) in enumerate(CTX_EXPR):
        for j, (fname, fx) in enumerate(FIXABLE):
            if ctx.big() or j == (i + ctx.seed) % nfx or name == "dict-star-first":
                progs.append(("expr:%s:%s" % (name, fname), build_ctx_program(["return " + e.format(E=fx)]), "fix"))
    for i, (name, body) in enumerate(CTX_STMT + CTX_HEADER):
        for j, (fname, fx) in enumerate(FIXABLE[:2]):
            if ctx.big() or j == (i + ctx.seed) % 2:
                progs.append(("stmt:%s:%s" % (name, fname), build_ctx_program([l.format(E=fx) if "{E}" in l else l for l in body]), "nodefix"))
    for _ in range(ctx.n(3, 250)):
        (n1, e1), (n2, e2) = rng.choice(CTX_EXPR), rng.choice(CTX_EXPR)
        fname, fx = rng.choice(FIXABLE)
        inner = e2.format(E=fx)
        progs.append(("nest:%s:%s:%s" % (n1, n2, fname), build_ctx_program(["return " + e1.format(E=inner)]), "fix"))
    return progs


def ast_field_catalogue():
    """Every (node class, field) whose grammar declaration is a list (`*`) or optional (`?`), read off ast's own
    docstrings (`Dict(expr* keys, expr* values)`)."""
    import re
    cat = {}
    todo = [ast.AST]
    seen = set()
    while todo:
        c = todo.pop()
        for sub in c.__subclasses__():
            if sub in seen:
                continue
            seen.add(sub)
            todo.append(sub)
            doc = sub.__doc__ or ""
            m = re.match(r"\s*%s\((.*)\)\s*$" % re.escape(sub.__name__), doc.strip().replace("\n", " "))
            if m:
                for part in m.group(1).split(","):
                    mm = re.match(r"\s*(\w+)([*?]?)\s+(\w+)\s*$", part)
                    if mm and mm.group(2):
                        cat[(sub.__name__, mm.group(3))] = mm.group(2)
    return cat


def context_coverage(ctx, programs):
    """Which list / optional fields of the grammar the generated contexts exercise, and in which shapes."""
    cat = ast_field_catalogue()
    seen = {}
    for lines in programs:
        tree = try_parse("\n".join(lines) + "\n")
        if tree is None:
            continue
        for n in ast.walk(tree):
            for f, v in ast.iter_fields(n):
                key = (type(n).__name__, f)
                if key not in cat:
                    continue
                s = seen.setdefault(key, set())
                if cat[key] == "?":
                    s.add("absent" if v is None else "present")
                else:
                    s.add("empty" if not v else ("one" if len(v) == 1 else "many"))
                    if any(x is None for x in v):
                        s.add("with-None-entry")
    unseen = sorted("%s.%s" % k for k in cat if k not in seen)
    oneshape = sorted("%s.%s:%s" % (k[0], k[1], "/".join(sorted(v))) for k, v in seen.items()
                      if (cat[k] == "?" and len(v) < 2))
    ctx.extra["ast_context_coverage"] = {
        "list_or_optional_fields_in_grammar": len(cat), "exercised": len(seen), "not_exercised": unseen,
        "optional_fields_seen_in_one_shape_only": oneshape,
        "fields_with_None_entries": sorted("%s.%s" % k for k, v in seen.items() if "with-None-entry" in v)}


# ------------------------------------------------------------------ bindings: what a statement binds, who reads it (CPython ast only)
_SCOPES = (ast.FunctionDef, ast.AsyncFunctionDef, ast.Lambda, ast.ClassDef)
_COMPS = (ast.ListComp, ast.SetComp, ast.DictComp, ast.GeneratorExp)


def bound_names(st):
    """Names a statement binds in the scope it stands in (targets, `:=` anywhere — also inside comprehensions —, for /
    with / except / import / def / class / match captures); nested function and class bodies are other scopes."""
    out = []

    def go(n, in_comp):
        if isinstance(n, (ast.FunctionDef, ast.AsyncFunctionDef, ast.ClassDef)) and n is not st:
            out.append(n.name)
            for d in n.decorator_list:
                go(d, in_comp)
            return
        if isinstance(n, ast.Lambda):
            return
        if isinstance(n, ast.Name) and isinstance(n.ctx, ast.Store) and not in_comp:
            out.append(n.id)
        if isinstance(n, ast.NamedExpr):
            out.append(n.target.id)
            go(n.value, in_comp)
            return
        if isinstance(n, ast.ExceptHandler) and n.name:
            out.append(n.name)
        if isinstance(n, ast.alias):
            out.append((n.asname or n.name).split(".")[0])
        if isinstance(n, (ast.MatchAs, ast.MatchStar)) and n.name:
            out.append(n.name)
        if isinstance(n, ast.MatchMapping) and n.rest:
            out.append(n.rest)
        if isinstance(n, (ast.FunctionDef, ast.AsyncFunctionDef, ast.ClassDef)):
            out.append(n.name)
            return
        for ch in ast.iter_child_nodes(n):
            go(ch, in_comp or isinstance(n, _COMPS))

    go(st, False)
    return out


def enclosing_function(tree, node):
    best = None
    for f in ast.walk(tree):
        if isinstance(f, (ast.FunctionDef, ast.AsyncFunctionDef)) and any(n is node for n in ast.walk(f)):
            if best is None or any(n is f for n in ast.walk(best)):
                best = f
    return best or tree


def reads_outside(scope, st, names):
    """Reads (Load) of `names` inside `scope` but outside the statement `st`: [(name, line)]."""
    inside = {id(n) for n in ast.walk(st)}
    return sorted({(n.id, n.lineno) for n in ast.walk(scope)
                   if isinstance(n, ast.Name) and isinstance(n.ctx, ast.Load) and n.id in names and id(n) not in inside})


def enc_target(t):
    if isinstance(t, ast.Name):
        return ["n", t.id]
    if isinstance(t, ast.Tuple):
        return ["t", str(len(t.elts))] + [x for e in t.elts for x in enc_target(e)]
    if isinstance(t, ast.List):
        return ["l", str(len(t.elts))] + [x for e in t.elts for x in enc_target(e)]
    if isinstance(t, ast.Starred):
        return ["s"] + enc_target(t.value)
    return ["o", type(t).__name__]


def guard_cases(tree, fails, changes):
    """For every unused_variable / unused_assignment failure whose name is bound by an `Assign`: the driver line of the
    model's guard and whether the implementation attached the delete-the-statement replacement."""
    out = []
    pm = None
    for (code, line, col, _msg), ch in zip(fails, changes):
        if code not in ("unused_variable", "unused_assignment"):
            continue
        name = next((n for n in ast.walk(tree) if isinstance(n, ast.Name) and isinstance(n.ctx, ast.Store)
                     and n.lineno == line and n.col_offset == col), None)
        if name is None:
            continue
        if pm is None:
            pm = parent_map(tree)
        st = name
        in_comp = False
        while st in pm and not isinstance(st, ast.stmt):
            st = pm[st][0]
            in_comp = in_comp or isinstance(st, _COMPS)
        if not isinstance(st, ast.Assign) or in_comp:
            continue
        vb = [n.target.id for n in ast.walk(st) if isinstance(n, ast.NamedExpr)]
        toks = [str(len(st.targets))] + [x for t in st.targets for x in enc_target(t)]
        out.append(("G|%s|%s|%s" % (" ".join(toks), ",".join(vb) or "-", name.id), ch[1] == [], ast.unparse(st)))
    return out


def binding_site_catalogue():
    """Every place the grammar lets a name be bound: fields of type `expr` called target / targets / optional_vars, and
    fields of type `identifier` (except the three that only *mention* a name) — read off ast's docstrings."""
    import re
    cat = set()
    todo, seen = [ast.AST], set()
    while todo:
        c = todo.pop()
        for sub in c.__subclasses__():
            if sub in seen:
                continue
            seen.add(sub)
            todo.append(sub)
            m = re.match(r"\s*%s\((.*)\)\s*$" % re.escape(sub.__name__), (sub.__doc__ or "").strip().replace("\n", " "))
            if not m:
                continue
            for part in m.group(1).split(","):
                mm = re.match(r"\s*(\w+)([*?]?)\s+(\w+)\s*$", part)
                if not mm:
                    continue
                typ, _mark, field = mm.groups()
                if typ == "expr" and field in ("target", "targets", "optional_vars"):
                    cat.add((sub.__name__, field))
                if typ == "identifier" and (sub.__name__, field) not in (("Name", "id"), ("Attribute", "attr"), ("keyword", "arg"),
                                                                         ("ImportFrom", "module")):
                    cat.add((sub.__name__, field))
    return cat


def binding_coverage(ctx, programs):
    cat = binding_site_catalogue()
    seen = set()
    shapes = set()
    for lines in programs:
        tree = try_parse("\n".join(lines) + "\n")
        if tree is None:
            continue
        for n in ast.walk(tree):
            for f, v in ast.iter_fields(n):
                if (type(n).__name__, f) in cat and v not in (None, []):
                    seen.add((type(n).__name__, f))
            if isinstance(n, ast.Assign):
                kinds = [type(t).__name__ for t in n.targets]
                shapes.add("Assign[%s]" % ",".join(kinds))
    ctx.extra["binding_site_coverage"] = {
        "binding_sites_in_grammar": len(cat), "exercised": len(seen & cat),
        "not_exercised": sorted("%s.%s" % k for k in cat - seen), "assign_target_shapes": sorted(shapes)}


# every binding form with an unused name `u` (body of `def t0(a, b, c):`); `v`, `w` are used
BIND_FORMS = [
    ("assign-single", ["u = a", "return b"]),
    ("chain-first", ["u = v = a", "return v"]),
    ("chain-middle", ["v = u = w = a", "return (v, w)"]),
    ("chain-last", ["v = u = a", "return v"]),
    ("chain-first-tuple", ["u = v, w = (a, b)", "return (v, w)"]),
    ("chain-tuple-first", ["v, w = u = (a, b)", "return (v, w)"]),
    ("chain-all-unused", ["u = u2 = a", "return b"]),
    ("tuple-first", ["u, v = a, b", "return v"]),
    ("tuple-last", ["v, u = a, b", "return v"]),
    ("tuple-all-unused", ["u, u2 = a, b", "return c"]),
    ("tuple-paren", ["(u, v) = (a, b)", "return v"]),
    ("list-target", ["[u, v] = [a, b]", "return v"]),
    ("starred-unused", ["v, *u = [a, b, c]", "return v"]),
    ("starred-used", ["u, *v = [a, b, c]", "return v"]),
    ("nested-target", ["(u, (v, w)) = (a, (b, c))", "return (v, w)"]),
    ("nested-inner", ["(v, (u, w)) = (a, (b, c))", "return (v, w)"]),
    ("attr-chain", ["bx = Box()", "bx.v = u = a", "return bx.v"]),
    ("attr-chain-first", ["bx = Box()", "u = bx.v = a", "return bx.v"]),
    ("subscript-chain", ["d = {}", "d[\"k\"] = u = a", "return d"]),
    ("subscript-chain-first", ["d = {}", "u = d[\"k\"] = a", "return d"]),
    ("annassign", ["u: int = a", "return b"]),
    ("annassign-novalue", ["u: int", "return b"]),
    ("augassign", ["u = 0", "u += a", "return b"]),
    ("reassign", ["u = a", "u = b", "return c"]),
    ("walrus-in-value", ["v = (u := a) + 1", "return v"]),
    ("walrus-in-value-list", ["v = [u := a, b]", "return v"]),
    ("walrus-in-subscript-target", ["d = {}", "d[(u := a)] = b", "return d"]),
    ("walrus-value-unused-target", ["u = (v := a) + 1", "return v"]),
    ("walrus-cond", ["if (u := a) is not None:", "    return b", "return c"]),
    ("walrus-while", ["while (u := a) and False:", "    pass", "return b"]),
    ("walrus-in-comp", ["return [(u := i) for i in range(2)]"]),
    ("walrus-expr-stmt", ["(u := a)", "return b"]),
    ("for-target", ["for u in range(2):", "    pass", "return a"]),
    ("for-tuple-target", ["r = []", "for u, v in [(a, b)]:", "    r.append(v)", "return r"]),
    ("with-as", ["with Box(a) as u:", "    pass", "return b"]),
    ("with-as-two", ["with Box(a) as u, Box(b) as v:", "    r = v.v", "return r"]),
    ("except-as", ["try:", "    return int(\"x\")", "except ValueError as u:", "    return b"]),
    ("import-as", ["import os.path as u", "return a"]),
    ("import-plain", ["import json", "return a"]),
    ("from-import-as", ["from os import sep as u, getcwd as v", "return v is not None"]),
    ("def-name", ["def u():", "    return 1", "return a"]),
    ("class-name", ["class u:", "    pass", "return a"]),
    ("match-capture", ["match Box([a, b]).v:", "    case [u, *rest]:", "        return rest", "    case {\"k\": v, **kw}:",
                       "        return (v, kw)", "    case Box(v=w) | w:", "        return w", "return c"]),
    ("match-as", ["match Box(a).v:", "    case (1 | 2) as u:", "        return b", "    case v:", "        return v"]),
    ("comp-var", ["return [1 for u in range(2)]"]),
    ("comp-tuple-var", ["return {k: 1 for k, u in [(a, b)]}"]),
    ("global-decl", ["global G0", "G0 = a", "return b"]),
    ("nonlocal-decl", ["z = 0", "def inner():", "    nonlocal z", "    z = a", "inner()", "return z"]),
    ("del-target", ["u = a", "del u", "return b"]),
    ("unused-in-if", ["if a:", "    u = 1", "    v = 2", "else:", "    v = 3", "return v"]),
    ("multi-line-chain", ["u = v = (", "    a,", "    b,", ")", "return v"]),
]


# every route into the producers: the operator / statement forms of each caller in the regenerated registry
ROUTE_FORMS = [
    ("aug-mod-known", ["fmt = \"%s items\"", "fmt %= a", "return fmt"]),            # visit_AugAssign -> _visit_binop_internal: no fix
    ("aug-mod-tuple", ["fmt = \"%s and %s\"", "fmt %= (a, b)", "return fmt"]),
    ("aug-mod-d", ["fmt = \"%d!\"", "fmt %= a", "return fmt"]),
    ("aug-mod-int", ["n = a + 10", "n %= 3", "return n"]),
    ("aug-mod-in-loop", ["fmt = \"%s;\"", "for i in range(1):", "    fmt %= i", "return fmt"]),
    ("aug-mod-attr", ["bx = Box(\"%s!\")", "bx.v %= a", "return bx.v"]),
    ("aug-add-fstr", ["s = \"p\"", "s += \"%s!\" % b", "return s"]),             # visit_BinOp inside an AugAssign value
    ("aug-add-tmpa", ["t = ()", "t += big(a, b, c, 4, 5, 6, 7, 8, 9, 10, 11)", "return t"]),
    ("aug-add-missing-f", ["s = \"p\"", "s += \"hello {a}\"", "return s"]),
    ("aug-add-comp", ["r = []", "r += [1 for x in range(2)]", "return r"]),
    ("compare-of-binop", ["return (\"%s\" % a) == b"]),                          # _visit_single_compare
    ("binop-mod-of-binop", ["return (\"%s\" + \"!\") % a"]),
    ("binop-nested", ["return \"%s\" % (\"%s\" % a)"]),
    ("missing-f-in-fstring", ["x = a", "y = b", "s = f\"{x} {{y}}\"", "return s"]),   # visit_Constant on a piece of a JoinedStr
    ("missing-f-in-call", ["return coll(\"{a} and {b}\")"]),
    ("missing-f-in-dict", ["return {\"k\": \"{a}\"}"]),
    ("pct-zero-precision", ["return \"%.0s|\" % b"]),
    ("pct-zero-width", ["return \"%0s|\" % b"]),
    ("pct-star-width", ["return \"%*s|\" % (3, b)"]),
    ("comp-in-genexp", ["return sum(1 for x in range(a))"]),                      # _visit_sequence_comp routes
    ("comp-in-setcomp", ["return len({1 for x in range(2)})"]),
    ("comp-in-dictcomp", ["return {1: 2 for x in range(2)}"]),
]
# the too_many_positional_args producer: >= 10 positionals next to every kind of keyword argument
TMPA_PRELUDE = [
    "def bigk(a, b, c, d, e, f, g, h, i, j, *, k=0, m=0):", "    return (a, j, k, m)",
    "def bigr(a, b, c, d, e, f, g, h, i, j, *, k, m=0):", "    return (a, j, k, m)",
]
TMPA_FORMS = [
    ("tmpa-no-keywords", ["return bigk(a, b, c, 4, 5, 6, 7, 8, 9, 10)"]),
    ("tmpa-keyword", ["return bigk(a, b, c, 4, 5, 6, 7, 8, 9, 10, k=a)"]),
    ("tmpa-two-keywords", ["return bigk(a, b, c, 4, 5, 6, 7, 8, 9, 10, m=b, k=a)"]),
    ("tmpa-mapping", ["return bigk(a, b, c, 4, 5, 6, 7, 8, 9, 10, **{\"k\": a})"]),
    ("tmpa-keyword-mapping", ["return bigk(a, b, c, 4, 5, 6, 7, 8, 9, 10, m=b, **{\"k\": a})"]),
    ("tmpa-mapping-keyword", ["return bigk(a, b, c, 4, 5, 6, 7, 8, 9, 10, **{\"k\": a}, m=b)"]),
    ("tmpa-two-mappings", ["return bigk(a, b, c, 4, 5, 6, 7, 8, 9, 10, **{\"k\": a}, **{\"m\": b})"]),
    ("tmpa-required-kwonly-mapping", ["return bigr(a, b, c, 4, 5, 6, 7, 8, 9, 10, **{\"k\": a})"]),
    ("tmpa-required-kwonly-var", ["kw = {\"k\": a, \"m\": b}", "return bigr(a, b, c, 4, 5, 6, 7, 8, 9, 10, **kw)"]),
    ("tmpa-multi-line", ["return bigk(a, b, c, 4, 5,", "            6, 7, 8, 9, 10,", "            m=b,", "            **{\"k\": a})"]),
    ("tmpa-nested", ["return coll(bigk(a, b, c, 4, 5, 6, 7, 8, 9, 10, **{\"k\": a}), z=1)"]),
]
MODULE_ROUTE_FORMS = [
    ("module-aug-mod", ["FMT = \"%s items\"", "FMT %= 3"]),
    ("module-binop", ["MSG = \"%s!\" % __name__"]),
    ("class-aug-mod", ["class Cfg:", "    fmt = \"%s;\"", "    fmt %= 1"]),
]


def route_programs(ctx):
    progs = [("route:" + n, build_ctx_program(b), "fix") for n, b in ROUTE_FORMS]
    for n, b in MODULE_ROUTE_FORMS:
        progs.append(("route:" + n, list(CTX_PRELUDE) + b + ["def t0(a, b, c):", "    return a"], "fix"))
    for n, b in TMPA_FORMS:
        progs.append(("route:" + n, list(CTX_PRELUDE) + TMPA_PRELUDE + ["def t0(a, b, c):"] + ["    " + l for l in b], "nodefix"))
    return progs


def route_coverage(ctx, rows):
    """Registered replace_node / remove_node routes (producer function <- its callers) vs the call chains observed."""
    reg = []
    for r in rows:
        if r["call"] in ("replace_node", "remove_node"):
            fn = r["func"].split(".")[-1]
            callers = sorted({c.split(":", 1)[1].split("(")[0].split(".")[-1] for c in r["callers"]}) or ["-"]
            for c in callers:
                reg.append((r["call"], fn, c))
    seen = {(c, f1, f2) for (c, f1, f2) in ROUTES_SEEN}
    ctx.extra["fix_route_coverage"] = {
        "registered_routes": len(set(reg)),
        "observed": sorted("%s<-%s<-%s x%d" % (k[0], k[1], k[2], v) for k, v in ROUTES_SEEN.items()),
        "registered_not_observed": sorted("%s<-%s<-%s" % k for k in set(reg) if k not in seen and (k[0], k[1]) not in {(a, b) for (a, b, _c) in seen}),
    }


def bind_programs(ctx):
    rng = ctx.rng
    progs = []
    for name, body in BIND_FORMS:
        progs.append(("bind:" + name, build_ctx_program(body), "fix"))
    # two forms in two functions (fixpoint interplay), seeded
    for _ in range(ctx.n(4, 150)):
        (n1, b1), (n2, b2) = rng.choice(BIND_FORMS), rng.choice(BIND_FORMS)
        lines = build_ctx_program(b1) + ["def t1(a, b, c):"] + ["    " + l for l in b2]
        progs.append(("bind2:%s:%s" % (n1, n2), lines, "fix"))
    return progs


# ------------------------------------------------------------------ fixes stream
def normalise_new_node(new_node, target):
    """The replacement the fix producer built, as CPython itself reads it back (ast.unparse -> ast.parse), with the
    expression context of the node it replaces."""
    try:
        n = ast.parse(ast.unparse(new_node), mode="eval").body
    except Exception:
        n = copy.deepcopy(new_node)
    if hasattr(target, "ctx") and hasattr(n, "ctx"):
        n.ctx = type(target.ctx)()
    return n


def exact_replacement_dump(old_tree, info):
    """ast.dump of the original tree with exactly the intended node replaced (None if the node cannot be located)."""
    tt = info.get("target")
    if not tt or info.get("new_node") is None:
        return None
    cands = [n for n in ast.walk(old_tree) if type(n).__name__ == tt[0] and getattr(n, "lineno", None) == tt[1]
             and getattr(n, "col_offset", None) == tt[2] and getattr(n, "end_lineno", None) == tt[3]
             and getattr(n, "end_col_offset", None) == tt[4]]
    if len(cands) != 1:
        return None
    exp = subst_ast(old_tree, cands[0], normalise_new_node(info["new_node"], cands[0]))
    info["expected_src"] = ast.unparse(ast.fix_missing_locations(exp))
    return ast.dump(exp)


def fix_case(ctx, case, lines, with_model, cap, profile="fix"):
    src = "\n".join(lines) + "\n"
    cur = src
    pending = []   # driver lines + comparison closures
    for k in range(cap):
        try:
            fails, changes, info, new = real_round(ctx, cur, False, profile)
        except Exception as e:
            if k == 0:
                ctx.tag("generator_rejects")
                ctx.notes.append("fix program rejected (%s: %s): %r" % (type(e).__name__, e, lines[:8]))
            return pending
        ctx.count(1, fixes=1)
        for (call, f1, f2, tk, rk, ok) in LAST_ROUTES:
            if call == "replace_node" and ast_category(tk) != ast_category(rk):
                pending.append(("P", case, k, None, [("kind", "round %d: %s (called from %s) hands replace_node a %s (%s) with a %s (%s) replacement" % (
                    k, f1, f2, tk, ast_category(tk), rk, ast_category(rk)))], None))
        cl = file_lines(cur)
        first = changes[0] if changes else None
        if k == 0:
            t0_ = try_parse(cur)
            for gl, proposed, text in (guard_cases(t0_, fails, changes) if t0_ is not None else []):
                pending.append(("G", case, k, gl, proposed, text))
        if first is not None:
            pending.append(("A", case, k, "A|%s|%s|%s" % (enc_lines(cl), ",".join(map(str, first[0])) or "-",
                                                         enc_adds(None if first[1] is None else strip_nl(first[1]))),
                            file_lines(new), None))
        if new == cur:
            ctx.tag("fix_fixpoint_round_%d" % min(k, 5))
            break
        ctx.nontriv("fix:" + json.dumps([case, k], sort_keys=True))
        code = fails[0][0]
        ctx.tag("fix_applied_" + str(code))
        problems = []
        old_tree = ast.parse(cur)
        new_tree = try_parse(new)
        st = find_stmt(old_tree, info) if info else None
        facts = stmt_facts(cur, old_tree, st) if st is not None else (False,) * 8
        if info is None or st is None:
            ctx.tag("fix_without_statement_record")
        if new_tree is None:
            problems.append(("parse", "round %d: after applying the fix for %s (lines %s) the file no longer parses" % (k, code, first[0])))
        elif st is not None:
            # locality: nothing outside the statement changed
            if info["kind"] == "remove":
                if ast.dump(new_tree) != dump_without(old_tree, st, False):
                    problems.append(("locality", "round %d: removing the statement on line %d for %s changed more than that statement" % (k, st.lineno, code)))
            else:
                off = len(first[1]) - len(first[0])
                cand = [n for n in ast.walk(new_tree) if isinstance(n, ast.stmt) and type(n) is type(st)
                        and st.lineno <= n.lineno <= st.lineno + len(first[1]) and n.col_offset == st.col_offset]
                ok = False
                for n in cand:
                    if dump_without(new_tree, n, True) == dump_without(old_tree, st, True):
                        ok = True
                if not ok:
                    problems.append(("locality", "round %d: rewriting the statement on line %d for %s changed the tree outside that statement" % (k, st.lineno, code)))
                # exactness: the fixed file is the original tree with exactly the intended node replaced
                tn, nn = info.get("target"), info.get("new_node")
                if code == "too_many_positional_args" and tn and isinstance(nn, ast.Call):
                    oc = [n for n in ast.walk(old_tree) if isinstance(n, ast.Call) and (n.lineno, n.col_offset, n.end_lineno, n.end_col_offset) == tn[1:]]
                    if len(oc) == 1:
                        oc = oc[0]
                        d = lambda x: ast.dump(x)
                        npos = len(oc.args)
                        ok = (not nn.args and d(nn.func) == d(oc.func) and len(nn.keywords) == npos + len(oc.keywords)
                              and all(k.arg is not None for k in nn.keywords[:npos])
                              and [d(k.value) for k in nn.keywords[:npos]] == [d(a_) for a_ in oc.args]
                              and [d(k) for k in nn.keywords[npos:]] == [d(k) for k in oc.keywords])
                        if not ok:
                            problems.append(("exact", "round %d: the call proposed for too_many_positional_args is not the original call with only its %d positional arguments turned into keywords (%d keyword arguments instead of %d)" % (
                                k, npos, len(nn.keywords), npos + len(oc.keywords))))
                want = exact_replacement_dump(old_tree, info)
                if want is None:
                    ctx.tag("fix_target_not_located")
                else:
                    ctx.count(1, exact_oracle=1)
                    if ast.dump(new_tree) != want:
                        problems.append(("exact", "round %d: the file after the fix for %s is not the original syntax tree with exactly the node at line %d col %d replaced" % (
                            k, code, info["target"][1], info["target"][2])))
            if info["kind"] == "remove":
                # bindings: the statement may go only if it binds nothing but the unused name that nobody reads
                un = next((n for n in ast.walk(st) if isinstance(n, ast.Name) and n.lineno == fails[0][1] and n.col_offset == fails[0][2]), None)
                if un is not None:
                    ctx.count(1, removal_binding_oracle=1)
                    others = set(bound_names(st)) - {un.id}
                    rd = reads_outside(enclosing_function(old_tree, st), st, others)
                    if rd:
                        problems.append(("binding", "round %d: the statement removed for the unused %s (line %d) also binds %s, read on line %d" % (
                            k, un.id, st.lineno, rd[0][0], rd[0][1])))
            # behaviour
            b0, b1 = behaviour(cur), behaviour(new)
            if code == "missing_f" and info.get("expected_src"):
                # the intended change alters the value: compare with the original tree with exactly that node replaced
                b0 = behaviour(info["expected_src"])
            elif code == "missing_f":
                # the intended change: the literal is now formatted with the local names
                def fmt(v, args):
                    try:
                        return repr(eval(v).format(a=args[0], b=args[1], c=args[2]))
                    except Exception:
                        return v
                b0 = {fn: ([fmt(v, a) for v, a in zip(vs, SAMPLE_ARGS)] if b1.get(fn) != vs else vs) for fn, vs in b0.items()}
            if b0 != b1:
                diff = [fn for fn in sorted(set(b0) | set(b1)) if b0.get(fn) != b1.get(fn)]
                problems.append(("behaviour", "round %d: after the fix for %s, %s returns %s instead of %s" % (
                    k, code, diff[0], b1.get(diff[0]), b0.get(diff[0]))))
        if new_tree is not None:
            # the proposing diagnostic is gone
            try:
                nf = real_round(ctx, new, False, profile)[0]
            except Exception:
                nf = None
                problems.append(("behaviour", "round %d: after the fix for %s the module no longer imports" % (k, code)))
            if nf is not None:
                key = (fails[0][0], fails[0][3])
                c_old = sum(1 for f in fails if (f[0], f[3]) == key)
                c_new = sum(1 for f in nf if (f[0], f[3]) == key)
                if c_new > c_old - 1:
                    problems.append(("still", "round %d: the diagnostic that proposed the fix (%s: %s) is still reported" % (k, key[0], key[1])))
                # no new diagnostics (a removal may make another binding unused: that cascade is expected)
                oldset = collections.Counter((f[0], f[3]) for f in fails)
                fresh = [f for f in nf if oldset[(f[0], f[3])] == 0 and f[0] not in ("unused_variable", "unused_assignment")]
                if fresh:
                    problems.append(("newdiag", "round %d: after the fix for %s a diagnostic appears that was not there before: %s on line %s (%s)" % (
                        k, code, fresh[0][0], fresh[0][1], fresh[0][3][:60])))
        if info is not None:
            pending.append(("X", case, k, "X|%s|%d|%d|%s|%d%d%d%d%d%d%d%d%d" % (
                enc_lines(cl), info["lineno"], info["end_lineno"], enc_adds(None if first[1] is None else strip_nl(first[1])),
                int(facts[0]), int(facts[1]), int(facts[2]), int(facts[3] and code == "use_fstrings"), int(facts[4]),
                int(facts[5]), int(facts[6] and code == "use_fstrings"), int(facts[7] and code == "use_fstrings"),
                int(bool(info.get("target_in_joinedstr")))), problems, first[0]))
            pending.append(("R", case, k, "R|%s|%d|%d|%d" % (enc_lines(cl), info["lineno"], info["end_lineno"], info["end_lineno"]),
                            first[0], None))
        elif problems:
            pending.append(("P", case, k, None, problems, None))
        if new_tree is None:
            break
        cur = new
    return pending


FIX_KIND_CLASSES = {
    "parse": ["emptyBlock", "stmtRangeOverrun", "sharedLine"],
    "locality": ["stmtRangeOverrun", "sharedLine", "elifHeader", "emptyBlock", "decoratedStmt"],
    "behaviour": ["stmtRangeOverrun", "sharedLine", "elifHeader", "decoratedStmt", "fstringConversion"],
    "still": ["decoratedStmt"],
    "exact": ["stmtRangeOverrun", "sharedLine", "elifHeader", "decoratedStmt"],
    "kind": [],           # an expression for a statement (or the reverse): never a known class
    "binding": [],        # was walrusInRemoved, repaired by 21e29d0: a removed statement that binds something else is new
    "newdiag": ["sharedLine", "elifHeader", "stmtRangeOverrun", "decoratedStmt"],
}


def flush_fixes(ctx, pending, with_model):
    outs = [None] * len(pending)
    idx = [i for i, p in enumerate(pending) if p[3] is not None]
    if with_model and idx:
        res = lean.run_driver("C16", [pending[i][3] for i in idx])
        for i, o in zip(idx, res):
            outs[i] = parse_kv(o)
    conform = {}
    for p, mo in zip(pending, outs):
        op, case, k = p[0], p[1], p[2]
        key = (json.dumps(case, sort_keys=True), k)
        if op == "A" and mo is not None:
            ctx.corr("fixes")
            got = enc_lines(p[4])
            if mo.get("model") != got:
                conform[key] = False
                ctx.disagree("fixes", dict(case, round=k), "file after the round: " + got[:200], "applyChanges: " + str(mo.get("model"))[:200])
            if mo.get("wf") == "1" and mo.get("spec") != mo.get("model"):
                ctx.disagree("model-vs-spec", dict(case, round=k), "applyChanges " + str(mo.get("model"))[:120], "specApply " + str(mo.get("spec"))[:120])
        if op == "G" and mo is not None:
            ctx.corr("guard")
            ctx.count(1, guard=1)
            if mo.get("guard") != ("1" if p[4] else "0"):
                ctx.disagree("guard", dict(case, statement=p[5]), "removal fix %s" % ("attached" if p[4] else "not attached"),
                             "Gen.removalGuard = " + str(mo.get("guard")))
            if mo.get("guard") == "1" and mo.get("sole") == "0":
                ctx.disagree("model-vs-spec", dict(case, statement=p[5]), "Gen.removalGuard accepts", "soleBinding is false")
        if op == "R" and mo is not None:
            ctx.corr("range")
            got = ",".join(map(str, p[4]))
            if mo.get("range") != got:
                conform[key] = False
                if mo.get("D") == "stmtRangeOverrun" and got == mo.get("spec"):
                    ctx.tag("repaired_in_class_stmtRangeOverrun")
                else:
                    ctx.disagree("range", dict(case, round=k), "get_line_range_for_node: " + got, "lineRange: " + str(mo.get("range")))
    for p, mo in zip(pending, outs):
        op, case, k = p[0], p[1], p[2]
        key = (json.dumps(case, sort_keys=True), k)
        if op in ("X", "P") and p[4]:
            cls_list = classes_of(mo) if mo else []
            for c in cls_list:
                ctx.tag("class_" + c)
            seen = set()
            for kind, what in p[4]:
                if kind in seen:
                    continue
                seen.add(kind)
                allowed = FIX_KIND_CLASSES[kind]
                if kind == "behaviour" and any(k2 in ("exact", "locality", "parse") for k2, _w in p[4]):
                    # fstringConversion explains a changed result only when the tree is exactly the intended one
                    allowed = [c for c in allowed if c != "fstringConversion"]
                cls = next((c for c in allowed if c in cls_list), None)
                ctx.candidate(dict(case, round=k), what, cls=cls, conforms=conform.get(key, True), stream="fixes")
        elif op == "X" and mo is not None:
            for c in classes_of(mo):
                ctx.tag("class_without_failure_" + c)


# ------------------------------------------------------------------ apply stream (real _apply_changes_to_lines)
def apply_cases(ctx):
    rng = ctx.rng
    cases = []
    pool = ["a", "b", "c", "d"]
    files = [[]] + [pool[:n] for n in (1, 2, 3)]
    dels_small = [[]] + [[i] for i in range(0, 5)] + [[i, j] for i in range(0, 5) for j in range(0, 5)]
    adds_small = [None, [], ["X"], ["X", "Y"]]
    for f in files:
        for d in dels_small:
            for a in adds_small:
                cases.append((f, [(d, a)]))
    cap = ctx.n(300, 100000)
    if len(cases) > cap:
        rng.shuffle(cases)
        cases = cases[:cap]
    for _ in range(ctx.n(700, 20000)):
        n = rng.randint(0, 8)
        f = ["l%d" % i for i in range(n)]
        chs = []
        for _c in range(rng.randint(0, 3)):
            r = rng.random()
            if r < 0.65 and n:
                d = sorted(rng.sample(range(1, n + 1), rng.randint(1, min(3, n))))
                if rng.random() < 0.4:
                    rng.shuffle(d)
            else:
                d = [rng.randint(0, n + 3) for _ in range(rng.randint(0, 3))]
            a = None if rng.random() < 0.15 else ["N%d" % i for i in range(rng.randint(0, 3))]
            chs.append((d, a))
        cases.append((f, chs))
    return cases


def run_apply(ctx, with_model):
    from pyanalyze.node_visitor import Replacement
    NCV, _ = _classes()
    cases = apply_cases(ctx)
    impl = []
    for f, chs in cases:
        try:
            r = NCV._apply_changes_to_lines([Replacement(list(d), None if a is None else [x + "\n" for x in a]) for d, a in chs],
                                            [x + "\n" for x in f])
            impl.append(enc_lines(strip_nl(list(r))))
        except Exception as e:
            impl.append("EXC:" + type(e).__name__)
    model = None
    if with_model:
        dl = []
        for f, chs in cases:
            if chs:
                d, a = chs[0]
                dl.append("A|%s|%s|%s" % (enc_lines(f), ",".join(map(str, d)) or "-", enc_adds(a)))
            else:
                dl.append("A|%s|1|N" % enc_lines(f))
        model = [parse_kv(o) for o in lean.run_driver("C16", dl)]
    for i, (f, chs) in enumerate(cases):
        ctx.count(1, apply=1)
        if impl[i] != enc_lines(f):
            ctx.nontriv("apply:" + json.dumps([f, chs]))
        if model is not None:
            ctx.corr("apply")
            if model[i].get("model") != impl[i]:
                ctx.disagree("apply", {"file": f, "changes": chs}, impl[i], str(model[i].get("model")))
            if model[i].get("wf") == "1":
                ctx.corr("model-vs-spec")
                if model[i].get("spec") != model[i].get("model"):
                    ctx.disagree("model-vs-spec", {"file": f, "changes": chs}, "applyChanges " + str(model[i].get("model")), "specApply " + str(model[i].get("spec")))
        if i % 997 == 0:
            ctx.sample({"apply": {"file": f, "changes": chs}, "pyanalyze": impl[i]})


# ------------------------------------------------------------------ range stream (real get_line_range_for_node)
def run_range(ctx, programs, with_model):
    from pyanalyze.analysis_lib import get_line_range_for_node
    items = []
    for lines in programs:
        src = "\n".join(lines) + "\n"
        tree = try_parse(src)
        if tree is None:
            continue
        pl = [l + "\n" for l in lines]      # what `_lines()` hands to get_line_range_for_node
        for n in ast.walk(tree):
            if isinstance(n, ast.stmt):
                try:
                    got = ",".join(map(str, get_line_range_for_node(n, pl)))
                except Exception as e:
                    got = "EXC:" + type(e).__name__
                last = max([getattr(c, "end_lineno", None) or getattr(c, "lineno", 0) for c in ast.walk(n)] + [0])
                items.append((lines, n.lineno, last, n.end_lineno, got))
    cap = ctx.n(1500, 30000)
    if len(items) > cap:
        ctx.rng.shuffle(items)
        items = items[:cap]
    model = None
    if with_model and items:
        model = [parse_kv(o) for o in lean.run_driver("C16", ["R|%s|%d|%d|%d" % (enc_lines(l), a, b, c) for (l, a, b, c, _g) in items])]
    for i, (l, a, b, c, got) in enumerate(items):
        ctx.count(1, range=1)
        if model is not None:
            ctx.corr("range")
            m = model[i].get("range", model[i].get("raw"))
            d = model[i].get("D") == "stmtRangeOverrun"
            if m != got:
                if d and got == model[i].get("spec"):
                    ctx.tag("repaired_in_class_stmtRangeOverrun")
                else:
                    ctx.disagree("range", {"program": l, "first": a, "astLast": b}, got, str(m))
            if d:
                ctx.tag("range_class_stmtRangeOverrun")
            # the class predicate is exactly "model differs from lineno..end_lineno" (theorem line_range_exact_partial + witnesses)
            if "range" in model[i] and (model[i]["range"] != model[i]["spec"]) != d:
                ctx.disagree("model-vs-spec", {"program": l, "first": a, "end": c}, "lineRange %s vs specRange %s" % (model[i]["range"], model[i]["spec"]),
                             "D16_stmtRangeOverrun = %s" % d)


# ------------------------------------------------------------------ cli stream (the real main loop)
def run_cli(ctx, lines, with_model, idx):
    name = "c16cli_%d_%d" % (ctx.seed, idx)
    path = os.path.join(ctx.scratch, name + ".py")
    src = "\n".join(lines) + "\n"
    with open(path, "w") as f:
        f.write(src)
    env = dict(os.environ, PYTHONPATH=pya.REPO, PYTHONHASHSEED="0")
    p = subprocess.run([sys.executable, "-m", "pyanalyze", "--add-ignores", "-r", name + ".py"], cwd=ctx.scratch, env=env,
                       capture_output=True, text=True, timeout=600)
    final = open(path).read()
    out = p.stdout + p.stderr
    runs = out.count("Running iteration")
    limit_hit = "Iteration Limit Exceeded" in out
    ctx.count(1, cli=1)
    case = {"program": lines, "cli": "--add-ignores -r"}
    # in-process loop with pyanalyze's default settings
    r = ignores_real(ctx, src, 160 if limit_hit else 60, profile="default", removal_budget=0)
    if with_model:
        raw = " ".join("%s,%d,%d" % (c, l, col) for (c, l, col, _m) in r["rounds"][0][0])
        mo = parse_kv(lean.run_driver("C16", ["I|%s|%s|%d|150" % (enc_lines(file_lines(src)), raw, 151 if limit_hit else runs)])[0])
        ctx.corr("cli")
        want = "limit" if limit_hit else "done:%d" % runs
        if mo.get("out") != want:
            ctx.disagree("cli", case, "main loop: " + want, "mainLoop: " + str(mo.get("out")))
        if file_lines(final) != dec_lines(mo.get("last", "E")):
            ctx.disagree("cli", case, "file left by the command line run (%d lines)" % len(file_lines(final)),
                         "model after the same number of runs (%d lines)" % len(dec_lines(mo.get("last", "E"))))
        cls_list = classes_of(mo)
    else:
        cls_list = []
    if limit_hit:
        ctx.candidate(case, "`python -m pyanalyze --add-ignores -r` does not terminate: 'Iteration Limit Exceeded' after %d runs, the file grew from %d to %d lines"
                      % (runs, len(lines), len(file_lines(final))), cls="twoCodesOneLine" if "twoCodesOneLine" in cls_list else None,
                      conforms=True, stream="cli")
    elif not limit_hit and r["status"] == "fixpoint" and file_lines(final) != file_lines(r["final"]):
        ctx.disagree("cli", case, "command line result", "in-process loop result differs")


# ------------------------------------------------------------------ entry points
def corpus():
    path = os.path.join(lean.HERE, "corpus", "C16.jsonl")
    out = []
    if os.path.exists(path):
        for l in open(path):
            if l.strip():
                out.append(json.loads(l))
    return out


def run_corpus_item(ctx, item, with_model):
    if "program" in item and item.get("mode", "ignores") == "ignores":
        src = "\n".join(item["program"]) + ("\n" if item.get("final_newline", True) else "")
        ignores_cases(ctx, [{"case": {"program": item["program"], "final_newline": item.get("final_newline", True)},
                             "src": src, "cap": item.get("cap", ROUND_CAP_QUICK)}], with_model)
    elif "program" in item and item.get("mode") == "fixes":
        flush_fixes(ctx, fix_case(ctx, {"program": item["program"], "mode": "fixes", "profile": item.get("profile", "fix")},
                                  item["program"], with_model, 8, profile=item.get("profile", "fix")), with_model)
    elif "program" in item and item.get("mode") == "cli":
        run_cli(ctx, item["program"], with_model, 900 + len(item["program"]))


def _run(ctx, with_model):
    cap = ctx.n(ROUND_CAP_QUICK, ROUND_CAP)
    # corpus first, batched (one driver start per stream instead of one per item)
    c_ign, c_fix = [], []
    for item in corpus():
        if "program" in item and item.get("mode", "ignores") == "ignores":
            src = "\n".join(item["program"]) + ("\n" if item.get("final_newline", True) else "")
            c_ign.append({"case": {"program": item["program"], "final_newline": item.get("final_newline", True)},
                          "src": src, "cap": item.get("cap", ROUND_CAP_QUICK)})
        elif "program" in item and item.get("mode") == "fixes":
            prof = item.get("profile", "fix")
            c_fix += fix_case(ctx, {"program": item["program"], "mode": "fixes", "profile": prof}, item["program"], with_model, 8, profile=prof)
        else:
            run_corpus_item(ctx, item, with_model)
    ignores_cases(ctx, c_ign, with_model)
    flush_fixes(ctx, c_fix, with_model)
    # ---- add-ignores
    progs = gen_ignore_programs(ctx)
    items = []
    for tag, lines, nl in progs:
        src = "\n".join(lines) + ("\n" if nl else "")
        ctx.tag("gen_" + tag.split(":")[0].replace("-", "_"))
        items.append({"case": {"program": lines, "final_newline": nl}, "src": src, "cap": cap, "removal": ctx.n(3, 12)})
    for i in range(0, len(items), 90):
        ignores_cases(ctx, items[i:i + 90], with_model)
    # ---- real fixes
    fprogs = gen_fix_programs(ctx)
    pending = []
    for tag, lines in fprogs:
        ctx.tag("gen_fix_" + tag.split(":")[0].replace("-", "_"))
        pending += fix_case(ctx, {"program": lines, "mode": "fixes"}, lines, with_model, ctx.n(6, 12))
        if len(pending) > 150:
            flush_fixes(ctx, pending, with_model)
            pending = []
    flush_fixes(ctx, pending, with_model)
    # ---- node-level fixes in every expression / statement context
    cprogs = ctx_programs(ctx)
    pending = []
    for tag, lines, prof in cprogs:
        ctx.tag("gen_ctx_" + tag.split(":")[0])
        before = len(pending)
        pending += fix_case(ctx, {"program": lines, "mode": "fixes", "profile": prof}, lines, with_model, ctx.n(1, 4), profile=prof)
        if not any(p[0] == "X" for p in pending[before:]):
            ctx.tag("ctx_without_applied_node_fix")
            ctx.notes.append("context without an applied fix: " + tag)
        if len(pending) > 150:
            flush_fixes(ctx, pending, with_model)
            pending = []
    flush_fixes(ctx, pending, with_model)
    context_coverage(ctx, [l for _t, l, _p in cprogs])
    # ---- the unused name in every binding form (removal fixes)
    bprogs = bind_programs(ctx)
    pending = []
    for tag, lines, prof in bprogs:
        ctx.tag("gen_" + tag.split(":")[0])
        pending += fix_case(ctx, {"program": lines, "mode": "fixes", "profile": prof}, lines, with_model, ctx.n(3, 6), profile=prof)
        if len(pending) > 200:
            flush_fixes(ctx, pending, with_model)
            pending = []
    flush_fixes(ctx, pending, with_model)
    binding_coverage(ctx, [l for _t, l, _p in bprogs] + [l for _t, l, _p in cprogs])
    # ---- every registered route into the fix producers
    pending = []
    for tag, lines, prof in route_programs(ctx):
        ctx.tag("gen_route")
        pending += fix_case(ctx, {"program": lines, "mode": "fixes", "profile": prof}, lines, with_model, ctx.n(2, 4), profile=prof)
    flush_fixes(ctx, pending, with_model)
    try:
        route_coverage(ctx, scan_fix_routes(pya.REPO))
    except Exception as e:
        ctx.obligation_broken("fix-route-scan", "the fix producers could not be scanned: %r" % (e,))
    srcs = ["\n".join(l) + "\n" for _t, l, _p in cprogs]
    extra = ["\n".join(l) + "\n" for _t, l in fprogs] + ["\n".join(l) + "\n" for _t, l, _n in progs]
    ctx.rng.shuffle(extra)
    run_nodecopy(ctx, srcs + extra[:ctx.n(40, 600)], with_model)
    # ---- unit streams
    run_apply(ctx, with_model)
    run_range(ctx, [l for _t, l, _n in progs] + [l for _t, l in fprogs], with_model)
    # ---- the real command line loop
    cli_progs = [build_program([], [[T_SAFE[4][1], T_SAFE[1][1]]], []), build_program([], [[T_TWOCODES[0][1]]], [])]
    for _ in range(ctx.n(0, 6)):
        # no assignments: with pyanalyze's default settings unused_variable is on, and its diagnostics come out in
        # set-iteration order, which differs between this process and the subprocess (C10's subject, not C16's)
        pool = [t for n, t in T_SAFE if n in ("badarg", "badcall", "attr", "two-same-code", "cont-paren", "cont-paren3",
                                              "cont-bslash-in-paren", "nested-if", "nested-try")]
        cli_progs.append(build_program([], [[ctx.rng.choice(pool) for _ in range(3)]], []))
    for i, lines in enumerate(cli_progs):
        run_cli(ctx, lines, with_model, i)


def run(ctx):
    _run(ctx, True)


def run_impl_only(ctx):
    _run(ctx, False)


def replay(ctx, data):
    case = data.get("case") or (data.get("broken") or [{}])[0].get("case")
    if not case:
        print("nothing to replay in this file (no input recorded)")
        return 1
    if "cli" in case:
        run_cli(ctx, case["program"], True, 999)
    elif case.get("mode") == "fixes":
        flush_fixes(ctx, fix_case(ctx, dict(case), case["program"], True, 12, profile=case.get("profile", "fix")), True)
    elif "program" in case and isinstance(case["program"], list):
        src = "\n".join(case["program"]) + ("\n" if case.get("final_newline", True) else "")
        ignores_cases(ctx, [{"case": case, "src": src, "cap": ROUND_CAP}], True)
    elif "file" in case:
        print("apply case:", case)
    print(json.dumps({"case": case, "candidates": ctx.candidates, "broken": ctx.broken}, indent=1, default=str)[:6000])
    return 1 if (ctx.candidates or ctx.broken) else 0
