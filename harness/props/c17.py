"""C17 — format-string diagnostics agree with CPython's formatter.

Streams
  regex : `_FORMAT_STRING_REGEX_TEXT/BYTES.finditer` (live regex)      vs  Lean scanner `scan`
  unit  : `PercentFormatString.from_pattern/.lint/.accept` (all message kinds, crash)
          `parse_format_string` + `_str_format_impl` on a recording context   vs  Lean model
  e2e   : `reveal_type(<template> % <arg>)` / `reveal_type(<template>.format(...))` lines checked by
          pyanalyze: first bad_format_string / incompatible_call kind (pyanalyze shows one message per
          (node, code)), internal_error, revealed type                        vs  Lean model
  spec  : the expression really evaluated under CPython (raises? result type) vs  Lean spec
Property search: implementation verdict (unit: all messages; e2e: anything on the line) vs CPython:
  MISS  CPython raises, nothing reported;  FP  CPython succeeds, a non-lint message / crash is reported;
  TYPE  revealed type is not the type of the actual result.
Lint-only kinds (documented stricter rules, never a violation): `%`: "use of % on string with no
conversion specifiers", "cannot combine specifiers that require a mapping with those that do not";
`str.format`: "… argument(s) … were not used".
"""
import itertools, json, os, re

from harness.common import lean, pya

PROP = "C17"
LEAN_PROP = "PyaModel.Props.C17"
NAMESPACE = "Pya.C17"
LEAN_TARGETS = ["PyaModel.Spec.CpyFormat"]
ANCHORS = [
    ("pyanalyze/format_strings.py", "ConversionSpecifier.from_match"),
    ("pyanalyze/format_strings.py", "ConversionSpecifier.lint"),
    ("pyanalyze/format_strings.py", "ConversionSpecifier.accept_no_mvv"),
    ("pyanalyze/format_strings.py", "StarConversionSpecifier.accept"),
    ("pyanalyze/format_strings.py", "PercentFormatString.from_pattern"),
    ("pyanalyze/format_strings.py", "PercentFormatString.from_bytes_pattern"),
    ("pyanalyze/format_strings.py", "PercentFormatString.lint"),
    ("pyanalyze/format_strings.py", "PercentFormatString.accept"),
    ("pyanalyze/format_strings.py", "PercentFormatString.get_specifier_mapping"),
    ("pyanalyze/format_strings.py", "PercentFormatString.accept_mapping_args_no_mvv"),
    ("pyanalyze/format_strings.py", "PercentFormatString.get_serial_specifiers"),
    ("pyanalyze/format_strings.py", "PercentFormatString.accept_tuple_args_no_mvv"),
    ("pyanalyze/format_strings.py", "check_string_format"),
    ("pyanalyze/format_strings.py", "_parse_children"),
    ("pyanalyze/format_strings.py", "_parse_replacement_field"),
    ("pyanalyze/implementation.py", "_str_format_impl"),
    ("pyanalyze/name_check_visitor.py", "NameCheckVisitor._visit_binop_internal"),
    ("pyanalyze/name_check_visitor.py", "NameCheckVisitor.visit_BinOp"),
    ("pyanalyze/name_check_visitor.py", "NameCheckVisitor.visit_AugAssign"),
]
RULE = (
    "% formatting: all templates over a 12-symbol alphabet (% ( ) a d c s x . * 5 b) up to a length bound x a fixed "
    "list of literal arguments, str and bytes, then seeded random templates from the conversion grammar (mapping keys, "
    "flags, width, precision, *, length modifier, every conversion type, %%, a few malformed pieces) x mostly-matching "
    "literal scalars/tuples/dicts; str.format: all templates over { } 0 1 a ! r : . [ ] up to a length bound x a few "
    "argument lists, then seeded random templates (auto/numbered/named fields, paths, conversions, nested specs, "
    "escapes) x mostly-matching positional/keyword literals; regex: every string over a small alphabet up to a length "
    "bound. Lint-only messages (no-specifier use, mapping/non-mapping mixing, unused format arguments) are never "
    "counted as disagreement with CPython. A case is non-trivial when the template contains a directive/field."
)
ASSUMPTIONS = [
    "templates are ASCII plus non-digit non-ASCII letters: `\\d` of the regex on non-ASCII decimal digits, non-ASCII bytes "
    "in bytes mapping keys (pyanalyze decodes them as ASCII) and superscript digits in str.format field names are outside the model",
    "literal arguments only (KnownValue scalars, tuples, dicts); unions, TypedValues, TypedDict kwargs, *args/**kwargs "
    "in str.format are outside the model",
    "floats are finite, ints small enough for %e/%c range logic to be the only failure; width/precision numerals below "
    "INT_MAX are assumed not to exhaust memory (the spec models only the 'too big' ValueErrors)",
    "str.format: value-level operations (attribute/index lookups along a field path, format(obj, spec)) are outside the "
    "spec; templates containing them are exception classes fmtPath / fmtSpec",
    "the format-template parser model uses fuel 2*len+2 (each parser call consumes a character)",
]
TRUSTED = [
    "Spec/CpyFormat.lean (cpyPercent, cpyFormat) is validated against the real `%` / `str.format` on every run (stream spec)",
    "the scanner `scan` is validated against Python `re` with the live `_FORMAT_STRING_REGEX` on every string over a "
    "small alphabet up to a length bound (stream regex); its equality with the regex language in general is an assumption",
]

LINT_PCT = {"noSpecs", "combine"}
LINT_FMT = {"unusedIdx", "unusedKw"}
MISS_CLASSES = ["parenKey", "nonStrKey", "bytesMapping", "hugeWidthPrec", "fmtAutoManual", "fmtPath", "fmtSpec"]
FP_CLASSES = ["cRangeStr", "dotNoDigits", "emptyKey", "parenKey", "pctOnlyMapping", "bytesMapping"]
TYPE_CLASSES = []  # the crash class (Any[error]) was repaired in /repo cf8a3b3; a wrong type is always new

# ---------------------------------------------------------------- translate: cache scan of the live source
CACHE_DECORATORS = ("lru_cache", "cache", "cached_property", "memoize", "memoized", "cached")
_MUTABLE_CALLS = ("dict", "list", "set", "defaultdict", "OrderedDict", "Counter", "deque", "WeakKeyDictionary",
                  "WeakValueDictionary")


def _dotted(node):
    import ast
    if isinstance(node, ast.Call):
        node = node.func
    parts = []
    while isinstance(node, ast.Attribute):
        parts.append(node.attr)
        node = node.value
    if isinstance(node, ast.Name):
        parts.append(node.id)
    return ".".join(reversed(parts))


def scan_caches(repo):
    """What could carry state from one `%`/`.format` check to the next, read off the live source:
    (caches)   functions/methods of format_strings.py (and `_str_format_impl`) decorated with a caching decorator;
    (mutables) module-level names of format_strings.py bound to a mutable container;
    (stores)   `self.<attr> = …` / `object.__setattr__(self, …)` / `self.__dict__[…]` inside methods of its classes."""
    import ast
    caches, mutables, stores = [], [], []
    tree = ast.parse(open(os.path.join(repo, "pyanalyze/format_strings.py")).read())

    def walk_defs(node, prefix):
        for ch in ast.iter_child_nodes(node):
            if isinstance(ch, (ast.FunctionDef, ast.AsyncFunctionDef, ast.ClassDef)):
                q = prefix + ch.name
                for d in ch.decorator_list:
                    name = _dotted(d)
                    if name.split(".")[-1] in CACHE_DECORATORS:
                        caches.append("%s@%s" % (name.split(".")[-1], q))
                if isinstance(ch, ast.ClassDef):
                    for fn in ast.walk(ch):
                        if isinstance(fn, (ast.FunctionDef, ast.AsyncFunctionDef)):
                            for st in ast.walk(fn):
                                tgts = []
                                if isinstance(st, ast.Assign):
                                    tgts = st.targets
                                elif isinstance(st, (ast.AugAssign, ast.AnnAssign)):
                                    tgts = [st.target]
                                for t in tgts:
                                    base = t.value if isinstance(t, (ast.Attribute, ast.Subscript)) else None
                                    while isinstance(base, (ast.Attribute, ast.Subscript)):
                                        base = base.value
                                    if isinstance(base, ast.Name) and base.id in ("self", "cls"):
                                        stores.append("%s.%s:%s" % (q, fn.name, ast.unparse(t)))
                                if isinstance(st, ast.Call) and _dotted(st) in ("object.__setattr__", "setattr"):
                                    stores.append("%s.%s:setattr" % (q, fn.name))
                walk_defs(ch, q + ".")

    walk_defs(tree, "")
    for st in tree.body:
        tgts, val = [], None
        if isinstance(st, ast.Assign):
            tgts, val = st.targets, st.value
        elif isinstance(st, ast.AnnAssign) and st.value is not None:
            tgts, val = [st.target], st.value
        if val is None:
            continue
        mutable = isinstance(val, (ast.Dict, ast.List, ast.Set, ast.DictComp, ast.ListComp, ast.SetComp)) or (
            isinstance(val, ast.Call) and _dotted(val).split(".")[-1] in _MUTABLE_CALLS)
        if mutable:
            for t in tgts:
                if isinstance(t, ast.Name):
                    mutables.append(t.id)
    impl = ast.parse(open(os.path.join(repo, "pyanalyze/implementation.py")).read())
    for ch in impl.body:
        if isinstance(ch, ast.FunctionDef) and ch.name == "_str_format_impl":
            for d in ch.decorator_list:
                if _dotted(d).split(".")[-1] in CACHE_DECORATORS:
                    caches.append("%s@implementation._str_format_impl" % _dotted(d).split(".")[-1])
    return sorted(caches), sorted(mutables), sorted(set(stores))


ROUTE_TARGETS = ("check_string_format", "parse_format_string", "from_pattern", "from_bytes_pattern")


def scan_routes(repo):
    """Every way into the format checkers, read off the live source (tests excluded):
    (routes) call sites of check_string_format / parse_format_string / PercentFormatString.from_*pattern
             (`callee<-file:enclosing function`), callers of the function that calls check_string_format
             (one level up), and `impl=_str_format_impl` registrations (`_str_format_impl<-impl@callable`);
    (guards) the `if` conditions under which check_string_format is reached."""
    import ast
    routes, guards = [], []
    for fn in ("name_check_visitor.py", "implementation.py", "format_strings.py"):
        stem = fn[:-3]
        tree = ast.parse(open(os.path.join(repo, "pyanalyze", fn)).read())
        enclosing = []   # functions containing a check_string_format call

        def visit(node, qual, ifs):
            for ch in ast.iter_child_nodes(node):
                q, i2 = qual, ifs
                if isinstance(ch, (ast.FunctionDef, ast.AsyncFunctionDef, ast.ClassDef)):
                    q, i2 = (qual + "." if qual else "") + ch.name, []
                elif isinstance(ch, ast.If):
                    # children of the body are under the test
                    for sub in ch.body:
                        visit_stmt(sub, qual, ifs + [ast.unparse(ch.test)])
                    for sub in ch.orelse:
                        visit_stmt(sub, qual, ifs + ["not (%s)" % ast.unparse(ch.test)])
                    visit_expr(ch.test, qual, ifs)
                    continue
                visit_expr_node(ch, q, i2)
                visit(ch, q, i2)

        def visit_stmt(node, qual, ifs):
            visit_expr_node(node, qual, ifs)
            if isinstance(node, ast.If):
                for sub in node.body:
                    visit_stmt(sub, qual, ifs + [ast.unparse(node.test)])
                for sub in node.orelse:
                    visit_stmt(sub, qual, ifs + ["not (%s)" % ast.unparse(node.test)])
                visit_expr(node.test, qual, ifs)
            else:
                visit(node, qual, ifs)

        def visit_expr(node, qual, ifs):
            visit_expr_node(node, qual, ifs)
            visit(node, qual, ifs)

        def visit_expr_node(ch, qual, ifs):
            if isinstance(ch, ast.Call):
                name = _dotted(ch)
                last = name.split(".")[-1]
                if last in ROUTE_TARGETS:
                    routes.append("%s<-%s:%s" % (last, stem, qual or "<module>"))
                    if last == "check_string_format":
                        enclosing.append(qual.split(".")[-1])
                        guards.append("%s:%s: %s" % (stem, qual, " && ".join(ifs) or "True"))
                for kw in ch.keywords:
                    if kw.arg == "impl" and isinstance(kw.value, ast.Name) and kw.value.id == "_str_format_impl":
                        cal = [k for k in ch.keywords if k.arg == "callable"]
                        routes.append("_str_format_impl<-impl@%s" % (ast.unparse(cal[0].value) if cal else "?"))

        visit(tree, "", [])
        # one level up: who calls the function(s) that reach check_string_format
        if enclosing:
            def callers(node, qual):
                for ch in ast.iter_child_nodes(node):
                    q = qual
                    if isinstance(ch, (ast.FunctionDef, ast.AsyncFunctionDef, ast.ClassDef)):
                        q = (qual + "." if qual else "") + ch.name
                    if isinstance(ch, ast.Call) and _dotted(ch).split(".")[-1] in enclosing:
                        routes.append("%s<-%s:%s" % (_dotted(ch).split(".")[-1], stem, qual or "<module>"))
                    callers(ch, q)
            callers(tree, "")
    return sorted(routes), sorted(guards)


def _lean_strs(xs):
    return "[" + ", ".join(json.dumps(x) for x in xs) + "]"


def translate(ctx):
    repo = os.environ.get("VERIF_REPO", "/repo")
    caches, mutables, stores = scan_caches(repo)
    ctx.extra["cache_scan"] = {"caches": caches, "module_mutables": mutables, "self_stores": stores}
    text = (
        "/-! Regenerated on every run by `translate` in harness/props/c17.py from the live\n"
        "`pyanalyze/format_strings.py` (+ the decorators of `implementation._str_format_impl`): everything\n"
        "that could carry state from one `%%` / `str.format` check to the next. DO NOT EDIT. -/\n"
        "namespace Pya.C17\n\n"
        "/-- functions / methods under a caching decorator (`decorator@qualified name`) -/\n"
        "def liveCaches : List String := %s\n\n"
        "/-- module-level names of format_strings.py bound to a mutable container -/\n"
        "def liveModuleMutables : List String := %s\n\n"
        "/-- attribute stores on `self`/`cls` inside methods of its classes (`Class.method:target`) -/\n"
        "def liveSelfStores : List String := %s\n\n"
        "end Pya.C17\n" % (_lean_strs(caches), _lean_strs(mutables), _lean_strs(stores)))
    lean.write_if_changed(os.path.join(lean.LEAN, "PyaModel", "Generated", "FormatCaches.lean"), text)
    routes, guards = scan_routes(repo)
    ctx.extra["route_scan"] = {"routes": routes, "guards": guards}
    text = (
        "/-! Regenerated on every run by `translate` in harness/props/c17.py from the live name_check_visitor.py,\n"
        "implementation.py and format_strings.py: every entry route into the format checkers. DO NOT EDIT. -/\n"
        "namespace Pya.C17\n\n"
        "/-- `callee<-file:enclosing function` for every call site (and the callers one level up);\n"
        "`_str_format_impl<-impl@callable` for every registration of the `str.format` implementation -/\n"
        "def liveRoutes : List String := %s\n\n"
        "/-- the conditions under which `check_string_format` is reached -/\n"
        "def liveRouteGuards : List String := %s\n\n"
        "end Pya.C17\n" % (_lean_strs(routes), _lean_strs(guards)))
    lean.write_if_changed(os.path.join(lean.LEAN, "PyaModel", "Generated", "FormatRoutes.lean"), text)


# ---------------------------------------------------------------- argument universe
def elem_src(tok):
    if tok[0] == "i":
        return tok[1:]
    if tok == "bT":
        return "True"
    if tok == "bF":
        return "False"
    if tok[0] == "s":
        return repr("a" * int(tok[1:]))
    if tok[0] == "y":
        return repr(b"a" * int(tok[1:]))
    return {"f": "1.5", "N": "None", "c": "1j", "L": "[1]", "T": "(1, 2)", "D": "{'a': 1}"}[tok]


def key_src(k):
    if k[0] == "s":
        return repr(k[1])
    if k[0] == "y":
        return repr(k[1].encode("latin-1"))
    return "1"


def key_tok(k):
    if k[0] == "o":
        return "o"
    return k[0] + ".".join(str(ord(c)) for c in k[1])


def arg_src(a):
    if a[0] == "S":
        return elem_src(a[1])
    if a[0] == "T":
        return "(" + "".join(elem_src(e) + ", " for e in a[1]) + ")"
    return "{" + ", ".join("%s: %s" % (key_src(k), elem_src(e)) for k, e in a[1]) + "}"


def arg_tok(a):
    if a[0] == "S":
        return "S " + a[1]
    if a[0] == "T":
        return "T " + " ".join(a[1])
    return "D " + " ".join("%s=%s" % (key_tok(k), e) for k, e in a[1])


def cps(t):
    return ",".join(str(ord(c)) for c in t) if t else "-"


def tmpl_src(t, isb):
    return repr(t.encode("latin-1")) if isb else repr(t)


SCALARS = ["i65", "i0", "i255", "i256", "i300", "i1114111", "i1114112", "i-1", "bT", "bF", "f", "s0", "s1", "s2",
           "y0", "y1", "y2", "N", "c", "L"]
ELEMS = SCALARS + ["T", "D"]
KEYS = [("s", "a"), ("s", "b"), ("s", ""), ("s", "a(b)"), ("y", "a"), ("y", "b"), ("y", ""), ("o",)]
CONVS = "diouxXeEfFgGcrsba"


# ---------------------------------------------------------------- % generators
def rand_directive(rng, mapping):
    s = "%"
    if mapping:
        if rng.random() < 0.92:
            s += "(" + rng.choice(["a", "a", "a", "b", "b", "", "a(b)", "a%s", "(", "a b"]) + ")"
        else:
            s += "(a"
    if rng.random() < 0.25:
        s += "".join(rng.choice("#0- +") for _ in range(rng.randint(1, 3)))
    r = rng.random()
    if r < 0.12:
        s += "*"
    elif r < 0.3:
        s += rng.choice(["5", "10", "0", "007", "5", "9223372036854775808", "99999999999999999999"] if rng.random() < 0.1 else ["5", "10", "0", "007"])
    r = rng.random()
    if r < 0.08:
        s += ".*"
    elif r < 0.2:
        s += "." + (rng.choice(["2147483648", "9999999999"]) if rng.random() < 0.06 else rng.choice(["3", "0", "12"]))
    elif r < 0.23:
        s += "."
    if rng.random() < 0.1:
        s += rng.choice("hlL")
    if rng.random() < 0.02:
        s += rng.choice("hlL")
    r = rng.random()
    if r < 0.9:
        s += rng.choice(CONVS)
    elif r < 0.94:
        s += "%"
    elif r < 0.98:
        s += rng.choice("yzDS(). \n")
    return s


def rand_pct_template(rng, isb):
    mapping = rng.random() < 0.3
    parts = []
    for _ in range(rng.choice([0, 1, 1, 1, 2, 2, 3, 4])):
        if rng.random() < 0.4:
            parts.append(rng.choice(["a", " ", "x=", "%%", "\n", "{", "}", ")", "(", "100%%", "z" if isb else "\xe9"]))
        parts.append(rand_directive(rng, mapping and rng.random() < 0.9))
    if rng.random() < 0.3:
        parts.append(rng.choice(["a", "\n", "%%", " ", "%", "%(", "a\n"]))
    return "".join(parts)


def good_elem(rng, conv, isb):
    if conv in "diueEfFgG":
        return rng.choice(["i65", "i300", "i-1", "bT", "f", "f"])
    if conv in "oxX":
        return rng.choice(["i65", "i0", "bF", "f", "i-1"])
    if conv == "c":
        return rng.choice(["i65", "i255", "i256", "i300", "i1114111", "i1114112", "i-1", "bT", "y1" if isb else "s1",
                           "s1", "y1", "s2", "y2", "s0", "y0"])
    if conv in "sb" and isb:
        return rng.choice(["y0", "y1", "y2", "y1", "s1", "i65", "N"])
    return rng.choice(ELEMS)


_DIR = re.compile(r"%(?:\(([^)]*)\))?[#0\- +]*(\*|\d+)?(?:\.(\*|\d*))?[hlL]?(.)", re.S)


def rand_pct_arg(rng, tmpl, isb):
    ds = list(_DIR.finditer(tmpl.replace("%%", "\0\0")))
    keys = [m.group(1) for m in ds if m.group(1) is not None]
    if keys and rng.random() < 0.85:
        kv, seen = [], set()
        for m in ds:
            k = m.group(1)
            if k in ("a", "b", "", "a(b)") and k not in seen and rng.random() < 0.9:
                seen.add(k)
                key = ("y", k) if (isb and rng.random() < 0.8 and k != "a(b)") else ("s", k)
                kv.append((key, good_elem(rng, m.group(4), isb) if rng.random() < 0.85 else rng.choice(ELEMS)))
        if rng.random() < 0.2:
            extra = rng.choice(KEYS)
            if extra not in [k for k, _ in kv]:
                kv.append((extra, rng.choice(ELEMS)))
        rng.shuffle(kv)
        return ("D", tuple(kv))
    need = []
    for m in ds:
        if m.group(2) == "*":
            need.append("*")
        if m.group(3) == "*":
            need.append("*")
        need.append(m.group(4))
    elems = []
    for c in need:
        if c == "*":
            elems.append(rng.choice(["i65", "i0", "i-1", "bT"]) if rng.random() < 0.9 else rng.choice(ELEMS))
        else:
            elems.append(good_elem(rng, c, isb) if rng.random() < 0.85 else rng.choice(ELEMS))
    r = rng.random()
    if r < 0.1 and elems:
        elems.pop()
    elif r < 0.2:
        elems.append(rng.choice(ELEMS))
    r = rng.random()
    if len(elems) == 1 and r < 0.5 and elems[0] not in ("T", "D"):
        return ("S", elems[0])
    if r < 0.05:
        return ("S", rng.choice(SCALARS))
    if r < 0.1:
        return ("D", tuple((k, rng.choice(ELEMS)) for k in rng.sample(KEYS, rng.randint(0, 2))))
    return ("T", tuple(elems))


PCT_ALPHA = ["%", "(", ")", "a", "d", "c", "s", "x", ".", "*", "5", "b"]
PCT_FIXED_ARGS = [("T", ()), ("T", ("i65",)), ("T", ("f",)), ("T", ("s1",)), ("S", "i300"), ("S", "s2"), ("S", "y1"),
                  ("D", ()), ("D", ((("s", "a"), "i65"),)), ("T", ("i65", "i65")), ("S", "L"), ("D", ((("y", "a"), "y1"),))]


def pct_exhaustive(maxlen):
    out = []
    for n in range(maxlen + 1):
        for tup in itertools.product(PCT_ALPHA, repeat=n):
            out.append("".join(tup))
    return out


# ---------------------------------------------------------------- str.format generators
FVALS = {"i": "5", "s": "'ab'", "f": "1.5", "N": "None", "t": "(1, 2)", "d": "{'a': 1}"}


def rand_field(rng, depth=0):
    s = "{"
    r = rng.random()
    if r < 0.4:
        pass
    elif r < 0.65:
        s += rng.choice(["0", "1", "2", "3", "00", "10"])
    elif r < 0.9:
        s += rng.choice(["a", "b", "a", "x1", "_"])
    else:
        s += rng.choice(["-1", "a b", "1a", " ", "0 ", "a-b", "+1", "a]", "0]"])
    for _ in range(rng.choice([0, 0, 0, 0, 0, 1, 1, 2])):
        r = rng.random()
        if r < 0.4:
            s += "." + rng.choice(["real", "imag", "foo", "", "1", "a b", "__class__", "x\n"])
        elif r < 0.9:
            s += "[" + rng.choice(["0", "1", "a", "", "-1", "a", "x.y", "{", "}", "!"]) + "]"
        else:
            s += rng.choice(["[0", ".", "]x", "[0]x"])
    if rng.random() < 0.2:
        s += "!" + rng.choice(["r", "s", "a", "r", "s", "x", "", "rr", "}"])
    if rng.random() < 0.3:
        s += ":"
        r = rng.random()
        if r < 0.5:
            s += rng.choice([">5", "<3", "d", "x", "s", "", "5", ".2f", "^", "05", "zz", "!r", "[", ".", "}}", "{{"])
        elif r < 0.9 and depth < 3:
            s += rng.choice(["", ">", "0"]) + rand_field(rng, depth + 1) + rng.choice(["", "d", ""])
        else:
            s += rng.choice(["{", "}", "{{}", "a{"])
    if rng.random() < 0.95:
        s += "}"
    return s


def rand_fmt_template(rng):
    parts = []
    for _ in range(rng.choice([0, 1, 1, 1, 2, 2, 3, 4])):
        if rng.random() < 0.4:
            parts.append(rng.choice(["a", " ", "{{", "}}", "}", "{", "\n", "%s", "{{}}", "}}{{", "x="]))
        parts.append(rand_field(rng))
    if rng.random() < 0.2:
        parts.append(rng.choice(["a", "{", "}", "{{", "}}", "{0", "{!"]))
    return "".join(parts)


def rand_fmt_args(rng, t):
    n_auto = len(re.findall(r"\{[!:}.\[]", t))
    idx = [int(x) for x in re.findall(r"\{(\d+)[!:}.\[]", t)]
    names = re.findall(r"\{([A-Za-z_]\w*)[!:}.\[]", t)
    n = max([n_auto] + [i + 1 for i in idx if i < 6] + [0])
    r = rng.random()
    if r < 0.15 and n:
        n -= 1
    elif r < 0.25:
        n += 1
    pos = [rng.choice("iiiiisfNtd") for _ in range(min(n, 6))]
    kw = []
    for nm in dict.fromkeys(names):
        if rng.random() < 0.85:
            kw.append((nm, rng.choice("iiiiisfNtd")))
    if rng.random() < 0.1:
        kw.append(("zz", "i"))
    return tuple(pos), tuple(kw)


FMT_ALPHA = ["{", "}", "0", "1", "a", "!", "r", ":", ".", "[", "]"]
FMT_FIXED_ARGS = [((), ()), (("i",), ()), (("i", "i"), ()), (("i",), (("a", "i"),))]


def fmt_exhaustive(maxlen):
    out = []
    for n in range(maxlen + 1):
        for tup in itertools.product(FMT_ALPHA, repeat=n):
            out.append("".join(tup))
    return out


def fmt_call_src(t, pos, kw):
    return "%r.format(%s)" % (t, ", ".join([FVALS[p] for p in pos] + ["%s=%s" % (k, FVALS[v]) for k, v in kw]))


# ---------------------------------------------------------------- message kinds
_PCT_KINDS = [
    (re.compile(r"using % combined"), "pctOpts"), (re.compile(r"the %b conversion"), "bOnStr"),
    (re.compile(r"cannot combine"), "combine"), (re.compile(r"invalid conversion specifier in"), "badSpec"),
    (re.compile(r"use of % on string"), "noSpecs"), (re.compile(r"% string requires a mapping"), "needMapping"),
    (re.compile(r"No value specified for keys"), "missingKeys"), (re.compile(r"too few arguments"), "tooFew"),
    (re.compile(r"too many arguments"), "tooMany"), (re.compile(r"%. conversion specifier accepts numbers"), "numeric"),
    (re.compile(r"%. conversion specifier accepts integers"), "intOnly"),
    (re.compile(r"%c requires an integer in range"), "cRange"), (re.compile(r"%c requires a single character"), "cLen"),
    (re.compile(r"%c requires an integer or character"), "cType"), (re.compile(r"%. accepts only bytes"), "bytesOnly"),
    (re.compile(r"'\*' special specifier"), "starInt"), (re.compile(r"%% does not accept"), "pctArg"),
]
_FMT_KINDS = [
    (re.compile(r"expected '}' before end"), "parse:eofBrace"), (re.compile(r"expected ']' before end"), "parse:eofBracket"),
    (re.compile(r"single '}' encountered"), "parse:single"), (re.compile(r"expected one of"), "parse:expectedOne"),
    (re.compile(r"invalid attribute"), "parse:badAttr"), (re.compile(r"Unknown conversion specifier"), "parse:badConv"),
    (re.compile(r"unexpected '{' in field name"), "parse:braceInName"), (re.compile(r"Too few arguments to format"), "tooFew"),
    (re.compile(r"Numbered argument\(s\)"), "unusedIdx"), (re.compile(r"Named argument\(s\)"), "unusedKw"),
    (re.compile(r"Numbered argument "), "outOfRange"), (re.compile(r"Named argument "), "notGiven"),
]


def kind_of(msg, table):
    for rx, k in table:
        if rx.match(msg):
            return k
    return "?" + msg[:40]


# ---------------------------------------------------------------- implementation streams
def e2e_lines(exprs):
    """reveal_type(<expr>) one per line in a function body; returns per expr
    (kinds-of-interest in emission order, internal_error?, revealed type, other codes)."""
    res = []
    B = 1000
    for b0 in range(0, len(exprs), B):
        batch = exprs[b0:b0 + B]
        src = "def f(c: bool, e: bool):\n" + "".join("    reveal_type(%s)\n" % e for e in batch)
        fails, _, _ = pya.check_source(src)
        by = {}
        for f in fails:
            by.setdefault(f["lineno"], []).append(f)
        for i in range(len(batch)):
            msgs, crash, ty, other = [], False, None, []
            for f in by.get(i + 2, []):
                c = f["code"]
                if c in ("bad_format_string", "incompatible_call"):
                    msgs.append(f["message"])
                elif c == "internal_error":
                    crash = True
                elif c == "reveal_type":
                    m = re.match(r"Revealed type is '(.*)'", f["message"])
                    ty = m.group(1) if m else f["message"]
                else:
                    other.append(c)
            res.append((msgs, crash, ty, other))
    return res


_checker = None


def checker():
    global _checker
    if _checker is None:
        _checker = pya.make_checker()
    return _checker


def pct_unit(t, isb, argval):
    from pyanalyze import format_strings as F
    from pyanalyze.value import KnownValue
    try:
        fs = F.PercentFormatString.from_bytes_pattern(t.encode("latin-1")) if isb else F.PercentFormatString.from_pattern(t)
        out = [kind_of(m, _PCT_KINDS) for m in fs.lint()]
    except Exception as e:
        return ["EXC:%s" % type(e).__name__], True
    crash = False
    try:
        for m in fs.accept(KnownValue(argval), checker()):
            out.append(kind_of(m, _PCT_KINDS))
    except Exception:
        crash = True
    return out, crash


class _RecVisitor:
    in_union_decomposition = False

    def __init__(self):
        self.out = []

    def show_error(self, node, message, error_code=None, detail=None):
        self.out.append(message)


def fmt_unit(t, posvals, kwvals):
    from pyanalyze import format_strings as F
    from pyanalyze.implementation import _str_format_impl
    from pyanalyze.signature import CallContext
    from pyanalyze.value import KnownValue
    try:
        parsed, errors = F.parse_format_string(t)
    except Exception as e:
        return "EXC:%s" % type(e).__name__, None, ["EXC"]
    perr = kind_of(errors[0][1], _FMT_KINDS)[6:] if errors else "-"
    fields = []

    def walk(children, depth):
        for ch in children:
            if isinstance(ch, F.ReplacementField):
                nm = ch.arg_name
                n = "A" if nm is None else ("I%d" % nm if isinstance(nm, int) else "N" + ".".join(str(ord(c)) for c in nm))
                has = 1 if (ch.format_spec is not None and ch.format_spec.children) else 0
                fields.append("%s/%d/%s/%d/%d" % (n, len(ch.index_attribute), "n" if ch.conversion is None else ord(ch.conversion), has, depth))
                if ch.format_spec:
                    walk(ch.format_spec.children, depth + 1)

    walk(parsed.children, 0)
    flat = list(parsed.iter_replacement_fields())
    if len(flat) != len(fields):
        fields.append("ITER-MISMATCH")
    v = _RecVisitor()
    ctx = CallContext(vars={"self": KnownValue(t), "args": KnownValue(tuple(posvals)), "kwargs": KnownValue(dict(kwvals))},
                      visitor=v, composites={}, node=None, sig=None, inferred_return_value=None)
    try:
        _str_format_impl(ctx)
        msgs = [kind_of(m, _FMT_KINDS) for m in v.out]
    except Exception as e:
        msgs = ["EXC:%s" % type(e).__name__]
    return perr, ";".join(fields) if fields else "-", msgs


def regex_tokens(t, isb):
    """The live regex, reduced to the scanner's token stream."""
    from pyanalyze import format_strings as F
    if isb:
        ms = list(F._FORMAT_STRING_REGEX_BYTES.finditer(t.encode("latin-1")))
        dec = lambda x: None if x is None else x.decode("latin-1")
    else:
        ms = list(F._FORMAT_STRING_REGEX_TEXT.finditer(t))
        dec = lambda x: x
    toks = []
    for m in ms:
        pre = dec(m.group("pre_match"))
        if "%" in pre and (not toks or toks[-1] != "bad"):
            toks.append("bad")
        elif "%" in pre:
            pass
        ct = dec(m.group("conversion_type"))
        if ct is not None:
            k = dec(m.group("mapping_key"))
            w = dec(m.group("field_width"))
            p = dec(m.group("precision"))
            toks.append("%d:%s:%d:%s:%s:%d" % (
                ord(ct), "n" if k is None else "k" + ".".join(str(ord(c)) for c in k[1:-1]),
                0 if m.group("conversion_flags") is None else 1,
                "n" if w is None else ("*" if w == "*" else str(int(w))),
                "n" if p is None else ("*" if p[1:] == "*" else str(int(p[1:]))),
                0 if m.group("length_modifier") is None else 1))
    return toks


def collapse_bad(model_line):
    """The scanner emits one `bad` per failed `%`; the regex view only shows which pieces contain one."""
    out = []
    for tk in ([] if model_line == "-" else model_line.split(";")):
        if tk == "bad" and out and out[-1] == "bad":
            continue
        out.append(tk)
    return out


def real_eval(expr):
    import warnings
    try:
        with warnings.catch_warnings():
            warnings.simplefilter("ignore")
            r = eval(expr, {})
        return "ok:" + type(r).__name__
    except Exception as e:
        return "raises:" + type(e).__name__


# ---------------------------------------------------------------- evaluation
def parse_model(line):
    return dict(x.split("=", 1) for x in line.split(" ") if "=" in x)


def pick(dset, order):
    for c in order:
        if c in dset:
            return c
    return None


def eval_pct(ctx, cases, e2e_idx, with_model=True):
    """cases: list of (isb, template, arg). e2e_idx: set of indices also run end to end."""
    model = lean.run_driver("C17", ["P %s %s | %s" % ("b" if b else "s", cps(t), arg_tok(a)) for b, t, a in cases]) if with_model else None
    e2e_list = sorted(e2e_idx)
    exprs = {i: "%s %% %s" % (tmpl_src(cases[i][1], cases[i][0]), arg_src(cases[i][2])) for i in range(len(cases))}
    e2e = dict(zip(e2e_list, e2e_lines([exprs[i] for i in e2e_list])))
    for i, (isb, t, a) in enumerate(cases):
        expr = exprs[i]
        case = {"k": "pct", "b": isb, "t": t, "a": a, "expr": expr}
        real = real_eval(expr)
        argval = eval(arg_src(a), {})
        ukinds, ucrash = pct_unit(t, isb, argval)
        ctx.count(1, pct=1, **{"pct_bytes" if isb else "pct_str": 1, "arg_" + a[0]: 1, "real_" + real.split(":")[0]: 1})
        if "%" in t.replace("%%", ""):
            ctx.nontriv("P" + expr)
        m = parse_model(model[i]) if model is not None else None
        conforms = True
        dset = set()
        if m is not None:
            if "errs" not in m:
                ctx.disagree("unit", case, "driver: " + model[i], "bad-op")
                continue
            merrs = [] if m["errs"] == "-" else m["errs"].split(",")
            mcrash = False  # the model has no crashing path any more (cf8a3b3)
            dset = set() if m["D"] == "-" else set(m["D"].split(","))
            for d in dset:
                ctx.tag("D_" + d)
            ctx.corr("unit")
            if (ukinds, ucrash) != (merrs, mcrash):
                conforms = False
                ctx.disagree("unit", case, {"errs": ukinds, "crash": ucrash}, {"errs": merrs, "crash": mcrash})
            ctx.corr("spec")
            mreal = {"raises": "raises", "ok:str": "ok:str", "ok:bytes": "ok:bytes"}[m["cpy"]]
            if real.split(":")[0] == "raises":
                if mreal != "raises":
                    ctx.disagree("spec", case, real, m["cpy"])
            elif mreal != real:
                ctx.disagree("spec", case, real, m["cpy"])
        # the implementation's verdict: unit gives every message; e2e what a user sees
        reports = bool(ukinds) or ucrash
        nonlint = ucrash or any(k not in LINT_PCT for k in ukinds)
        ity = "Any[error]" if ucrash else ("bytes" if isb else "str")
        if i in e2e:
            msgs, ecrash, ety, other = e2e[i]
            ek = [kind_of(x, _PCT_KINDS) for x in msgs]
            if other:
                ctx.extra.setdefault("other_codes", {})
                for c in other:
                    ctx.extra["other_codes"][c] = ctx.extra["other_codes"].get(c, 0) + 1
            if m is not None:
                ctx.corr("e2e")
                exp = (merrs[:1], mcrash, m["ty"])
                if (ek, ecrash, ety) != exp:
                    conforms = False
                    ctx.disagree("e2e", case, {"first": ek, "crash": ecrash, "type": ety}, {"first": exp[0], "crash": exp[1], "type": exp[2]})
            # e2e and unit must tell the same story
            if (ek, ecrash) != (ukinds[:1], ucrash):
                conforms = False
                ctx.disagree("e2e-unit", case, {"first": ek, "crash": ecrash}, {"first": ukinds[:1], "crash": ucrash})
            ity = ety
        if i % 1499 == 0:
            ctx.sample({"expr": expr, "cpython": real, "pyanalyze": ukinds, "crash": ucrash, "model": model[i] if model else None})
        if real.startswith("raises") and not reports:
            ctx.candidate(case, "CPython raises %s but pyanalyze reports nothing" % real[7:], cls=pick(dset, MISS_CLASSES),
                          conforms=conforms, stream="pct")
        if real.startswith("ok"):
            if nonlint:
                ctx.candidate(case, "CPython formats successfully but pyanalyze reports %s%s" % (
                    [k for k in ukinds if k not in LINT_PCT], " and crashes (internal_error)" if ucrash else ""),
                    cls=pick(dset, FP_CLASSES), conforms=conforms, stream="pct")
            if ity != real[3:]:
                ctx.candidate(case, "result is %s but the inferred type is %s" % (real[3:], ity),
                              cls=pick(dset, TYPE_CLASSES), conforms=conforms, stream="pct")


def eval_fmt(ctx, cases, e2e_idx, with_model=True):
    """cases: list of (template, pos value tokens, ((kwname, value token), …))."""
    model = lean.run_driver("C17", ["F %s | %d %s" % (cps(t), len(pos), " ".join(".".join(str(ord(c)) for c in k) for k, _ in kw))
                                    for t, pos, kw in cases]) if with_model else None
    exprs = [fmt_call_src(t, pos, kw) for t, pos, kw in cases]
    e2e_list = sorted(e2e_idx)
    e2e = dict(zip(e2e_list, e2e_lines([exprs[i] for i in e2e_list])))
    for i, (t, pos, kw) in enumerate(cases):
        expr = exprs[i]
        case = {"k": "fmt", "t": t, "pos": pos, "kw": kw, "expr": expr}
        real = real_eval(expr)
        perr, fields, umsgs = fmt_unit(t, [eval(FVALS[p]) for p in pos], [(k, eval(FVALS[v])) for k, v in kw])
        ctx.count(1, fmt=1, **{"real_" + real.split(":")[0]: 1})
        if "{" in t.replace("{{", ""):
            ctx.nontriv("F" + expr)
        m = parse_model(model[i]) if model is not None else None
        conforms = True
        dset = set()
        if m is not None:
            if "msgs" not in m:
                ctx.disagree("unit", case, "driver: " + model[i], "bad-op")
                continue
            mmsgs = [] if m["msgs"] == "-" else m["msgs"].split(",")
            dset = set() if m["D"] == "-" else set(m["D"].split(","))
            for d in dset:
                ctx.tag("D_" + d)
            ctx.corr("unit")
            if umsgs != mmsgs or perr != m["perr"] or (perr == "-" and fields != m["fields"]):
                conforms = False
                ctx.disagree("unit", case, {"msgs": umsgs, "perr": perr, "fields": fields},
                             {"msgs": mmsgs, "perr": m["perr"], "fields": m["fields"]})
            ctx.corr("spec")
            value_level = any(c in t for c in ":.[")
            if m["cpy"] == "0" and not real.startswith("raises"):
                ctx.disagree("spec", case, real, "cpyFormat raises")
            elif m["cpy"] == "1" and real.startswith("raises") and not value_level:
                ctx.disagree("spec", case, real, "cpyFormat ok")
        reports = bool(umsgs)
        nonlint = any(k not in LINT_FMT for k in umsgs)
        ity = "str"
        if i in e2e:
            msgs, ecrash, ety, other = e2e[i]
            ek = [kind_of(x, _FMT_KINDS) for x in msgs]
            if other:
                ctx.extra.setdefault("other_codes", {})
                for c in other:
                    ctx.extra["other_codes"][c] = ctx.extra["other_codes"].get(c, 0) + 1
            if m is not None:
                ctx.corr("e2e")
                if (ek, ecrash, ety) != (mmsgs[:1], False, "str"):
                    conforms = False
                    ctx.disagree("e2e", case, {"first": ek, "crash": ecrash, "type": ety}, {"first": mmsgs[:1], "crash": False, "type": "str"})
            if (ek, ecrash) != (umsgs[:1], False):
                conforms = False
                ctx.disagree("e2e-unit", case, {"first": ek, "crash": ecrash}, {"first": umsgs[:1]})
            ity = ety
        if i % 1499 == 0:
            ctx.sample({"expr": expr, "cpython": real, "pyanalyze": umsgs, "model": model[i] if model else None})
        if real.startswith("raises") and not reports:
            ctx.candidate(case, "CPython raises %s but pyanalyze reports nothing" % real[7:], cls=pick(dset, MISS_CLASSES),
                          conforms=conforms, stream="fmt")
        if real.startswith("ok"):
            if nonlint:
                ctx.candidate(case, "CPython formats successfully but pyanalyze reports %s" % [k for k in umsgs if k not in LINT_FMT],
                              cls=None, conforms=conforms, stream="fmt")
            if ity != real[3:]:
                ctx.candidate(case, "result is %s but the inferred type is %s" % (real[3:], ity), cls=None, conforms=conforms, stream="fmt")


def eval_regex(ctx, strings, with_model=True):
    if not with_model:
        return
    model = lean.run_driver("C17", ["R " + cps(s) for s in strings])
    for s, ml in zip(strings, model):
        ctx.corr("regex")
        impl = regex_tokens(s, False)
        mod = collapse_bad(ml)
        if impl != mod:
            ctx.disagree("regex", {"k": "regex", "t": s}, impl, mod)
        elif all(ord(c) < 128 for c in s):
            implb = regex_tokens(s, True)
            if implb != mod:
                ctx.disagree("regex", {"k": "regex", "t": s, "bytes": True}, implb, mod)
    ctx.count(len(strings), regex=len(strings))


# ---------------------------------------------------------------- programs: several occurrences, one process
# An occurrence is (isb, template, members): members = tuple of args; one member = a plain literal operand, several =
# a union-typed operand (`A if c else B if e else C`). A program is a list of occurrences checked in ONE module, through
# the visitor route (`template % operand` expressions in checked source).
PROG_TEMPLATES = ["%(n)s", "%(n)05d:%(s)-4s|", "%(a)s %(b)d", "%(a)s%(a)r", "%(n)x", "%(n)c", "%(n)s %%", "%d %s", "%s",
                  "%*d", "%c|%5.2f", "%%", "abc", "%d%%", "%(n)s %s", "%(a)b"]
PROG_EXTRA_KEYS = ["size", "pad", "n", "s", "a", "b", "zz"]


def occ_expr(occ):
    isb, t, members = occ
    srcs = [arg_src(a) for a in members]
    if len(srcs) == 1:
        operand = srcs[0]
    elif len(srcs) == 2:
        operand = "(%s if c else %s)" % tuple(srcs)
    else:
        operand = "(%s if c else %s if e else %s)" % tuple(srcs[:3])
    return "%s %% %s" % (tmpl_src(t, isb), operand)


def occ_line(occ):
    isb, t, members = occ
    return "P %s %s | %s" % ("b" if isb else "s", cps(t), " / ".join(arg_tok(a) for a in members))


def occ_json(occ):
    return [occ[0], occ[1], [list(a) if a[0] == "S" else [a[0], [list(x) if isinstance(x, tuple) else x for x in a[1]]]
                             for a in occ[2]]]


def occ_from_json(o):
    def arg(a):
        if a[0] == "S":
            return ("S", a[1])
        if a[0] == "T":
            return ("T", tuple(a[1]))
        return ("D", tuple((tuple(k), e) for k, e in a[1]))
    return (bool(o[0]), o[1], tuple(arg(a) for a in o[2]))


def _directives(tmpl):
    return list(_DIR.finditer(tmpl.replace("%%", "\0\0")))


def prog_arg(rng, tmpl, isb, variant=None):
    """One operand for the template: exact / superset / missing keys, right / short / long tuples, bad values."""
    ds = _directives(tmpl)
    keys = list(dict.fromkeys(m.group(1) for m in ds if m.group(1) is not None))
    variant = variant or rng.choice(["exact", "exact", "superset", "superset", "missing", "bad", "other"])
    if keys:
        kv = []
        for k in keys:
            conv = [m.group(4) for m in ds if m.group(1) == k][0]
            kv.append(((("y" if isb else "s"), k), good_elem(rng, conv, isb) if variant != "bad" or rng.random() < 0.5
                       else rng.choice(ELEMS)))
        if variant == "superset":
            for x in rng.sample(PROG_EXTRA_KEYS, rng.randint(1, 2)):
                if x not in keys:
                    kv.append((("s", x), rng.choice(["i65", "s1", "f", "N"])))
        elif variant == "missing" and kv:
            kv.pop(rng.randrange(len(kv)))
        elif variant == "other":
            return rng.choice([("S", "i65"), ("T", ("i65",)), ("D", ()), ("S", "L")])
        rng.shuffle(kv)
        return ("D", tuple(kv))
    need = []
    for m in ds:
        need += ["*"] * ((m.group(2) == "*") + (m.group(3) == "*")) + [m.group(4)]
    elems = [rng.choice(["i65", "i0", "bT"]) if c == "*" else (good_elem(rng, c, isb) if variant != "bad" else rng.choice(ELEMS))
             for c in need]
    if variant == "missing" and elems:
        elems.pop()
    elif variant == "superset":
        elems.append(rng.choice(ELEMS))
    elif variant == "other":
        return rng.choice([("D", ((("s", "n"), "i65"),)), ("D", ()), ("S", "s2"), ("T", ())])
    if len(elems) == 1 and elems[0] not in ("T", "D") and rng.random() < 0.5:
        return ("S", elems[0])
    return ("T", tuple(elems))


def _distinct_members(members):
    vals = []
    for a in members:
        v = eval(arg_src(a), {})
        if any(type(v) is type(w) and v == w for w in vals):
            return False
        vals.append(v)
    return True


def rand_program(rng):
    pool = [(False, t) for t in rng.sample(PROG_TEMPLATES, rng.randint(1, 3))]
    if rng.random() < 0.3:
        isb = rng.random() < 0.4
        pool.append((isb, rand_pct_template(rng, isb)))
    if rng.random() < 0.2:
        pool.append((True, rng.choice(["%(n)s", "%d %s", "%b", "%(a)s %(b)d"])))
    prog = []
    for _ in range(rng.randint(2, 7)):
        isb, t = rng.choice(pool)
        n = 1 if rng.random() < 0.75 else rng.choice([2, 2, 3])
        members = tuple(prog_arg(rng, t, isb) for _ in range(n))
        if n > 1 and not _distinct_members(members):
            members = members[:1]
        prog.append((isb, t, members))
    return prog


def _subsets_dict(keys, value_of):
    out = []
    for r in range(len(keys) + 1):
        for ks in itertools.combinations(keys, r):
            out.append(("D", tuple((("s", k), value_of(k)) for k in ks)))
    return out


def exhaustive_programs(big):
    """The same template with every ordered pair / triple of argument dicts over a small key set, and
    tuples of every length in every order."""
    progs = []
    d1 = _subsets_dict(["a", "b", "c"], lambda k: "i65")
    for t in ("%(a)s", "%(a)d %(b)s"):
        for x in d1:
            for y in d1:
                progs.append([(False, t, (x,)), (False, t, (y,))])
    tri = d1 if big else d1[:5]
    for t in (("%(a)s", "%(a)d %(b)s") if big else ("%(a)s",)):
        for x in tri:
            for y in tri:
                for z in tri:
                    progs.append([(False, t, (x,)), (False, t, (y,)), (False, t, (z,))])
    tups = [("T", ("i65",) * n) for n in range(4)] + [("S", "i65")]
    for x in tups:
        for y in tups:
            progs.append([(False, "%d %s", (x,)), (False, "%d %s", (y,))])
            if x != y:
                progs.append([(False, "%d %s", (x, y))])
    for x in d1:
        for y in d1:
            if x != y:
                progs.append([(False, "%(a)s", (x, y)), (False, "%(a)s", (y,))])
    return progs


def e2e_programs(progs):
    """Check programs through the visitor, many programs per module (each program its own function).
    Returns one (msgs, crash, type, other) per occurrence, flattened in order."""
    res = []
    batch, nlines = [], 0
    batches = []
    for pr in progs:
        if nlines + len(pr) + 1 > 400 and batch:
            batches.append(batch)
            batch, nlines = [], 0
        batch.append(pr)
        nlines += len(pr) + 1
    if batch:
        batches.append(batch)
    for batch in batches:
        lines, where = [], []
        for j, pr in enumerate(batch):
            lines.append("def p%d(c: bool, e: bool):" % j)
            for occ in pr:
                lines.append("    reveal_type(%s)" % occ_expr(occ))
                where.append(len(lines))
        fails, _, _ = pya.check_source("\n".join(lines) + "\n")
        by = {}
        for f in fails:
            by.setdefault(f["lineno"], []).append(f)
        for ln in where:
            res.append(_collect(by.get(ln, [])))
    return res


def _collect(fs):
    msgs, crash, ty, other = [], False, None, []
    for f in fs:
        c = f["code"]
        if c in ("bad_format_string", "incompatible_call"):
            msgs.append(f["message"])
        elif c == "internal_error":
            crash = True
        elif c == "reveal_type":
            m = re.match(r"Revealed type is '(.*)'", f["message"])
            ty = m.group(1) if m else f["message"]
        else:
            other.append(c)
    return (msgs, crash, ty, other)


_FRESH_WORKER = (
    "import sys, json; sys.path.insert(0, %r); from harness.props import c17; "
    "progs = [[c17.occ_from_json(o) for o in pr] for pr in json.load(sys.stdin)]; "
    "print('RESULT' + json.dumps([[list(r[:3]) for r in c17.e2e_programs([pr])] for pr in progs]))"
)


def fresh_verdicts(jobs, par=8):
    """Each job (a list of programs) is checked in its own fresh interpreter. Returns per job, per program,
    the per-occurrence (msgs, crash, type)."""
    import subprocess, sys
    out = [None] * len(jobs)
    running = []
    todo = list(enumerate(jobs))

    def finish(i, p):
        so, se = p.communicate()
        for l in so.split("\n"):
            if l.startswith("RESULT"):
                out[i] = json.loads(l[6:])
                return
        out[i] = "fresh worker failed: " + (se or so)[-300:]

    while todo or running:
        while todo and len(running) < par:
            i, job = todo.pop(0)
            p = subprocess.Popen([sys.executable, "-c", _FRESH_WORKER % lean.HERE], stdin=subprocess.PIPE,
                                 stdout=subprocess.PIPE, stderr=subprocess.PIPE, text=True, cwd=lean.HERE)
            p.stdin.write(json.dumps([[occ_json(o) for o in pr] for pr in job]))
            p.stdin.close()
            p.stdin = None
            running.append((i, p))
        i, p = running.pop(0)
        finish(i, p)
    return out


_HISTORY = {}  # (isb, template) -> occurrences already checked through the visitor in this process


def _verdict(r):
    msgs, crash, ty = r[0], r[1], r[2]
    return ([kind_of(x, _PCT_KINDS) for x in msgs][:1], bool(crash), ty)


def eval_prog(ctx, progs, with_model=True, n_fresh_occ=0, n_fresh_prog=0):
    flat = [occ for pr in progs for occ in pr]
    if not flat:
        return
    model = lean.run_driver("C17", [occ_line(o) for o in flat]) if with_model else None
    runA = e2e_programs(progs)
    runB = e2e_programs(progs)          # the whole stream once more in the same process
    # fresh-process baselines: single occurrences alone, and whole programs
    rng = ctx.rng
    idx_of = []
    for pi, pr in enumerate(progs):
        for oi in range(len(pr)):
            idx_of.append((pi, oi))
    occ_sample = sorted(rng.sample(range(len(flat)), min(n_fresh_occ, len(flat))))
    prog_sample = sorted(rng.sample(range(len(progs)), min(n_fresh_prog, len(progs))))
    fresh = fresh_verdicts([[[flat[i]]] for i in occ_sample] + [[progs[i]] for i in prog_sample]) if (occ_sample or prog_sample) else []
    fresh_occ = {}
    for k, i in enumerate(occ_sample):
        r = fresh[k]
        fresh_occ[i] = r if isinstance(r, str) else r[0][0]
    start = {}
    pos = 0
    for pi, pr in enumerate(progs):
        start[pi] = pos
        pos += len(pr)
    for k, pi in enumerate(prog_sample):
        r = fresh[len(occ_sample) + k]
        for oi in range(len(progs[pi])):
            fresh_occ.setdefault(start[pi] + oi, r if isinstance(r, str) else r[0][oi])
    for i, occ in enumerate(flat):
        isb, t, members = occ
        pi, oi = idx_of[i]
        expr = occ_expr(occ)
        hist = _HISTORY.setdefault((isb, t), [])
        case = {"k": "prog", "occs": [occ_json(o) for o in hist] + [occ_json(occ)], "expr": expr,
                "program": [occ_expr(o) for o in progs[pi]], "index_in_program": oi}
        hist.append(occ)
        reals = [real_eval("%s %% %s" % (tmpl_src(t, isb), arg_src(a))) for a in members]
        ctx.count(1, prog_occ=1, **{"prog_union" if len(members) > 1 else "prog_plain": 1,
                                    "prog_reuse" if len(hist) > 1 else "prog_first_use": 1})
        ctx.nontriv("G%d:%s" % (len(hist), expr))
        vA, vB = _verdict(runA[i]), _verdict(runB[i])
        conforms = True
        dset = set()
        if model is not None:
            m = parse_model(model[i])
            if "errs" not in m:
                ctx.disagree("prog", case, "driver: " + model[i], "bad-op")
                continue
            merrs = [] if m["errs"] == "-" else m["errs"].split(",")
            dset = set() if m["D"] == "-" else set(m["D"].split(","))
            ctx.corr("prog")
            if vA != (merrs[:1], False, m["ty"]):
                conforms = False
                ctx.disagree("prog", case, {"first": vA[0], "crash": vA[1], "type": vA[2]},
                             {"first": merrs[:1], "crash": False, "type": m["ty"]})
            for a_real, a_cpy in zip(reals, m["cpy"].split(";")):
                ctx.corr("spec")
                if (a_real.split(":")[0] == "raises") != (a_cpy == "raises") or (a_cpy != "raises" and a_cpy != a_real):
                    ctx.disagree("spec", case, a_real, a_cpy)
        ctx.corr("prog-repeat")
        if vB != vA:
            conforms = False
            ctx.disagree("prog-repeat", case, {"second run": vB}, {"first run": vA})
        if i in fresh_occ:
            ctx.corr("prog-fresh")
            fr = fresh_occ[i]
            if isinstance(fr, str) or _verdict(fr) != vA:
                conforms = False
                ctx.disagree("prog-fresh", case, {"in this process": vA}, {"alone in a fresh process": fr if isinstance(fr, str) else _verdict(fr)})
        if i % 499 == 0:
            ctx.sample({"program": case["program"], "occurrence": expr, "cpython": reals, "pyanalyze": vA[0],
                        "model": model[i] if model else None})
        # property: every occurrence, whatever came before it
        raises = any(r.startswith("raises") for r in reals)
        reports = bool(vA[0]) or vA[1]
        nonlint = vA[1] or any(k not in LINT_PCT for k in vA[0])
        if raises and not reports:
            ctx.candidate(_minimal(case, vA), "CPython raises (%s) but pyanalyze reports nothing on this occurrence" % ",".join(reals),
                          cls=pick(dset, MISS_CLASSES), conforms=conforms, stream="prog")
        if not raises:
            if nonlint:
                ctx.candidate(_minimal(case, vA), "CPython formats successfully but pyanalyze reports %s%s on this occurrence (use #%d of "
                              "this template in the process)" % (vA[0], " and crashes" if vA[1] else "", len(hist)),
                              cls=pick(dset, FP_CLASSES), conforms=conforms, stream="prog")
            elif vA[2] != reals[0][3:]:
                ctx.candidate(_minimal(case, vA), "result is %s but the inferred type is %s" % (reals[0][3:], vA[2]),
                              cls=None, conforms=conforms, stream="prog")


_MINIMIZED = [0]


def _minimal(case, verdict):
    """Make the replay self-contained: the failing occurrence preceded by the earlier uses of the same template in
    this process. For the first few candidates try, in fresh processes, whether the occurrence alone / the
    same-template history reproduces the verdict and keep the shortest history that does."""
    if _MINIMIZED[0] >= 4 or len(case["occs"]) == 1:
        return case
    _MINIMIZED[0] += 1
    occs = [occ_from_json(o) for o in case["occs"]]
    trials = [[occs[-1]]] + [[h, occs[-1]] for h in occs[:-1][-6:]] + [occs]
    res = fresh_verdicts([[tr] for tr in trials])
    for tr, r in zip(trials, res):
        if not isinstance(r, str) and _verdict(r[0][-1]) == verdict:
            return dict(case, occs=[occ_json(o) for o in tr], reproduced_in_fresh_process=True)
    return dict(case, reproduced_in_fresh_process=False)


# ---------------------------------------------------------------- routes: the same occurrence through every entry route
# Each route renders an occurrence as a function (plus optional module-level prelude lines) and names the CPython
# statement that is executed for the verdict. `typed`: the snippet contains a reveal_type of the result.
def _operand_src(members):
    srcs = [arg_src(a) for a in members]
    if len(srcs) == 1:
        return srcs[0]
    if len(srcs) == 2:
        return "(%s if c else %s)" % tuple(srcs)
    return "(%s if c else %s if e else %s)" % tuple(srcs[:3])


def _split_lit(t, isb, k):
    return "%s %s" % (tmpl_src(t[:k], isb), tmpl_src(t[k:], isb))


def pct_route_snippet(route, i, occ, rng):
    """-> (prelude lines, parameter list, body lines, typed, cpython statement kind)"""
    isb, t, members = occ
    T, A = tmpl_src(t, isb), _operand_src(members)
    params = "c: bool, e: bool"
    if route == "binop":
        return [], params, ["reveal_type(%s %% %s)" % (T, A)], True
    if route == "augAssign":
        return [], params, ["t = %s" % T, "t %%= %s" % A, "reveal_type(t)"], True
    if route == "localName":
        return [], params, ["t = %s" % T, "reveal_type(t %% %s)" % A], True
    if route == "moduleConst":
        return ["_K%d = %s" % (i, T)], params, ["reveal_type(_K%d %% %s)" % (i, A)], True
    if route == "finalName":
        return ["_F%d: Final = %s" % (i, T)], params, ["reveal_type(_F%d %% %s)" % (i, A)], True
    if route == "literalParam":
        return [], params + ", p: Literal[%s]" % T, ["reveal_type(p %% %s)" % A], True
    if route == "concat":
        k = rng.randint(0, len(t))
        return [], params, ["reveal_type(%s %% %s)" % (_split_lit(t, isb, k), A)], True
    if route == "multiline":
        return [], params, ["reveal_type((%s" % T, "        %% %s))" % A], True
    if route == "inCall":
        return [], params, ["len(%s %% %s)" % (T, A)], False
    if route == "inReturn":
        return [], params, ["return %s %% %s" % (T, A)], False
    if route == "inComprehension":
        return [], params, ["[%s %% %s for _ in (1,)]" % (T, A)], False
    if route == "inIf":
        return [], params, ["if c:", "    %s %% %s" % (T, A)], False
    if route == "inLambda":
        return [], params, ["lambda: %s %% %s" % (T, A)], False
    raise ValueError(route)


PCT_ROUTES = ["binop", "augAssign", "localName", "moduleConst", "finalName", "literalParam", "concat", "multiline",
              "inCall", "inReturn", "inComprehension", "inIf", "inLambda"]
FMT_ROUTES = ["method", "strDotFormat", "localName", "moduleConst", "starNames", "starLiterals"]


def fmt_route_snippet(route, i, case):
    t, pos, kw = case
    T = repr(t)
    plain = ", ".join([FVALS[p] for p in pos] + ["%s=%s" % (k, FVALS[v]) for k, v in kw])
    tup = "(" + "".join(FVALS[p] + ", " for p in pos) + ")"
    dct = "{" + ", ".join("%r: %s" % (k, FVALS[v]) for k, v in kw) + "}"
    if route == "method":
        return [], ["reveal_type(%s.format(%s))" % (T, plain)]
    if route == "strDotFormat":
        return [], ["reveal_type(str.format(%s))" % ", ".join([T] + ([plain] if plain else []))]
    if route == "localName":
        return [], ["t = %s" % T, "reveal_type(t.format(%s))" % plain]
    if route == "moduleConst":
        return ["_K%d = %s" % (i, T)], ["reveal_type(_K%d.format(%s))" % (i, plain)]
    if route == "starNames":
        return [], ["xs = %s" % tup, "d = %s" % dct, "reveal_type(%s.format(*xs, **d))" % T]
    if route == "starLiterals":
        return [], ["reveal_type(%s.format(*%s, **%s))" % (T, tup, dct)]
    raise ValueError(route)


def e2e_snippets(snips):
    """snips: list of (prelude lines, params, body lines). Each snippet becomes its own function; returns per snippet
    the failures on its lines, collected."""
    res = []
    B = 120
    for b0 in range(0, len(snips), B):
        batch = snips[b0:b0 + B]
        lines = ["from typing import Final, Literal"]
        for pre, _, _ in batch:
            lines += pre
        spans = []
        for j, (_, params, body) in enumerate(batch):
            lines.append("def r%d(%s):" % (j, params))
            a = len(lines) + 1
            lines += ["    " + l for l in body]
            spans.append((a, len(lines)))
        fails, _, _ = pya.check_source("\n".join(lines) + "\n")
        for a, b in spans:
            res.append(_collect([f for f in fails if f["lineno"] is not None and a <= f["lineno"] <= b]))
    return res


def cpy_statement(route, occ, rng_k=None):
    """CPython executing the same statement; a union raises if some member does."""
    isb, t, members = occ
    out = []
    for a in members:
        T, A = tmpl_src(t, isb), arg_src(a)
        try:
            import warnings
            with warnings.catch_warnings():
                warnings.simplefilter("ignore")
                if route == "augAssign":
                    ns = {}
                    exec("t = %s\nt %%= %s" % (T, A), ns)
                    r = ns["t"]
                else:
                    r = eval("%s %% %s" % (T, A), {})
            out.append("ok:" + type(r).__name__)
        except Exception as ex:
            out.append("raises:" + type(ex).__name__)
    return out


def eval_routes(ctx, pct_cases, fmt_cases, with_model=True, routes=None, froutes=None):
    """pct_cases: occurrences (isb, t, members); fmt_cases: (t, pos, kw). Every case goes through every route."""
    rng = ctx.rng
    routes = routes or PCT_ROUTES
    froutes = froutes or FMT_ROUTES
    # ---- %
    model = lean.run_driver("C17", [occ_line(o) for o in pct_cases]) if (with_model and pct_cases) else None
    jobs, snips = [], []
    for ci, occ in enumerate(pct_cases):
        for r in routes:
            pre, params, body, typed = pct_route_snippet(r, len(snips), occ, rng)
            jobs.append((ci, r, typed))
            snips.append((pre, params, body))
    got = e2e_snippets(snips)
    for (ci, r, typed), sn, g in zip(jobs, snips, got):
        occ = pct_cases[ci]
        isb, t, members = occ
        case = {"k": "route", "kind": "pct", "route": r, "occ": occ_json(occ), "source": sn[0] + ["def r(%s):" % sn[1]] + ["    " + l for l in sn[2]]}
        v = _verdict(g)
        reals = cpy_statement(r, occ)
        ctx.count(1, route_occ=1, **{"route_" + r: 1})
        ctx.nontriv("R%s:%s" % (r, occ_expr(occ)))
        conforms, dset = True, set()
        if model is not None:
            m = parse_model(model[ci])
            merrs = [] if m["errs"] == "-" else m["errs"].split(",")
            dset = set() if m["D"] == "-" else set(m["D"].split(","))
            ctx.corr("route")
            exp = (merrs[:1], False, m["ty"] if typed else None)
            if (v[0], v[1], v[2] if typed else None) != exp:
                conforms = False
                ctx.disagree("route", case, {"first": v[0], "crash": v[1], "type": v[2]},
                             {"first": merrs[:1], "crash": False, "type": m["ty"], "note": "the model's verdict does not depend on the route"})
        if len(ctx.samples) < 12 and ci % 97 == 0 and r in ("augAssign", "literalParam", "concat"):
            ctx.sample({"route": r, "source": case["source"], "cpython": reals, "pyanalyze": v[0]}, limit=12)
        raises = any(x.startswith("raises") for x in reals)
        reports = bool(v[0]) or v[1]
        nonlint = v[1] or any(k not in LINT_PCT for k in v[0])
        if raises and not reports:
            ctx.candidate(case, "route %s: CPython raises (%s) executing the statement but pyanalyze reports nothing" % (r, ",".join(reals)),
                          cls=pick(dset, MISS_CLASSES), conforms=conforms, stream="route")
        if not raises:
            if nonlint:
                ctx.candidate(case, "route %s: CPython executes the statement but pyanalyze reports %s%s" % (r, v[0], " and crashes" if v[1] else ""),
                              cls=pick(dset, FP_CLASSES), conforms=conforms, stream="route")
            elif typed and v[2] != reals[0][3:]:
                ctx.candidate(case, "route %s: result is %s but the inferred type is %s" % (r, reals[0][3:], v[2]),
                              cls=None, conforms=conforms, stream="route")
    # ---- str.format
    if not fmt_cases:
        return
    fmodel = lean.run_driver("C17", ["F %s | %d %s" % (cps(t), len(pos), " ".join(".".join(str(ord(c)) for c in k) for k, _ in kw))
                                     for t, pos, kw in fmt_cases]) if with_model else None
    jobs, snips = [], []
    for ci, fc in enumerate(fmt_cases):
        for r in froutes:
            pre, body = fmt_route_snippet(r, len(snips), fc)
            jobs.append((ci, r))
            snips.append((pre, "c: bool, e: bool", body))
    got = e2e_snippets(snips)
    for (ci, r), sn, g in zip(jobs, snips, got):
        t, pos, kw = fmt_cases[ci]
        case = {"k": "route", "kind": "fmt", "route": r, "t": t, "pos": pos, "kw": kw,
                "source": sn[0] + ["def r(c: bool, e: bool):"] + ["    " + l for l in sn[2]]}
        msgs = [kind_of(x, _FMT_KINDS) for x in g[0]]
        real = real_eval(fmt_call_src(t, pos, kw))
        ctx.count(1, route_occ=1, **{"froute_" + r: 1})
        ctx.nontriv("Q%s:%s" % (r, fmt_call_src(t, pos, kw)))
        conforms, dset = True, set()
        if fmodel is not None:
            m = parse_model(fmodel[ci])
            mmsgs = [] if m["msgs"] == "-" else m["msgs"].split(",")
            dset = set() if m["D"] == "-" else set(m["D"].split(","))
            ctx.corr("route")
            if (msgs[:1], g[1], g[2]) != (mmsgs[:1], False, "str"):
                conforms = False
                ctx.disagree("route", case, {"first": msgs[:1], "crash": g[1], "type": g[2]}, {"first": mmsgs[:1], "crash": False, "type": "str"})
        if real.startswith("raises") and not (msgs or g[1]):
            ctx.candidate(case, "route %s: CPython raises %s but pyanalyze reports nothing" % (r, real[7:]),
                          cls=pick(dset, MISS_CLASSES), conforms=conforms, stream="route")
        if real.startswith("ok") and (g[1] or any(k not in LINT_FMT for k in msgs)):
            ctx.candidate(case, "route %s: CPython formats successfully but pyanalyze reports %s" % (r, msgs), cls=None,
                          conforms=conforms, stream="route")


ROUTE_FIXED = [  # every kind of %-format error, each through every route
    (False, "%d %s", (("T", ("i65",)),)), (False, "%d", (("T", ("i65", "i65")),)), (False, "%(a)s %(b)s", (("D", ((("s", "a"), "i65"),)),)),
    (False, "%d", (("S", "s2"),)), (False, "%*d", (("T", ("s1", "i65")),)), (False, "%c", (("S", "s2"),)), (False, "%c", (("S", "f"),)),
    (True, "%b", (("S", "s1"),)), (True, "%s", (("S", "i65"),)), (False, "%x", (("S", "f"),)), (False, "a%y", (("S", "i65"),)),
    (False, "100%", (("T", ()),)), (False, "%(a)s", (("S", "i65"),)), (False, "%b", (("S", "i65"),)), (False, "%5%", (("T", ("i65",)),)),
    (False, "%d %s", (("T", ("i65", "s1")),)), (True, "%d %s", (("T", ("i65", "y1")),)), (False, "%(a)s", (("D", ((("s", "a"), "i65"), (("s", "b"), "i65"))),)),
    (False, "%s", (("S", "N"),)), (False, "%%", (("T", ()),)), (False, "%d", (("T", ("i65",)), ("T", ("i65", "i65")))),
    (False, "", (("T", ()),)), (True, "%c", (("S", "i300"),)), (False, "%.2f|%5s", (("T", ("f", "s2")),)),
]
FROUTE_FIXED = [("{} {a}", ("i",), ()), ("{} {a}", ("i",), (("a", "i"),)), ("{0} {1}", ("i",), ()), ("{}", (), ()), ("{", ("i",), ()),
                ("}", (), ()), ("{!x}", ("i",), ()), ("{a}", (), (("a", "s"),)), ("{} {}", ("i", "s"), ()), ("{{}} {0}", ("i",), ()),
                ("{b}", (), (("a", "i"),)), ("x", (), ())]


def gen_routes(ctx):
    rng = ctx.rng
    pct = list(ROUTE_FIXED)
    for pr in corpus_programs():
        pct += [occ_from_json(o) for o in pr]
    cp, cf = corpus_cases()
    pct += [(b, t, (a,)) for b, t, a in cp]
    for _ in range(ctx.n(80, 1500)):
        if rng.random() < 0.6:
            isb = rng.random() < 0.3
            t = rng.choice(PROG_TEMPLATES) if rng.random() < 0.6 else rand_pct_template(rng, isb)
            if isb and not all(ord(ch) < 128 for ch in t):
                isb = False
            n = 1 if rng.random() < 0.85 else 2
            members = tuple(prog_arg(rng, t, isb) for _ in range(n))
            if n > 1 and not _distinct_members(members):
                members = members[:1]
        else:
            isb = rng.random() < 0.3
            t = rand_pct_template(rng, isb)
            members = (rand_pct_arg(rng, t, isb),)
        pct.append((isb, t, members))
    fmt = list(FROUTE_FIXED) + list(cf)
    for _ in range(ctx.n(40, 800)):
        t = rand_fmt_template(rng)
        pos, kw = rand_fmt_args(rng, t)
        fmt.append((t, pos, kw))
    # keyword names must be identifiers to be written as keywords; `zz`-style names are
    return pct, fmt


# ---------------------------------------------------------------- case lists
def corpus_cases():
    path = os.path.join(lean.HERE, "corpus", "C17.jsonl")
    pct, fmt = [], []
    if os.path.exists(path):
        for l in open(path):
            l = l.strip()
            if l:
                d = json.loads(l)
                if d["k"] == "prog":
                    continue
                (pct if d["k"] == "pct" else fmt).append(case_from_json(d))
    return pct, fmt


def corpus_programs():
    path = os.path.join(lean.HERE, "corpus", "C17.jsonl")
    out = []
    if os.path.exists(path):
        for l in open(path):
            l = l.strip()
            if l and json.loads(l)["k"] == "prog":
                out.append(json.loads(l)["occs"])
    return out


def case_from_json(d):
    if d["k"] == "pct":
        a = d["a"]
        if a[0] == "S":
            arg = ("S", a[1])
        elif a[0] == "T":
            arg = ("T", tuple(a[1]))
        else:
            arg = ("D", tuple((tuple(k), e) for k, e in a[1]))
        return (bool(d["b"]), d["t"], arg)
    return (d["t"], tuple(d["pos"]), tuple((k, v) for k, v in d["kw"]))


REGEX_ALPHA_Q = ["%", "(", ")", "a", "0", "5", "*", ".", "l", "d"]
REGEX_ALPHA_T = REGEX_ALPHA_Q + ["-", "\n", "s"]


def gen(ctx):
    rng = ctx.rng
    cpct, cfmt = corpus_cases()
    # --- %: exhaustive small templates x fixed arguments
    maxlen = ctx.n(3, 4)
    pct, pct_e2e = list(cpct), set(range(len(cpct)))
    ex = pct_exhaustive(maxlen)
    ex_cases = [(isb, t, a) for t in ex for a in PCT_FIXED_ARGS for isb in (False, True)]
    cap = ctx.n(24000, 260000)
    ctx.extra["pct_exhaustive"] = "all %d templates over %s of length <= %d x %d arguments x str/bytes = %d cases" % (
        len(ex), "".join(PCT_ALPHA), maxlen, len(PCT_FIXED_ARGS), len(ex_cases))
    if len(ex_cases) > cap:
        rng.shuffle(ex_cases)
        ex_cases = ex_cases[:cap]
        ctx.extra["pct_exhaustive"] += "; sampled down to %d by the seed" % cap
    base = len(pct)
    pct += ex_cases
    for j in rng.sample(range(len(ex_cases)), min(len(ex_cases), ctx.n(4000, 20000))):
        pct_e2e.add(base + j)
    # --- %: random
    nr = ctx.n(10000, 120000)
    base = len(pct)
    for _ in range(nr):
        isb = rng.random() < 0.3
        t = rand_pct_template(rng, isb)
        pct.append((isb, t, rand_pct_arg(rng, t, isb)))
    ne2e = ctx.n(9000, 80000)
    pct_e2e.update(range(base, base + min(nr, ne2e)))
    # --- str.format: exhaustive small + random
    fmt, fmt_e2e = list(cfmt), set(range(len(cfmt)))
    fmaxlen = ctx.n(3, 4)
    fex = fmt_exhaustive(fmaxlen)
    fex_cases = [(t, pos, kw) for t in fex for pos, kw in FMT_FIXED_ARGS]
    ctx.extra["fmt_exhaustive"] = "all %d templates over %s of length <= %d x %d argument lists = %d cases" % (
        len(fex), "".join(FMT_ALPHA), fmaxlen, len(FMT_FIXED_ARGS), len(fex_cases))
    base = len(fmt)
    fmt += fex_cases
    for j in rng.sample(range(len(fex_cases)), min(len(fex_cases), ctx.n(2500, 12000))):
        fmt_e2e.add(base + j)
    nf = ctx.n(9000, 100000)
    base = len(fmt)
    for _ in range(nf):
        t = rand_fmt_template(rng)
        pos, kw = rand_fmt_args(rng, t)
        fmt.append((t, pos, kw))
    fmt_e2e.update(range(base, base + min(nf, ctx.n(8000, 60000))))
    # --- regex
    alpha, L = (REGEX_ALPHA_T, 5) if ctx.big() else (REGEX_ALPHA_Q, 4)
    strings = ["".join(p) for n in range(L + 1) for p in itertools.product(alpha, repeat=n)]
    ctx.extra["regex_exhaustive"] = "all %d strings over %r of length <= %d" % (len(strings), "".join(alpha), L)
    for _ in range(ctx.n(3000, 30000)):
        strings.append(rand_pct_template(rng, False))
    return pct, pct_e2e, fmt, fmt_e2e, strings


def gen_programs(ctx):
    progs = [[occ_from_json(o) for o in pr] for pr in corpus_programs()]
    ex = exhaustive_programs(ctx.big())
    ctx.extra["prog_exhaustive"] = ("%d programs: '%%(a)s' / '%%(a)d %%(b)s' with every ordered pair%s of dicts over the keys a,b,c; "
                                    "'%%d %%s' with every ordered pair of tuples of length 0..3 / a scalar; unions of two" % (
                                        len(ex), " and triple" if ctx.big() else " (triples over 5 dicts for '%(a)s')"))
    progs += ex
    for _ in range(ctx.n(350, 6000)):
        progs.append(rand_program(ctx.rng))
    return progs


def run(ctx):
    # programs first: the process has no format-checking history yet
    eval_prog(ctx, gen_programs(ctx), n_fresh_occ=ctx.n(24, 120), n_fresh_prog=ctx.n(6, 24))
    rp, rf = gen_routes(ctx)
    eval_routes(ctx, rp, rf)
    pct, pct_e2e, fmt, fmt_e2e, strings = gen(ctx)
    eval_regex(ctx, strings)
    eval_pct(ctx, pct, pct_e2e)
    eval_fmt(ctx, fmt, fmt_e2e)


def run_impl_only(ctx):
    eval_prog(ctx, gen_programs(ctx), with_model=False, n_fresh_occ=ctx.n(24, 120), n_fresh_prog=ctx.n(6, 24))
    rp, rf = gen_routes(ctx)
    eval_routes(ctx, rp, rf, with_model=False)
    pct, pct_e2e, fmt, fmt_e2e, strings = gen(ctx)
    eval_pct(ctx, pct, pct_e2e, with_model=False)
    eval_fmt(ctx, fmt, fmt_e2e, with_model=False)


def replay(ctx, data):
    case = data.get("case") or (data.get("broken") or [{}])[0].get("case")
    if not case:
        print("replay file carries no input case")
        return 1
    if case["k"] == "route":
        if case["kind"] == "pct":
            eval_routes(ctx, [occ_from_json(case["occ"])], [], routes=[case["route"]])
        else:
            eval_routes(ctx, [], [(case["t"], tuple(case["pos"]), tuple((k, v) for k, v in case["kw"]))], froutes=[case["route"]])
    elif case["k"] == "prog":
        eval_prog(ctx, [[occ_from_json(o) for o in case["occs"]]], n_fresh_occ=1)
    elif case["k"] == "regex":
        eval_regex(ctx, [case["t"]])
    elif case["k"] == "pct":
        eval_pct(ctx, [case_from_json(case)], {0})
    else:
        eval_fmt(ctx, [case_from_json(case)], {0})
    print(json.dumps({"case": case.get("expr", case), "candidates": ctx.candidates, "broken": ctx.broken}, indent=1, default=str))
    return 1 if (ctx.candidates or ctx.broken) else 0
