"""C18 — configuration layering follows the documented precedence.

Streams
  impl   : real TOML files written to ctx.scratch, loaded through NameCheckVisitor.prepare_constructor_kwargs
           (command line / settings) -> Options.from_option_list -> parse_config_file, queried with
           Options.for_module(mod).get_value_for(option)            -> value | EXC:<kind>
  enabled: Options.for_module(mod).is_error_code_enabled(code)      (error-code options only)
  real   : a few cases per run through the unpatched prepare_constructor_kwargs (real Checker)
  model  : lake env lean --run Driver/C18.lean                       -> Pya.C18.effective, Pya.C18.specEffective, D class
  oracle : the precedence sentence of the property implemented here, on the case structure (no pyanalyze)
Correspondence: impl == model (parse status incl. error kind, every queried value), enabled == model,
real == impl, Lean spec == oracle (stream spec).
Property search: impl vs oracle (value differs / invalid configuration accepted / valid one rejected).
"""
import itertools, json, os, re
from unittest import mock

from harness.common import lean, pya

PROP = "C18"
LEAN_PROP = "PyaModel.Props.C18"
NAMESPACE = "Pya.C18"
LEAN_TARGETS = ["PyaModel.Spec.ConfigSpec", "PyaModel.Generated.OptionsRegistry"]
ANCHORS = [
    ("pyanalyze/options.py", "ConfigOption.sort_key"),
    ("pyanalyze/options.py", "ConfigOption.is_applicable_to"),
    ("pyanalyze/options.py", "ConfigOption.get_value_from_instances"),
    ("pyanalyze/options.py", "ConcatenatedOption.get_value_from_instances"),
    ("pyanalyze/options.py", "BooleanOption.parse"),
    ("pyanalyze/options.py", "IntegerOption.parse"),
    ("pyanalyze/options.py", "StringSequenceOption.parse"),
    ("pyanalyze/options.py", "PathSequenceOption.parse"),
    ("pyanalyze/options.py", "Options.from_option_list"),
    ("pyanalyze/options.py", "Options._get_value_for_no_default"),
    ("pyanalyze/options.py", "Options.get_value_for"),
    ("pyanalyze/options.py", "Options.is_error_code_enabled"),
    ("pyanalyze/options.py", "parse_config_file"),
    ("pyanalyze/options.py", "_parse_config_section"),
    ("pyanalyze/name_check_visitor.py", "NameCheckVisitor.prepare_constructor_kwargs"),
]
RULE = (
    "stacks of 1..3 chained config files (extend_config), each with top-level settings and overrides for nested "
    "module prefixes over components a,b,c; exhaustive part: one integer option / one error code, every subset of "
    "{top-level, override a, override a.b} per file x position of extend_config x depth 1..3 x command line given or "
    "not, queried for (), a, a.b, a.b.c, b, ab; then seeded random stacks with several options (boolean error codes, "
    "plain boolean, integer, string-list, path-list), disable_all at top level and in overrides with explicit enables, "
    "inline and [[table]] overrides, random key order; a malformed stream (unknown keys, wrongly typed values, nested "
    "overrides, recursive inclusion, missing files, structural errors). A case is non-trivial when at least two layers "
    "(command line / override / top level / extended file) set a queried option or the configuration is malformed"
)
ASSUMPTIONS = [
    "TOML decoding (tomli) and path resolution (pathlib) are outside the model: the Lean model starts from the decoded "
    "tool.pyanalyze tables and treats file names as atoms in one directory; the impl stream goes through real files",
    "two overrides for the same module in one file are a tie the property does not order: the oracle accepts either order",
    "extend_config inside an override table is outside the property's quantifier: compared model<->impl only",
    "PyObjectSequenceOption / IgnoredPaths option classes are not modelled (kind `other` in the regenerated registry)",
    "Checker construction is stubbed while calling prepare_constructor_kwargs (100 ms each); a sample of cases per run "
    "goes through the unpatched function (stream real)",
]
TRUSTED = [
    "Spec/ConfigSpec.lean (specEffective) is compared on every run with an independent Python implementation of the "
    "same sentence (stream spec)",
    "Generated/OptionsRegistry.lean is regenerated from the live ConfigOption.registry on every run",
]

COMPONENTS = ["a", "b", "c"]
MODS = ["", "a", "a.b", "a.b.c", "b", "a.c", "ab", "b.a"]
CODE_ON = "undefined_name"            # enabled by default
CODE_OFF = "missing_return_annotation"  # disabled by default
CODE_X = "undefined_attribute"
BOOL_PLAIN = "for_loop_always_entered"
INT_OPT = "union_simplification_limit"
INT_OPT2 = "comprehension_length_inference_limit"
STR_OPT = "disallowed_imports"        # default []
STR_OPT2 = "extra_builtins"           # default ["__IPYTHON__"]
PATH_OPT = "import_paths"
PATH_OPT2 = "paths"                   # command line: `files`
ALL_OPTS = [CODE_ON, CODE_OFF, CODE_X, BOOL_PLAIN, INT_OPT, INT_OPT2, STR_OPT, STR_OPT2, PATH_OPT, PATH_OPT2]


# ---------------------------------------------------------------- registry (translator)
def live_registry():
    from pyanalyze import options as O
    from pyanalyze.error_code import ErrorCode

    codes = {e.name for e in ErrorCode}
    out = []
    for name, cls in O.ConfigOption.registry.items():
        def same(attr, base):
            return getattr(cls, attr).__func__ is getattr(base, attr).__func__
        kind = "other"
        plain = same("get_value_from_instances", O.ConfigOption)
        concat = same("get_value_from_instances", O.ConcatenatedOption)
        if issubclass(cls, O.BooleanOption) and same("parse", O.BooleanOption) and plain:
            kind = "bool"
        elif issubclass(cls, O.IntegerOption) and same("parse", O.IntegerOption) and plain:
            kind = "int"
        elif issubclass(cls, O.StringSequenceOption) and same("parse", O.StringSequenceOption) and concat:
            kind = "strSeq"
        elif issubclass(cls, O.PathSequenceOption) and same("parse", O.PathSequenceOption) and plain:
            kind = "pathSeq"
        d = cls.default_value
        if kind == "bool" and isinstance(d, bool):
            dv = ".bool %s" % ("true" if d else "false")
        elif kind == "int" and isinstance(d, int) and not isinstance(d, bool):
            dv = ".int %s" % (d if d >= 0 else "(%d)" % d)
        elif kind == "strSeq" and all(isinstance(x, str) for x in d):
            dv = ".strs [%s]" % ", ".join(json.dumps(x) for x in d)
        elif kind == "pathSeq" and len(d) == 0:
            dv = ".paths []"
        else:
            kind, dv = "other", ".strs []"
        out.append((name, kind, dv, name in codes, d))
    return out


def live_sort_key():
    """The components of the tuple `ConfigOption.sort_key` returns, read from its AST."""
    import ast
    src = open(os.path.join(pya.REPO, "pyanalyze", "options.py")).read()
    cls = [n for n in ast.parse(src).body if isinstance(n, ast.ClassDef) and n.name == "ConfigOption"][0]
    fn = [n for n in cls.body if isinstance(n, ast.FunctionDef) and n.name == "sort_key"][0]
    ret = [n for n in fn.body if isinstance(n, ast.Return)]
    if len(ret) != 1 or not isinstance(ret[0].value, ast.Tuple):
        raise ValueError("sort_key: expected a single `return (<tuple>)`")

    def attr(e, name):
        return isinstance(e, ast.Attribute) and e.attr == name and isinstance(e.value, ast.Name) and e.value.id == "self"

    def length(e):
        return (isinstance(e, ast.Call) and isinstance(e.func, ast.Name) and e.func.id == "len" and len(e.args) == 1
                and not e.keywords and attr(e.args[0], "applicable_to"))

    out = []
    for e in ret[0].value.elts:
        neg = isinstance(e, ast.UnaryOp) and isinstance(e.op, ast.USub)
        no = isinstance(e, ast.UnaryOp) and isinstance(e.op, ast.Not)
        if no and attr(e.operand, "from_command_line"):
            out.append("notCli")
        elif attr(e, "from_command_line"):
            out.append("cli")
        elif attr(e, "priority"):
            out.append("prio")
        elif neg and attr(e.operand, "priority"):
            out.append("negPrio")
        elif neg and length(e.operand):
            out.append("negLen")
        elif length(e):
            out.append("len")
        else:
            raise ValueError("sort_key: component outside the translated subset: " + ast.dump(e)[:120])
    return out


def translate(ctx):
    reg = live_registry()
    lines = [
        "import PyaModel.Core.Options",
        "/-! Regenerated from the live `ConfigOption.registry` by harness/props/c18.py `translate` — do not edit.",
        "Kind = the option class whose `parse` / `get_value_from_instances` the entry really uses",
        "(`other`: not modelled). `isCode`: the name is an `ErrorCode` member. -/",
        "namespace Pya.C18",
        "",
        "def liveRegistry : Registry := [",
    ]
    lines.append(",\n".join(
        "  ⟨%s, .%s, %s, %s⟩" % (json.dumps(n), k, dv, "true" if c else "false") for n, k, dv, c, _ in reg))
    lines += ["]", "", "end Pya.C18", ""]
    lean.write_if_changed(os.path.join(lean.LEAN, "PyaModel", "Generated", "OptionsRegistry.lean"), "\n".join(lines))
    ctx.extra["registry_size"] = len(reg)
    # Soft tie for sort_key: a tuple shape other than the modelled one is not an obligation (harmless rewrites
    # exist); it switches the run to the thorough sample size, like a changed anchor fingerprint.
    try:
        shape = live_sort_key()
    except Exception as e:  # noqa: BLE001
        shape = ["unrecognised: %s" % e]
    ctx.extra["sort_key_components"] = shape
    if shape != ["notCli", "prio", "negLen"]:
        ctx.anchor_changed = sorted(set(ctx.anchor_changed) | {"pyanalyze/options.py::ConfigOption.sort_key (tuple shape)"})


# ---------------------------------------------------------------- TOML rendering
def toml_val(v):
    if v is True:
        return "true"
    if v is False:
        return "false"
    if isinstance(v, int):
        return str(v)
    if isinstance(v, str):
        return json.dumps(v)
    if isinstance(v, list):
        return "[" + ", ".join(toml_val(x) for x in v) + "]"
    if isinstance(v, dict):
        if "f" in v:
            return "1.5" if v["f"] else "0.0"
        return "{" + ", ".join("%s = %s" % (k, toml_val(x)) for k, x in v["t"]) + "}"
    raise ValueError(v)


def toml_file(table, style=0):
    """`table` = ordered [[key, tv], ...] of tool.pyanalyze. style 1: a trailing `overrides` array of
    tables is written in the documented [[tool.pyanalyze.overrides]] form (when every element is a flat table)."""
    out = ["[tool.pyanalyze]"]
    tail = None
    items = list(table)
    if style and items and items[-1][0] == "overrides" and isinstance(items[-1][1], list) and items[-1][1] and all(
            isinstance(o, dict) and "t" in o and all(not isinstance(x, dict) or "f" in x for _, x in o["t"])
            and all(not (isinstance(x, list) and any(isinstance(y, dict) for y in x)) for _, x in o["t"])
            for o in items[-1][1]):
        tail = items.pop()[1]
    for k, v in items:
        out.append("%s = %s" % (k, toml_val(v)))
    if tail is not None:
        for o in tail:
            out.append("[[tool.pyanalyze.overrides]]")
            for k, v in o["t"]:
                out.append("%s = %s" % (k, toml_val(v)))
    return "\n".join(out) + "\n"


# ---------------------------------------------------------------- implementation stream
_MSG = [
    ("Top-level configuration should not set module option", "topLevelModule"),
    ("extend_config must be a string", "extendNotStr"),
    ("Cannot open config file", "cannotOpen"),
    ("Recursive config inclusion detected", "recursive"),
    ("Nested section cannot set overrides", "nestedOverrides"),
    ("overrides section must be a list", "overridesNotList"),
    ("override value must be a dict", "overrideNotDict"),
    ("override section must set 'module' to a string", "overrideModule"),
    ("disable_all must be a boolean", "disableNotBool"),
]


def err_kind(e):
    from pyanalyze.options import InvalidConfigOption
    if not isinstance(e, InvalidConfigOption):
        return "EXC:%s" % type(e).__name__
    msg = str(e)
    for pre, kind in _MSG:
        if msg.startswith(pre):
            return "ERR:" + kind
    m = re.match(r"Invalid configuration option '([^']*)'", msg)
    if m:
        return "ERR:unknownKey:" + m.group(1)
    m = re.match(r"Invalid value for option (\S+): expected", msg)
    if m:
        return "ERR:badValue:" + m.group(1)
    return "ERR:?" + msg[:40]


def canon(v, base=None):
    if v is True:
        return "T"
    if v is False:
        return "F"
    if isinstance(v, int):
        return str(v)
    if isinstance(v, (list, tuple)):
        out = []
        for x in v:
            if isinstance(x, os.PathLike):
                x = os.path.relpath(str(x), base) if base and os.path.isabs(str(x)) else str(x)
            out.append(str(x))
        return "[" + ",".join(out) + "]"
    return "?%r" % (v,)


class _StubChecker:
    def __init__(self, raw_options=None):
        self.options = raw_options


def load_options(case, dirpath, real=False):
    """Write the files of the case and build the Options the way the command line entry point does."""
    from pyanalyze import name_check_visitor as ncv
    from pyanalyze.error_code import ErrorCode
    import pathlib

    os.makedirs(dirpath, exist_ok=True)
    for old in os.listdir(dirpath):
        os.unlink(os.path.join(dirpath, old))
    for i, (name, table) in enumerate(case["fs"]):
        with open(os.path.join(dirpath, name), "w") as f:
            f.write(toml_file(table, style=case.get("style", 0)))
    kwargs = {"config_file": pathlib.Path(dirpath) / case["main"]}
    settings = {}
    codes = {e.name: e for e in ErrorCode}
    for name, val in case["cli"]:
        if name in codes:
            settings[codes[name]] = val
        elif name == "paths":
            kwargs["files"] = list(val)
        elif name == PATH_OPT:
            kwargs[name] = [pathlib.Path(x) for x in val]
        else:
            kwargs[name] = val
    if settings:
        kwargs["settings"] = settings
    from pyanalyze.options import InvalidConfigOption
    if not real:
        try:
            with mock.patch.object(ncv, "Checker", _StubChecker):
                out = ncv.NameCheckVisitor.prepare_constructor_kwargs(dict(kwargs))
            return out["checker"].options
        except InvalidConfigOption:
            raise
        except Exception:  # noqa: BLE001 - the stub may no longer fit: fall back to the unpatched function
            pass
    out = ncv.NameCheckVisitor.prepare_constructor_kwargs(kwargs)
    return out["checker"].options


def impl_results(case, dirpath, real=False):
    """-> (status, [value per query], [enabled per query or None])"""
    from pyanalyze.options import ConfigOption
    from pyanalyze.error_code import ErrorCode
    try:
        opts = load_options(case, dirpath, real=real)
    except Exception as e:  # noqa: BLE001 - any exception is an observation
        return err_kind(e), None, None
    vals, en = [], []
    for name, mod in case["q"]:
        mp = tuple(mod.split(".")) if mod else ()
        o = opts.for_module(mp)
        try:
            v = canon(o.get_value_for(ConfigOption.registry[name]), os.path.realpath(dirpath))
        except Exception as e:  # noqa: BLE001
            v = "EXC:%s" % type(e).__name__
        vals.append(v)
        code = getattr(ErrorCode, name, None)
        if code is not None:
            try:
                en.append(canon(o.is_error_code_enabled(code)))
            except Exception as e:  # noqa: BLE001
                en.append("EXC:%s" % type(e).__name__)
        else:
            en.append(None)
    return "ok", vals, en


# ---------------------------------------------------------------- oracle (the property sentence; no pyanalyze)
class Reject(Exception):
    pass


_REG = None


def reg_table():
    """name -> (kind, default) for the options the generators use; kinds are part of the property's vocabulary
    (boolean / integer / list options), defaults are read from the live registry."""
    global _REG
    if _REG is None:
        _REG = {n: (k, d) for n, k, _, _, d in live_registry()}
    return _REG


_CODES = None


def code_names():
    global _CODES
    if _CODES is None:
        _CODES = {e.name for e in pya.ErrorCode}
    return _CODES


def o_typed(kind, v):
    if kind == "bool":
        return isinstance(v, bool)
    if kind == "int":
        return isinstance(v, int) and not isinstance(v, bool)
    if kind in ("strSeq", "pathSeq"):
        return isinstance(v, list) and all(isinstance(x, str) for x in v)
    return False


def o_check_section(table, top):
    reg = reg_table()
    keys = [k for k, _ in table]
    if not top and not any(k == "module" and isinstance(v, str) for k, v in table):
        raise Reject("override without module")
    for k, v in table:
        if k == "module":
            if top or not isinstance(v, str):
                raise Reject("module")
        elif k == "extend_config":
            if not top:
                raise Reject("extend_config in override")  # outside the quantifier; callers skip such cases
            if not isinstance(v, str):
                raise Reject("extend_config type")
        elif k == "overrides":
            if not top:
                raise Reject("nested overrides")
            if not isinstance(v, list):
                raise Reject("overrides type")
            for o in v:
                if not (isinstance(o, dict) and "t" in o):
                    raise Reject("override type")
                o_check_section(o["t"], False)
        elif k == "disable_all":
            if not isinstance(v, bool):
                raise Reject("disable_all type")
        else:
            if k not in reg:
                raise Reject("unknown key")
            if not o_typed(reg[k][0], v):
                raise Reject("value type")
    return keys


def o_stack(case):
    fs = dict((n, t) for n, t in case["fs"])
    stack, seen, cur = [], set(), case["main"]
    while cur is not None:
        if cur in seen:
            raise Reject("recursive inclusion")
        if cur not in fs:
            raise Reject("missing file")
        seen.add(cur)
        table = fs[cur]
        o_check_section(table, True)
        stack.append(table)
        ext = [v for k, v in table if k == "extend_config"]
        cur = ext[0] if ext else None
    return stack


def o_section_value(table, name, is_code):
    for k, v in table:
        if k == name:
            return [v]
    if is_code and any(k == "disable_all" and v is True for k, v in table):
        return [False]
    return []


def o_layers(case, name, mod):
    """Groups of values in precedence order; the members of one group are tied (any order acceptable)."""
    is_code = name in code_names()
    mp = mod.split(".") if mod else []
    groups = []
    cli = [v for n, v in case["cli"] if n == name]
    if cli:
        groups.append([cli[0]])
    for table in o_stack(case):
        by_spec = {}
        for k, v in table:
            if k == "overrides":
                for o in v:
                    m = [x for kk, x in o["t"] if kk == "module"][0].split(".")
                    if mp[:len(m)] == m:
                        val = o_section_value(o["t"], name, is_code)
                        if val:
                            by_spec.setdefault(len(m), []).append(val[0])
        for n in sorted(by_spec, reverse=True):
            groups.append(by_spec[n])
        top = o_section_value(table, name, is_code)
        if top:
            groups.append(top)
    return groups


def oracle(case, name, mod):
    """Set of acceptable canonical values, or 'REJECT'."""
    kind, default = reg_table()[name]
    try:
        groups = o_layers(case, name, mod)
    except Reject:
        return "REJECT"
    if kind in ("strSeq", "pathSeq"):
        res = set()
        for perm in itertools.product(*[list(itertools.permutations(g)) for g in groups]):
            flat = [x for g in perm for lst in g for x in lst]
            res.add(canon(flat + list(default)))
        return res
    if groups:
        return {canon(v) for v in groups[0]}
    return {canon(default)}


def has_extend_in_override(case):
    for _, table in case["fs"]:
        for k, v in table:
            if k == "overrides" and isinstance(v, list):
                for o in v:
                    if isinstance(o, dict) and "t" in o and any(kk == "extend_config" for kk, _ in o["t"]):
                        return True
    return False


# ---------------------------------------------------------------- generators
def fname(i):
    return "f%d.toml" % i


def exhaustive_cases(ctx, opt, kind):
    """Every subset of {top, override a, override a.b} per file x extend_config first/last x depth 1..3 x cli."""
    cases = []
    locs = list(itertools.product([0, 1], repeat=3))
    counter = itertools.count(1)

    def value(tag):
        n = next(counter)
        if kind == "int":
            return n
        if kind == "bool":
            return bool(tag % 2)
        return ["v%d" % n]

    for depth in (1, 2, 3):
        per_file = []
        for i in range(depth):
            has_ext = i < depth - 1
            opts_i = []
            for top, oa, oab in locs:
                for pos in ((0, 1) if has_ext else (0,)):
                    opts_i.append((top, oa, oab, pos))
            per_file.append(opts_i)
        for combo in itertools.product(*per_file):
            fs = []
            tag = 0
            for i, (top, oa, oab, pos) in enumerate(combo):
                table = []
                if i < depth - 1 and pos == 0:
                    table.append(["extend_config", fname(i + 1)])
                if top:
                    tag += 1
                    table.append([opt, value(tag + i)])
                if i < depth - 1 and pos == 1:
                    table.append(["extend_config", fname(i + 1)])
                ovs = []
                if oa:
                    tag += 1
                    ovs.append({"t": [["module", "a"], [opt, value(tag)]]})
                if oab:
                    tag += 1
                    ovs.append({"t": [["module", "a.b"], [opt, value(tag + 1)]]})
                if ovs:
                    table.append(["overrides", ovs])
                fs.append([fname(i), table])
            for cli in (0, 1):
                cases.append({"fs": fs, "main": fname(0), "cli": [[opt, value(7)]] if cli else [],
                              "q": [[opt, m] for m in ("", "a", "a.b", "a.b.c", "b", "ab")], "style": (len(cases) % 2)})
    return cases


def rand_value(rng, name, wrong=False):
    kind = reg_table()[name][0]
    if wrong:
        pool = {
            "bool": [0, 1, "true", "false", {"f": 1}, []],
            "int": [True, False, "3", {"f": 1}, [1]],
            "strSeq": ["x", 1, True, [1], ["x", 2], {"t": []}],
            "pathSeq": ["x", 1, [True], ["x", 2]],
        }[kind]
        return rng.choice(pool)
    if kind == "bool":
        return rng.random() < 0.5
    if kind == "int":
        return rng.randint(0, 99)
    return ["s%d" % rng.randint(0, 99) for _ in range(rng.randint(0, 2))]


def rand_module(rng):
    r = rng.random()
    if r < 0.3:
        return "a"
    if r < 0.55:
        return "a.b"
    if r < 0.65:
        return "a.b.c"
    if r < 0.75:
        return "b"
    return ".".join(rng.choice(COMPONENTS) for _ in range(rng.randint(1, 3)))


def rand_section(rng, opts, top, p_disable=0.2):
    items = []
    for name in opts:
        if rng.random() < (0.45 if top else 0.5):
            items.append([name, rand_value(rng, name)])
    if rng.random() < p_disable:
        items.append(["disable_all", rng.random() < 0.8])
    rng.shuffle(items)
    return items


def random_case(rng, malformed=False):
    depth = rng.choice([1, 2, 2, 3, 3])
    nopts = rng.randint(1, 4)
    opts = rng.sample(ALL_OPTS, nopts)
    if rng.random() < 0.5 and CODE_ON not in opts:
        opts.append(CODE_ON)
    fs = []
    for i in range(depth):
        table = rand_section(rng, opts, True)
        ovs = []
        for _ in range(rng.choice([0, 1, 1, 2, 3])):
            sec = rand_section(rng, opts, False)
            sec.insert(rng.randint(0, len(sec)), ["module", rand_module(rng)])
            ovs.append({"t": sec})
        if ovs or rng.random() < 0.05:
            if rng.random() < 0.75:
                table.append(["overrides", ovs])
            else:
                table.insert(rng.randint(0, len(table)), ["overrides", ovs])
        if i < depth - 1:
            r = rng.random()
            pos = 0 if r < 0.35 else (len(table) if r < 0.7 else rng.randint(0, len(table)))
            table.insert(pos, ["extend_config", fname(i + 1)])
        fs.append([fname(i), table])
    cli = []
    for name in opts:
        if rng.random() < 0.25:
            v = rand_value(rng, name)
            if name == PATH_OPT2 and not v:
                v = ["s0"]  # `files=[]` is not passed on by prepare_constructor_kwargs
            cli.append([name, v])
    qopts = list(opts)
    if rng.random() < 0.3:
        qopts.append(rng.choice(ALL_OPTS))
    q = [[n, m] for n in dict.fromkeys(qopts) for m in rng.sample(MODS, 3)]
    case = {"fs": fs, "main": fname(0), "cli": cli, "q": q, "style": rng.randint(0, 1)}
    if malformed:
        mutate(rng, case, opts)
    return case


def mutate(rng, case, opts):
    """One malformation of a valid case."""
    fs = case["fs"]
    fi = rng.randrange(len(fs))
    table = fs[fi][1]
    sections = [table] + [o["t"] for k, v in table if k == "overrides" and isinstance(v, list) for o in v
                          if isinstance(o, dict) and "t" in o]
    sec = rng.choice(sections)
    kind = rng.choice(["unknown", "wrongtype", "wrongtype", "wrongtype", "disable_type", "disable_type", "nested",
                       "recursive", "recursive", "missing", "topmodule", "ovnotlist", "ovnotdict", "ovnomodule",
                       "ovmodtype", "extendtype", "extend_in_override", "boolint"])
    case["malformation"] = kind
    pos = rng.randint(0, len(sec))
    if kind == "unknown":
        sec.insert(pos, [rng.choice(["nonsense", "undefined_nam", "Undefined_name", "module_", "disable_al"]),
                         rng.choice([True, 1, "x"])])
    elif kind == "wrongtype":
        name = rng.choice(opts)
        sec[:] = [kv for kv in sec if kv[0] != name]
        sec.insert(min(pos, len(sec)), [name, rand_value(rng, name, wrong=True)])
    elif kind == "boolint":
        sec[:] = [kv for kv in sec if kv[0] != INT_OPT]
        sec.insert(min(pos, len(sec)), [INT_OPT, rng.random() < 0.5])
        case["q"].append([INT_OPT, "a"])
    elif kind == "disable_type":
        sec[:] = [kv for kv in sec if kv[0] != "disable_all"]
        sec.insert(min(pos, len(sec)), ["disable_all", rng.choice(["false", "true", "", 0, 1, {"f": 0}, {"f": 1}, [],
                                                                    [False], {"t": []}])])
        case["q"].append([CODE_ON, "a.b"])
    elif kind == "nested":
        ovsecs = sections[1:]
        if not ovsecs:
            ov = {"t": [["module", "a"]]}
            table[:] = [kv for kv in table if kv[0] != "overrides"]  # keys of a TOML table are unique
            table.append(["overrides", [ov]])
            ovsecs = [ov["t"]]
        tgt = rng.choice(ovsecs)
        tgt.insert(rng.randint(0, len(tgt)), ["overrides", rng.choice([[], [{"t": [["module", "a.b"]]}], "x"])])
    elif kind == "recursive":
        last = fs[-1][1]
        last[:] = [kv for kv in last if kv[0] != "extend_config"]
        last.insert(rng.randint(0, len(last)), ["extend_config", fname(rng.randrange(len(fs)))])
    elif kind == "missing":
        last = fs[-1][1]
        last[:] = [kv for kv in last if kv[0] != "extend_config"]
        last.insert(rng.randint(0, len(last)), ["extend_config", "nofile.toml"])
    elif kind == "topmodule":
        table.insert(rng.randint(0, len(table)), ["module", rng.choice(["a", 1])])
    elif kind == "ovnotlist":
        table[:] = [kv for kv in table if kv[0] != "overrides"]
        table.insert(rng.randint(0, len(table)), ["overrides", rng.choice(["x", 1, True, {"t": [["module", "a"]]}])])
    elif kind == "ovnotdict":
        table[:] = [kv for kv in table if kv[0] != "overrides"]
        table.insert(rng.randint(0, len(table)),
                     ["overrides", [{"t": [["module", "a"]]}, rng.choice([1, "a", [], True])][::rng.choice([1, -1])]])
    elif kind in ("ovnomodule", "ovmodtype"):
        table[:] = [kv for kv in table if kv[0] != "overrides"]
        ov = [[CODE_ON, False]] if kind == "ovnomodule" else [["module", rng.choice([1, True, ["a"]])], [CODE_ON, False]]
        table.append(["overrides", [{"t": ov}]])
    elif kind == "extendtype":
        table[:] = [kv for kv in table if kv[0] != "extend_config"]
        table.insert(rng.randint(0, len(table)), ["extend_config", rng.choice([1, True, ["f1.toml"]])])
    elif kind == "extend_in_override":
        ov = {"t": [["module", "a"], ["extend_config", fname(len(fs))], [CODE_ON, False]]}
        rng.shuffle(ov["t"])
        table.append(["overrides", [ov]]) if not any(k == "overrides" for k, _ in table) else \
            [v.append(ov) for k, v in table if k == "overrides" and isinstance(v, list)]
        fs.append([fname(len(fs)), rand_section(rng, opts, True)])


def disable_all_cases(rng, n):
    """disable_all at top level / in overrides, explicit enables, layered over up to 3 files."""
    out = []
    codes = [CODE_ON, CODE_OFF, CODE_X]
    for _ in range(n):
        depth = rng.choice([1, 1, 2, 3])
        fs = []
        for i in range(depth):
            def sec(top):
                items = [[c, rng.random() < 0.6] for c in codes if rng.random() < 0.4]
                if rng.random() < 0.6:
                    items.append(["disable_all", rng.random() < 0.85])
                rng.shuffle(items)
                return items
            table = sec(True)
            ovs = []
            for m in rng.sample(["a", "a.b", "b"], rng.randint(0, 2)):
                s = sec(False)
                s.insert(rng.randint(0, len(s)), ["module", m])
                ovs.append({"t": s})
            if ovs:
                table.append(["overrides", ovs])
            if i < depth - 1:
                table.insert(rng.choice([0, len(table)]), ["extend_config", fname(i + 1)])
            fs.append([fname(i), table])
        cli = [[c, rng.random() < 0.5] for c in codes if rng.random() < 0.15]
        out.append({"fs": fs, "main": fname(0), "cli": cli,
                    "q": [[c, m] for c in codes for m in ("", "a", "a.b", "b")], "style": rng.randint(0, 1)})
    return out


def corpus_cases():
    path = os.path.join(lean.HERE, "corpus", "C18.jsonl")
    out = []
    if os.path.exists(path):
        for l in open(path):
            l = l.strip()
            if l:
                d = json.loads(l)
                d.setdefault("cli", [])
                d.setdefault("style", 0)
                out.append(d)
    return out


def gen_cases(ctx):
    rng = ctx.rng
    cases = corpus_cases()
    ex = exhaustive_cases(ctx, INT_OPT, "int") + exhaustive_cases(ctx, CODE_ON, "bool") + \
        exhaustive_cases(ctx, STR_OPT, "strSeq")
    ctx.extra["exhaustive_part"] = "%d stacks: int / error-code / string-list option, depth 1..3, every subset of " \
        "{top, override a, override a.b} per file, extend_config first or last, command line given or not, 6 module paths" % len(ex)
    cap = ctx.n(2500, len(ex))
    if len(ex) > cap:
        keep = [c for c in ex if len(c["fs"]) < 3]
        rest = [c for c in ex if len(c["fs"]) == 3]
        rng.shuffle(rest)
        ex = keep + rest[:max(0, cap - len(keep))]
        ctx.extra["exhaustive_part"] += "; depth 1-2 complete, depth 3 sampled down to %d by the seed" % (cap - len(keep))
    cases += ex
    cases += disable_all_cases(rng, ctx.n(600, 8000))
    for _ in range(ctx.n(2500, 40000)):
        cases.append(random_case(rng))
    for _ in range(ctx.n(900, 12000)):
        cases.append(random_case(rng, malformed=True))
    return cases


# ---------------------------------------------------------------- evaluation
def model_line(case):
    return json.dumps({"fs": case["fs"], "main": case["main"], "cli": case["cli"], "q": case["q"]},
                      separators=(",", ":"))


def parse_model(line):
    parts = line.split(" || ")
    head = dict(x.split("=", 1) for x in parts[0].split(" "))
    qs = []
    for p in parts[1:]:
        qs.append(dict(x.split("=", 1) for x in p.split(" ")))
    return head, qs


def layers_set(case, name):
    n = 0
    if any(c[0] == name for c in case["cli"]):
        n += 1
    for _, table in case["fs"]:
        for k, v in table:
            if k == name or k == "disable_all":
                n += 1
            if k == "overrides" and isinstance(v, list):
                for o in v:
                    if isinstance(o, dict) and "t" in o and any(kk in (name, "disable_all") for kk, _ in o["t"]):
                        n += 1
    return n


def evaluate(ctx, cases, with_model=True):
    dirpath = os.path.join(ctx.scratch, "cfg")
    model = lean.run_driver("C18", [model_line(c) for c in cases]) if with_model else None
    n_real = ctx.n(25, 150)
    real_every = max(1, len(cases) // n_real)
    for i, case in enumerate(cases):
        status, vals, en = impl_results(case, dirpath)
        malformed = "malformation" in case
        out_of_domain = has_extend_in_override(case)
        nontrivial = malformed or any(layers_set(case, n) >= 2 for n in {q[0] for q in case["q"]})
        ctx.count(1, **{"depth_%d" % len(case["fs"]): 1, "malformed" if malformed else "wellformed": 1,
                        "impl_" + status.split(":")[0]: 1, "queries": len(case["q"])})
        if malformed:
            ctx.tag("malformation_" + case["malformation"])
        if nontrivial:
            ctx.nontriv(model_line(case))
        head = mq = None
        if model is not None:
            if model[i] == "bad-op":
                ctx.disagree("model", case, status, "bad-op")
                continue
            head, mq = parse_model(model[i])
            mstatus = "ok" if head["parse"] == "ok" else head["parse"]
            if status.startswith("ERR:?") and mstatus.startswith("ERR:"):
                status = mstatus  # a configuration error with a message this harness does not know: kind not compared
            ctx.corr("impl")
            if status != mstatus:
                ctx.disagree("impl", case, status, mstatus)
        if i % 1499 == 0:
            ctx.sample({"files": {n: toml_file(t, case.get("style", 0)) for n, t in case["fs"]}, "cli": case["cli"],
                        "queries": case["q"][:4], "pyanalyze": vals[:4] if vals else status,
                        "model": model[i][:200] if model else None})
        if i % real_every == 0:
            rs, rv, _ = impl_results(case, dirpath, real=True)
            ctx.corr("real")
            if (rs, rv) != (status, vals):
                ctx.disagree("real", case, [rs, rv], [status, vals])
        conforms_status = head is None or status == ("ok" if head["parse"] == "ok" else head["parse"])
        # ---- property: rejection
        first_oracle = oracle(case, case["q"][0][0], case["q"][0][1]) if case["q"] else None
        if head is not None:
            ctx.corr("spec")
            if (first_oracle == "REJECT") != (head["valid"] == "0"):
                ctx.disagree("spec", case, "oracle %s" % ("rejects" if first_oracle == "REJECT" else "accepts"),
                             "specValid=%s" % head["valid"])
        if out_of_domain:
            ctx.tag("out_of_domain")
        elif first_oracle == "REJECT":
            if status == "ok":
                cls = None  # no rejection class is left after 7e56ba6 / df9545b
                ctx.candidate(case, "an invalid configuration (%s) is accepted instead of rejected with a configuration error"
                              % case.get("malformation", "?"), cls=cls, conforms=conforms_status, stream="impl")
            elif status.startswith("EXC:"):
                ctx.candidate(case, "an invalid configuration raises %s instead of a configuration error" % status,
                              cls=None, conforms=conforms_status, stream="impl")
        elif status != "ok":
            ctx.candidate(case, "a valid configuration is rejected (%s)" % status, cls=None, conforms=conforms_status,
                          stream="impl")
        if vals is None:
            continue
        # ---- per query
        for j, (name, mod) in enumerate(case["q"]):
            m = mq[j] if mq is not None and head["parse"] == "ok" else None
            if m is not None:
                ctx.corr("impl")
                if vals[j] != m["m"]:
                    ctx.disagree("impl", dict(case, q=[[name, mod]]), vals[j], m["m"])
                if en[j] is not None:
                    ctx.corr("enabled")
                    if en[j] != m["m"]:
                        ctx.disagree("enabled", dict(case, q=[[name, mod]]), en[j], m["m"])
            if out_of_domain:
                continue
            want = oracle(case, name, mod)
            if mq is not None:
                ctx.corr("spec")
                s = mq[j]["s"]
                if (want == "REJECT") != (s == "REJECT") or (want != "REJECT" and s not in want):
                    ctx.disagree("spec", dict(case, q=[[name, mod]]), "oracle %s" % sorted(want)[:3], "spec %s" % s)
            if want == "REJECT":
                continue
            if vals[j] not in want:
                d = m["D"] if m is not None else "-"
                cls = d.split(",")[0] if d != "-" else None
                conforms = m is None or vals[j] == m["m"]
                ctx.candidate(dict(case, q=[[name, mod]]),
                              "effective value of %s for module %r is %s, the documented precedence gives %s"
                              % (name, mod, vals[j], sorted(want)[0]), cls=cls, conforms=conforms, stream="impl")


def run(ctx):
    evaluate(ctx, gen_cases(ctx))


def run_impl_only(ctx):
    evaluate(ctx, gen_cases(ctx), with_model=False)


def replay(ctx, data):
    case = data["case"]
    case.setdefault("cli", [])
    evaluate(ctx, [case])
    print(json.dumps({"files": {n: toml_file(t, case.get("style", 0)) for n, t in case["fs"]}, "cli": case["cli"],
                      "queries": case["q"], "candidates": [{k: c[k] for k in ("what", "class", "conforms")}
                                                           for c in ctx.candidates],
                      "broken": ctx.broken}, indent=1, default=str))
    return 1 if (ctx.candidates or ctx.broken) else 0
