"""C19 — operations on known objects agree with performing them.

Streams
  table   : every (operator, operands) / (object, attribute) / (object, index) of the literal universe, put as
            `reveal_type(<expr>)` through real pyanalyze (verdict + inferred literal) and evaluated by CPython
            (value / exception) -> rows of lean/PyaModel/Generated/OpTables*.lean (translate), each row also
            classified by the Lean driver (agree / D-class / model verdict); `rowcheck` compares the Lean
            classification with the Python evaluation of the property on the same row
  attrtab : the attribute table: every operand class (numbers, text, containers, None/Ellipsis, enum members, classes,
            modules, functions) x every attribute name any of them has (union of dir(), ~550 names incl. every dunder)
            + names nobody has -> lean/PyaModel/Generated/AttrTables*.lean; CPython's getattr outcome/value vs
            pyanalyze's undefined_attribute/inferred value; rows also go through the Lean model of
            _get_attribute_from_known (knownAttr/attrReported). thorough: all rows regenerated; quick: every special
            name on every operand + a seeded stratified sample re-computed and compared with the stored table
            (any difference => full regeneration)
  spec    : Lean `cpyBinop` (dunder-level dispatch) vs what CPython really did, per binary row
  binop   : unit facts per side (signature verdict of `T.__op__(l, r)` checked by pyanalyze, runtime outcome
            from CPython) -> Lean model `binop` == end-to-end verdict of `l op r`
  attr    : `_has_only_known_attributes` / `__getattr__` / ignored-name facts -> Lean `attrFallback` == e2e verdict
  getitem : tuple/list displays with typed and starred members indexed by literal ints -> Lean `getitem`
            == revealed type / "Tuple index out of range"; oracle: CPython indexing of every expansion
Property search: table rows where pyanalyze disagrees with CPython (any row, quick universe exhaustively, then
seeded random literals, thorough: a widened universe), getitem cases where an expansion's element is outside the
revealed type or IndexError <-> diagnostic fails for a fully known tuple.
"""
import hashlib, itertools, json, os, re, sys, types, warnings
import enum as _enum

from harness.common import lean, pya

PROP = "C19"
LEAN_PROP = "PyaModel.Props.C19"
NAMESPACE = "Pya.C19"
LEAN_TARGETS = ["PyaModel.Spec.OpsSpec", "PyaModel.Generated.OpTables", "PyaModel.Generated.AttrTables"]
_ANCHORS = [
    ("pyanalyze/implementation.py", "_sequence_common_getitem_impl"),
    ("pyanalyze/name_check_visitor.py", "NameCheckVisitor._visit_binop_no_mvv"),
    ("pyanalyze/name_check_visitor.py", "NameCheckVisitor._check_dunder_call_no_mvv"),
    ("pyanalyze/name_check_visitor.py", "NameCheckVisitor._get_dunder"),
    ("pyanalyze/name_check_visitor.py", "NameCheckVisitor._check_call_no_mvv"),
    ("pyanalyze/name_check_visitor.py", "NameCheckVisitor._composite_from_subscript_no_mvv"),
    ("pyanalyze/name_check_visitor.py", "NameCheckVisitor._get_attribute_fallback"),
    ("pyanalyze/name_check_visitor.py", "_has_only_known_attributes"),
    ("pyanalyze/attributes.py", "_get_attribute_from_known"),
    ("pyanalyze/attributes.py", "_get_attribute_from_mro"),
    ("pyanalyze/signature.py", "Signature._maybe_perform_call"),
]
# development aid: until the anchors are registered in anchors.json (VERIF_UPDATE_ANCHORS=1 ./check C19) every
# run would use the thorough sizes; VERIF_C19_NO_ANCHORS=1 lets the quick sizes be timed before that.
ANCHORS = [] if os.environ.get("VERIF_C19_NO_ANCHORS") else _ANCHORS
RULE = (
    "operation table: literal universe (ints incl. 0/-1/bools, floats, complex, strs, bytes, tuples incl. nested, None, "
    "enum / int-enum members incl. ones with user __add__/__radd__, classes, modules) x 13 binary operators x universe, "
    "3 unary operators, 26 attribute names (present and absent), 15 indices (-4..4, True, an IntEnum member, non-int keys), all "
    "enumerated exhaustively and regenerated from the live tree on every run; then seeded random literals (ints in "
    "[-300,300], short strs/bytes, tuples) for the same operation kinds; thorough adds a widened universe; "
    "attribute table: 51 operand classes x the union of dir() over them (~550 names) + names nobody has, thorough: every pair, "
    "quick: ~30 special names (__dict__, __class__, __slots__, __module__, __annotations__, name, value, ...) on every operand "
    "+ for every other name one seeded operand per kind group; volatile attributes of sys are left out. Excluded "
    "(outside the property): `%` with a str/bytes left operand (format strings, C17), ordering comparisons, "
    "exceptions other than TypeError/AttributeError (ZeroDivisionError, ValueError, OverflowError, KeyError), "
    "IndexError on anything but a tuple; lint-only codes are off. getitem: all member shapes (fixed / starred) up to "
    "length 4 x tuple/list x keys -6..6, then seeded random shapes up to length 8. A case is non-trivial when the "
    "operation is well-typed at run time or involves a starred member; distinct = distinct expression text"
)
ASSUMPTIONS = [
    "literal results are compared through a canonical (type name, exact repr) pair; floats by float.hex(), bound builtin methods by (self, name), classes/modules/functions by qualified name; other objects (mappingproxy, ...) only by type",
    "the dunder-level CPython dispatch spec (cpyBinop: left dunder, reflected dunder only for different types, right first for an overriding proper subclass or a sequence-slot left operand) is an abstraction of binary_op1; it is validated against real CPython on every binary row of every run (stream spec + the opTable_spec_all obligation)",
    "getitem: variadic members are expanded 0..3 times in the oracle; the Lean theorem covers all expansions",
    "operands are kept small (|int| <= 300, sequences <= 8 items before the operation) because pyanalyze really performs the operation",
]
TRUSTED = [
    "Spec/OpsSpec.lean: elemAt/expand (CPython indexing) validated against real indexing, cpyBinop against real operators, on every run",
    "the attribute table lean/PyaModel/Generated/AttrTables*.lean (28k rows) is regenerated in the thorough tier and whenever a re-computed row differs; the quick tier re-computes ~5.7k of its rows (all special names + a seeded stratified sample) and requires them to equal the stored rows",
    "stub facts (bit 11: the stubs declare the name as variable/property on a class of the MRO) are read with typeshed_client from the typeshed copy pyanalyze ships with",
    "the operation table lean/PyaModel/Generated/OpTables*.lean is regenerated from the live tree by translate(); its three obligations are re-proved by the kernel (decide +kernel) whenever it changes",
]

# ------------------------------------------------------------------------------------------------ universe
PRELUDE = '''import math, enum, types
from types import NoneType, ModuleType
class E(enum.Enum):
    A = 1
    B = 2
class IE(enum.IntEnum):
    A = 1
    X = 3
class EN(enum.Enum):
    A = 1
    def __add__(self, o):
        return NotImplemented
    def __radd__(self, o):
        return 7
class EP(enum.IntEnum):
    A = 1
    def __radd__(self, o):
        return 100
class FL(enum.Flag):
    R = 1
    W = 2
class C0: pass
class C1: pass
class C2: pass
class C3: pass
class C4: pass
class C5: pass
class C6: pass
class C7: pass
class C8: pass
class C9: pass
import sys, os
class IF(enum.IntFlag):
    R = 1
    W = 2
class K:
    x = 1
    def m(self):
        return 0
def fn(x):
    return x
'''

TAGS = {"int": 1, "bool": 2, "float": 3, "complex": 4, "str": 5, "bytes": 6, "tuple": 7, "none": 8, "enum": 9,
        "intenum": 10, "cls": 11, "clsidx": 12, "module": 13, "list": 14, "dict": 15, "set": 16, "ellipsis": 17, "func": 18}

# (source text, is written as a dotted name)
QUICK_OPERANDS = [
    "0", "1", "(-1)", "2", "7", "255", "True", "False",
    "0.0", "1.5", "(-2.0)",
    "2j", "(1+2j)",
    "''", "'a'", "'abc'",
    "b''", "b'ab'",
    "()", "(1,)", "(1, 2)", "(1, 'a', 2.5)", "((1, 2), 3)",
    "None",
    "E.A", "IE.A", "IE.X", "EN.A", "EP.A",
    "int", "str", "E", "IE",
    "math",
]
WIDE_EXTRA = [
    "3", "(-4)", "10", "100", "(-255)", "0.5", "(-0.0)", "1e10", "2.5", "0j", "(-1j)",
    "'ab'", "'1'", "' '", "'A'", "'%d'", "b'a'", "b'\\x00'", "b'abc'",
    "(0,)", "(1, 2, 3)", "('a',)", "(None,)", "(1, (2,))", "((),)", "(1.5, 2j)",
    "E.B", "FL.R", "FL.W",
    "bool", "float", "tuple", "type", "object", "enum.Enum", "EN", "FL",
    "enum", "types",
]
BINOPS = ["+", "-", "*", "/", "//", "%", "**", "<<", ">>", "&", "|", "^", "@"]
DUNDER = {"+": "add", "-": "sub", "*": "mul", "/": "truediv", "//": "floordiv", "%": "mod", "**": "pow", "<<": "lshift",
          ">>": "rshift", "&": "and", "|": "or", "^": "xor", "@": "matmul"}
UNOPS = ["-", "+", "~"]
ATTRS = ["real", "imag", "numerator", "bit_length", "upper", "decode", "count", "index", "name", "value", "pi", "sqrt",
         "A", "B", "X", "__class__", "__doc__", "__name__", "__len__", "__add__", "called",
         "nope", "foo", "_x", "__nope__", "Count"]
INDICES = ["(-4)", "(-3)", "(-2)", "(-1)", "0", "1", "2", "3", "4", "True", "'a'", "None", "1.5", "'A'", "IE.X"]
# the default value of pyanalyze's IgnoredEndOfReference option in the pinned tree (name_check_visitor.py:496);
# hard-coded on purpose: it defines the exception class, it must not follow the tree
IGNORED_END = {"call_count", "assert_has_calls", "reset_mock", "called", "assert_called_once", "assert_called_once_with",
               "assert_called_with", "count", "assert_any_call", "assert_not_called"}
DIAG_CODES = {"unsupported_operation", "undefined_attribute", "incompatible_call", "incompatible_argument", "not_callable"}


def oracle_ns():
    ns = {"__name__": "<m>"}
    exec(PRELUDE, ns)
    return ns


def tag_of(v):
    if v is None:
        return "none"
    if isinstance(v, _enum.Enum):
        return "intenum" if isinstance(v, int) else "enum"
    if isinstance(v, type):
        # a class whose *instances* support __index__ (int, bool, IntEnum classes)
        return "clsidx" if "__index__" in dir(v) and v is not type and not issubclass(v, type) and _inst_index(v) else "cls"
    if isinstance(v, types.ModuleType):
        return "module"
    if v is Ellipsis:
        return "ellipsis"
    if callable(v):
        return "func"
    t = type(v)
    return {bool: "bool", int: "int", float: "float", complex: "complex", str: "str", bytes: "bytes", tuple: "tuple",
            list: "list", dict: "dict", set: "set", frozenset: "set"}[t]


def _inst_index(cls):
    for k in cls.__mro__:
        if "__index__" in k.__dict__:
            return True
    return False


def canon(v, depth=0):
    """(type name, exact value text); equal pairs <=> equal in type and value for the universe's types."""
    t = type(v)
    if v is None:
        return ("NoneType", "None")
    if t is bool or t is int:
        return (t.__name__, repr(v))
    if t is float:
        return ("float", v.hex() if v == v else "nan")
    if t is complex:
        return ("complex", canon(v.real)[1] + "," + canon(v.imag)[1])
    if t is str:
        return ("str", pya.norm(repr(v)))
    if t is bytes:
        return ("bytes", repr(v))
    if t is tuple and depth < 5:
        return ("tuple", "(" + ";".join("%s:%s" % canon(x, depth + 1) for x in v) + ")")
    if isinstance(v, _enum.Enum):
        return ("enum:" + t.__name__, str(v.name))
    if isinstance(v, type):
        return ("type", _clsname(v))
    if isinstance(v, types.ModuleType):
        return ("module", v.__name__)
    if isinstance(v, (types.BuiltinFunctionType, types.MethodWrapperType)):
        s = getattr(v, "__self__", None)
        if s is None or isinstance(s, types.ModuleType):
            return ("builtin", getattr(s, "__name__", "") + "." + v.__name__)
        cs = canon(s, depth + 1)
        return ("bound", "%s:%s.%s" % (cs[0], cs[1], v.__name__))
    if isinstance(v, (types.MethodDescriptorType, types.WrapperDescriptorType, types.GetSetDescriptorType,
                      types.MemberDescriptorType, types.ClassMethodDescriptorType)):
        return (t.__name__, v.__objclass__.__name__ + "." + v.__name__)
    if isinstance(v, types.FunctionType):
        return ("function", v.__qualname__)
    if isinstance(v, types.MethodType):
        cs = canon(v.__self__, depth + 1)
        return ("method", "%s:%s.%s" % (cs[0], cs[1], getattr(v.__func__, "__qualname__", "?")))
    if isinstance(v, types.UnionType):
        return ("UnionType", "|".join("%s:%s" % canon(a, depth + 1) for a in v.__args__))
    if isinstance(v, types.GenericAlias):
        return ("GenericAlias", "%s[%s]" % (_clsname(v.__origin__), ",".join("%s:%s" % canon(a, depth + 1) for a in v.__args__)))
    return ("opaque:" + t.__name__, "?")


def _clsname(c):
    m = getattr(c, "__module__", "")
    if m == "builtins":
        return c.__qualname__
    if m in ("enum", "math", "types", "typing", "collections.abc"):
        return m + "." + c.__qualname__
    return "<m>." + c.__qualname__


# ------------------------------------------------------------------------------------------------ row construction
class Interner:
    def __init__(self):
        self.ids = {}

    def __call__(self, key):
        i = self.ids.get(key)
        if i is None:
            i = self.ids[key] = len(self.ids) + 1
        return i


def make_cases(operands, binary=True):
    """(kind, op, a_src, b_src, expr) for the whole universe; `%` with a str/bytes left operand is left to C17."""
    out = []
    if binary:
        for op in BINOPS:
            for a in operands:
                for b in operands:
                    out.append(("bin", op, a, b))
    for op in UNOPS:
        for a in operands:
            out.append(("un", op, a, ""))
    for a in operands:
        for n in ATTRS:
            out.append(("attr", n, a, ""))
    for a in operands:
        for i in INDICES:
            out.append(("sub", i, a, ""))
    return out


def expr_of(case):
    kind, op, a, b = case
    if kind == "bin":
        return "(%s) %s (%s)" % (a, op, b)
    if kind == "un":
        return "%s(%s)" % (op, a)
    if kind == "attr":
        return "%s.%s" % (a if _dotted(a) else "(%s)" % a, op)
    return "(%s)[%s]" % (a, op)


def _dotted(src):
    """a dotted name path (`E.A`, `math`): what pyanalyze's get_attribute_path recognises"""
    import keyword
    return all(p.isidentifier() and not keyword.iskeyword(p) for p in src.split("."))


def in_scope(case, ns):
    kind, op, a, b = case
    if kind == "bin" and op == "%":
        return not isinstance(eval(a, ns), (str, bytes))
    return True


def cpy_outcome(ns, expr):
    with warnings.catch_warnings():
        warnings.simplefilter("ignore")
        try:
            v = eval(expr, ns)
        except TypeError:
            return (1, None)
        except AttributeError:
            return (2, None)
        except IndexError:
            return (3, None)
        except Exception as e:
            return (4, type(e).__name__)
    return (0, canon(v))


def side_fact(x, y, meth):
    """(exists, rt) for type(x).<meth>(x, y): rt 0 NotImplemented, 1 raises TypeError, 2 raises other, 3 value."""
    f = type_lookup(type(x), meth)
    if f is None:
        return 0, 0, None
    try:
        v = f.__get__(x, type(x))(y)
    except TypeError:
        return 1, 1, None
    except Exception:
        return 1, 2, None
    if v is NotImplemented:
        return 1, 0, None
    return 1, 3, canon(v)


def type_lookup(t, name):
    """_PyType_Lookup: the MRO's own dicts, never the metaclass (getattr(NoneType, '__or__') would find type.__or__)."""
    for k in t.__mro__:
        if name in k.__dict__:
            return k.__dict__[name]
    return None


def bin_flags(ns, case):
    kind, op, a, b = case
    l, r = eval(a, ns), eval(b, ns)
    m, rm = "__%s__" % DUNDER[op], "__r%s__" % DUNDER[op]
    same = type(l) is type(r)
    # CPython asks the right operand's reflected method first when type(r) is a proper subclass of type(l) that
    # overrides it, and also when the left dunder is a sequence slot (sq_concat / sq_repeat of str, bytes, tuple):
    # those are consulted only after the number slots of both operands
    lseq = op in ("+", "*") and type(l) in (str, bytes, tuple)
    rprio = (not same) and ((issubclass(type(r), type(l)) and type_lookup(type(r), rm) is not type_lookup(type(l), rm)) or lseq)
    le, lrt, lv = side_fact(l, r, m)
    re_, rrt, rv = side_fact(r, l, rm)
    fl = int(same) + 2 * int(rprio) + 4 * le + 8 * re_ + 16 * lrt + 64 * rrt
    return fl, (lv, rv)


def attr_flags(ns, case):
    kind, name, a, _ = case
    return attr_fact_bits(eval(a, ns), name, a)


def attr_fact_bits(o, name, src):
    """CPython-derived input facts of one attribute access (bit mask; legend in Spec/OpsSpec.lean):
    0 name in the pinned IgnoredEndOfReference default   1 operand written as a dotted name
    2 class operand, static lookup along its own MRO finds a property-like descriptor
    3 class operand with a closed attribute set          4 hooked by pyanalyze's default KnownAttributeHook (sys.modules)
    5 operand is a class   6 operand is a module   7 module operand and the name is in its __annotations__
    8 type(operand) has __getattr__   9 class operand and the name is in the __dict__ of a class of its MRO
    10 class operand that is an Enum subclass   11 class operand, the stubs of its MRO declare the name as variable/property"""
    import inspect
    fl = int(name in IGNORED_END) + 2 * int(_dotted(src))
    if isinstance(o, type):
        fl += 32
        try:
            st = inspect.getattr_static(o, name)
        except AttributeError:
            st = None
        own = any(name in k.__dict__ for k in o.__mro__)
        if own:
            fl += 512
        if own and isinstance(st, (types.GetSetDescriptorType, types.MemberDescriptorType, property, types.DynamicClassAttribute)):
            fl += 4
        if closed_class(o):
            fl += 8
        if issubclass(o, _enum.Enum):
            fl += 1024
    if isinstance(o, types.ModuleType):
        fl += 64
        if name in getattr(o, "__annotations__", {}):
            fl += 128
        if o is sys and name == "modules":
            fl += 16
    if type_lookup(type(o), "__getattr__") is not None:
        fl += 256
    if isinstance(o, type) and stub_declares(o, name):
        fl += 2048
    return fl


_RESOLVER = []


def stub_declares(cls, name):
    """typeshed (through typeshed_client, the stub data pyanalyze also reads) declares `name` in the body of a class of
    the MRO as a variable (`x: T`) or a property. Stubs are input data, not pyanalyze code."""
    import ast as _ast
    import typeshed_client
    if not _RESOLVER:
        _RESOLVER.append(typeshed_client.Resolver())
    for k in cls.__mro__:
        try:
            info = _RESOLVER[0].get_fully_qualified_name("%s.%s" % (k.__module__, k.__qualname__))
        except Exception:
            continue
        kids = getattr(info, "child_nodes", None)
        if kids and name in kids:
            node = kids[name].ast
            if isinstance(node, _ast.AnnAssign):
                return True
            if isinstance(node, typeshed_client.OverloadedName):
                return False
            if isinstance(node, (_ast.FunctionDef, _ast.AsyncFunctionDef)):
                return any(w in _ast.unparse(d) for d in node.decorator_list
                           for w in ("property", "_magic_enum_attr", "DynamicClassAttribute"))
            return False
    return False


def closed_class(o):
    """The class object's attribute set is closed (described by stubs or by construction): enums, tuple subclasses,
    dataclasses, and builtin / stdlib classes other than the dynamic ones (type, super, function). User classes
    without stubs and `type` itself may grow attributes."""
    import dataclasses
    if issubclass(o, (_enum.Enum, tuple)) or dataclasses.is_dataclass(o):
        return True
    if o in (type, super, types.FunctionType) or hasattr(o, "__getattr__"):
        return False
    return o.__module__ in ("builtins", "types", "enum", "collections", "collections.abc", "typing")


def pya_verdicts(exprs, batch=1500, want_module=False):
    """[(p, canon-or-None, codes)] for each expression: p 0 literal, 1 non-literal, 2 diagnosed, 3 unexpected code."""
    from pyanalyze.value import AnnotatedValue, KnownValue
    res = []
    for b0 in range(0, len(exprs), batch):
        chunk = exprs[b0:b0 + batch]
        src = PRELUDE + "def f() -> None:\n"
        base = src.count("\n")
        src += "".join("    reveal_type(%s)\n" % e for e in chunk)
        with warnings.catch_warnings():
            warnings.simplefilter("ignore")
            fails, tree, mod = pya.check_source(src, annotate=True)
        by = {}
        for f in fails:
            if f["code"] != "reveal_type" and f["lineno"] is not None:
                by.setdefault(f["lineno"], set()).add(f["code"])
        fn = tree.body[-1]
        assert len(fn.body) == len(chunk)
        for i, st in enumerate(fn.body):
            codes = sorted(by.get(base + 1 + i, ()))
            iv = getattr(st.value.args[0], "inferred_value", None)
            while isinstance(iv, AnnotatedValue):
                iv = iv.value
            if codes:
                res.append((2 if set(codes) <= DIAG_CODES else 3, None, codes))
            elif isinstance(iv, KnownValue):
                try:
                    res.append((0, canon(iv.val), codes))
                except Exception:
                    res.append((0, ("opaque:?", "?"), codes))
            else:
                res.append((1, None, codes))
    if want_module:
        assert len(exprs) <= batch
        return res, mod
    return res


def build_rows(ns, operands, cases, intern_t, intern_v, with_impl=True):
    """-> list of dict(case, expr, row(tuple of 13 ints), cpy, pya, sidevals)."""
    idx = {s: i + 1 for i, s in enumerate(operands)}
    tags = {s: TAGS[tag_of(eval(s, ns))] for s in operands}
    opid = {("bin", o): i for i, o in enumerate(BINOPS)}
    opid.update({("un", o): i for i, o in enumerate(UNOPS)})
    opid.update({("attr", o): i for i, o in enumerate(ATTRS)})
    opid.update({("sub", o): i for i, o in enumerate(INDICES)})
    kid = {"bin": 0, "un": 1, "attr": 2, "sub": 3}
    cases = [c for c in cases if in_scope(c, ns)]
    exprs = [expr_of(c) for c in cases]
    pv = pya_verdicts(exprs) if with_impl else [(1, None, [])] * len(cases)
    out = []
    for case, expr, (p, plit, codes) in zip(cases, exprs, pv):
        kind, op, a, b = case
        c, cval = cpy_outcome(ns, expr)
        fl, sidevals = 0, None
        if kind == "bin":
            fl, sidevals = bin_flags(ns, case)
        elif kind == "attr":
            fl = attr_flags(ns, case)
        ct = cv = pt = pvv = 0
        if c == 0:
            ct, cv = intern_t(cval[0]), intern_v(cval)
        if p == 0:
            pt, pvv = intern_t(plit[0]), intern_v(plit)
        row = (kid[kind], opid.get((kind, op), 999), idx[a], idx.get(b, 0), tags[a], tags.get(b, 0), fl, c, ct, cv, p, pt, pvv)
        out.append({"case": case, "expr": expr, "row": row, "cpy": (c, cval), "pya": (p, plit, codes), "sidevals": sidevals})
    return out


# ------------------------------------------------------------------------------------------------ attribute table
# every operand class of the universe x every attribute name any of them has (+ names nobody has)
ATTR_OPERANDS = [
    "0", "1", "(-1)", "255", "True", "False", "0.0", "1.5", "2j",
    "''", "'abc'", "b''", "b'ab'",
    "()", "(1, 2)", "((1, 2), 3)", "[1, 2]", "{'a': 1}", "{1, 2}",
    "None", "...",
    "E.A", "IE.A", "EN.A", "EP.A", "FL.R", "IF.R",
    "int", "str", "bool", "float", "tuple", "list", "dict", "type", "object", "E", "IE", "FL", "IF", "K", "enum.Enum",
    "math", "enum", "types", "os.path", "sys",
    "fn", "len", "math.sqrt", "K.m",
]
ATTR_GROUPS = {"int": "num", "bool": "num", "float": "num", "complex": "num", "str": "text", "bytes": "text",
               "tuple": "seq", "list": "seq", "dict": "seq", "set": "seq", "none": "single", "ellipsis": "single",
               "enum": "member", "intenum": "member", "cls": "cls", "clsidx": "cls", "module": "module", "func": "func"}
ATTR_NOWHERE = ["nope", "foo", "_x", "__nope__", "Count", "__wrapped__", "__members_", "called", "call_count"]
# names pyanalyze, typeshed or the data model treat specially: always checked on every operand, also in the quick tier
ATTR_SPECIAL = ["__dict__", "__class__", "__doc__", "__slots__", "__module__", "__name__", "__qualname__", "__weakref__",
                "__annotations__", "__wrapped__", "__members__", "__bases__", "__mro__", "__self__", "__func__", "__file__",
                "__all__", "__getattr__", "__call__", "__hash__", "__abstractmethods__", "__match_args__", "__objclass__",
                "name", "value", "_value_", "_name_", "real", "imag", "count", "nope"]
NATTR_PARTS = 8
# sys holds interpreter state (stdout is redirected while pyanalyze runs, ...): only its stable attributes are compared
_STABLE = (int, float, str, bytes, bool, tuple, type(None), types.BuiltinFunctionType, types.ModuleType)


def hid(kind, key, bits=40):
    """content-derived id (stable across runs and independent of the order rows are produced in)"""
    return int(hashlib.sha1(("%s\0%s" % (kind, key)).encode("utf8", "backslashreplace")).hexdigest()[:bits // 4], 16) + 1


def attr_universe():
    """(operands, names): names = union of dir() over the operands + names nobody has. CPython only."""
    ns = oracle_ns()
    names = set(ATTR_NOWHERE) | set(ATTR_SPECIAL)
    for a in ATTR_OPERANDS:
        names |= set(dir(eval(a, ns)))
    names = sorted(n for n in names if n.isidentifier())
    return ATTR_OPERANDS, names


def attr_pair_in_scope(o, name):
    if o is sys:
        try:
            v = getattr(o, name)
        except Exception:
            return True
        return (name == "modules" or isinstance(v, _STABLE)) and name not in ("argv", "path", "last_traceback", "last_value", "last_type", "last_exc")
    return True


def attr_entries(pairs, names):
    """pairs: [(operand index, name index)] -> entries like build_rows (row ids are content hashes). The CPython side is
    evaluated in the very module pyanalyze imported, so __module__/__globals__-like values are the same objects."""
    out = []
    B = 1500
    for b0 in range(0, len(pairs), B):
        chunk = pairs[b0:b0 + B]
        cases = [("attr", names[ni], ATTR_OPERANDS[ai], "") for ai, ni in chunk]
        exprs = [expr_of(c) for c in cases]
        verd, mod = pya_verdicts(exprs, batch=B, want_module=True)
        ns = mod.__dict__
        for (ai, ni), case, expr, (p, plit, codes) in zip(chunk, cases, exprs, verd):
            o = eval(case[2], ns)
            if not attr_pair_in_scope(o, case[1]):
                continue
            c, cval = cpy_outcome(ns, expr)
            fl = attr_fact_bits(o, case[1], case[2])
            ct = cv = pt = pvv = 0
            if c == 0:
                ct, cv = hid("t", cval[0], 28), hid("v", "%s\0%s" % cval)
            if p == 0:
                pt, pvv = hid("t", plit[0], 28), hid("v", "%s\0%s" % plit)
            row = (2, ni, ai + 1, 0, TAGS[tag_of(o)], 0, fl, c, ct, cv, p, pt, pvv)
            out.append({"case": case, "expr": expr, "row": row, "cpy": (c, cval), "pya": (p, plit, codes), "sidevals": None})
    return out


def attr_universe_key(names):
    return hashlib.sha1(("|".join(ATTR_OPERANDS) + "#" + "|".join(names) + "#" + PRELUDE).encode()).hexdigest()[:16]


def attr_stored(names):
    """{(operand id, name id): row} parsed from the generated files, None if absent or built for another universe."""
    try:
        top = open(os.path.join(GEN, "AttrTables.lean")).read()
    except OSError:
        return None
    if ("universe %s" % attr_universe_key(names)) not in top:
        return None
    rows = {}
    for part in range(NATTR_PARTS):
        try:
            text = open(os.path.join(GEN, "AttrTables%d.lean" % part)).read()
        except OSError:
            return None
        for m in re.finditer(r"^  r ((?:\d+ ){12}\d+)", text, re.M):
            row = tuple(int(x) for x in m.group(1).split())
            rows[(row[2], row[1])] = row
    return rows


def attr_sample_pairs(rng, names, per_group):
    """quick tier: every special name on every operand + for every other name `per_group` operands of each kind group"""
    ns = oracle_ns()
    groups = {}
    for ai, a in enumerate(ATTR_OPERANDS):
        groups.setdefault(ATTR_GROUPS[tag_of(eval(a, ns))], []).append(ai)
    special = set(ATTR_SPECIAL)
    pairs = []
    for ni, n in enumerate(names):
        if n in special:
            pairs += [(ai, ni) for ai in range(len(ATTR_OPERANDS))]
        else:
            for g in sorted(groups):
                pairs += [(ai, ni) for ai in rng.sample(groups[g], min(per_group, len(groups[g])))]
    return pairs


def write_attr_tables(entries, names):
    n = len(entries)
    per = (n + NATTR_PARTS - 1) // NATTR_PARTS
    for part in range(NATTR_PARTS):
        chunk = entries[part * per:(part + 1) * per]
        lines = ["import PyaModel.Spec.OpsSpec",
                 "/-! GENERATED by harness/props/c19.py translate() from the live pyanalyze tree and CPython — do not edit.",
                 "Part %d of the C19 attribute table. Legend: Generated/AttrTables.lean. -/" % part,
                 "namespace Pya.C19", ""]
        subs = []
        for s0 in range(0, len(chunk), 400):
            name = "attrTable%d_%d" % (part, s0 // 400)
            subs.append(name)
            body = ",\n".join("  r " + " ".join(str(x) for x in e["row"]) for e in chunk[s0:s0 + 400])
            lines.append("def %s : List Row := [\n%s]\n" % (name, body))
        lines.append("def attrTable%d : List Row := %s\n" % (part, " ++ ".join(subs) if subs else "[]"))
        lines.append("theorem attrTable%d_agree : attrTable%d.all (fun x => D19 x || agree x) = true := by decide +kernel" % (part, part))
        lines.append("theorem attrTable%d_conforms : attrTable%d.all conforms = true := by decide +kernel" % (part, part))
        lines += ["", "end Pya.C19", ""]
        lean.write_if_changed(os.path.join(GEN, "AttrTables%d.lean" % part), "\n".join(lines))
    parts = ["attrTable%d" % i for i in range(NATTR_PARTS)]
    top = ["import PyaModel.Generated.AttrTables%d" % i for i in range(NATTR_PARTS)]
    top += ["/-! GENERATED by harness/props/c19.py translate() — do not edit.",
            "The C19 attribute table: %d rows = every operand below x every attribute name any of them has (dir()) plus names" % n,
            "nobody has; CPython's getattr outcome and pyanalyze's verdict, both obtained from the live tree. universe %s" % attr_universe_key(names),
            "Rows: Spec/OpsSpec.lean `Row` with k = 2, op = name id, a = operand id; type/value ids are content hashes.",
            "  operands: " + ", ".join("%d=%s" % (i + 1, s_) for i, s_ in enumerate(ATTR_OPERANDS)),
            "  names: " + ", ".join("%d=%s" % (i, s_) for i, s_ in enumerate(names)),
            "-/", "namespace Pya.C19", ""]
    top.append("def attrTable : List Row := %s\n" % " ++ ".join(parts))
    for nm, pred in (("agree", "(fun x => D19 x || agree x)"), ("conforms", "conforms")):
        top.append("theorem attrTable_%s_all : attrTable.all %s = true := by\n  simp only [attrTable, List.all_append, Bool.and_eq_true]\n  exact %s\n" % (
            nm, pred, _and_tree(["attrTable%d_%s" % (i, nm) for i in range(NATTR_PARTS)])))
    top += ["end Pya.C19", ""]
    lean.write_if_changed(os.path.join(GEN, "AttrTables.lean"), "\n".join(top))


def translate_attr(ctx):
    """Full regeneration in the thorough tier (and whenever the stored table is missing, was built for another universe,
    or a re-computed row differs from it); otherwise (quick) a seeded, stratified sample of rows + every special name on
    every operand is recomputed from the live tree and must equal the stored rows."""
    _, names = attr_universe()
    stored = None if ctx.big() else attr_stored(names)
    entries = None
    if stored is not None:
        sample = attr_entries(attr_sample_pairs(ctx.rng, names, 1), names)
        diff = [e for e in sample if stored.get((e["row"][2], e["row"][1])) != e["row"]]
        if diff:
            ctx.notes.append("attribute table: %d of %d re-computed rows differ from the stored table (e.g. %s); regenerating all of it"
                             % (len(diff), len(sample), diff[0]["expr"]))
        else:
            entries = sample
            ctx.extra["attr_table"] = "stored table confirmed on %d re-computed rows (of %d)" % (len(sample), len(stored))
    if entries is None:
        pairs = [(ai, ni) for ni in range(len(names)) for ai in range(len(ATTR_OPERANDS))]
        entries = attr_entries(pairs, names)
        write_attr_tables(entries, names)
        ctx.extra["attr_table"] = "regenerated, %d rows (%d operands x %d names)" % (len(entries), len(ATTR_OPERANDS), len(names))
    _STATE["attr_rows"] = entries


# Python mirror of Spec/OpsSpec.lean `agree` (cross-checked against the Lean driver in stream rowcheck)
def py_agree(row):
    k, op, a, b, ta, tb, fl, c, ct, cv, p, pt, pv = row
    if c == 0:
        return p == 1 or (p == 0 and pt == ct and pv == cv)
    if c in (1, 2):
        return p == 2
    if c == 3 and k == 3 and ta == 7:
        return p == 2
    return True


# ------------------------------------------------------------------------------------------------ translate
_STATE = {}
NPARTS = 8
GEN = os.path.join(lean.LEAN, "PyaModel", "Generated")


def quick_table():
    if "rows" not in _STATE:
        ns = oracle_ns()
        it, iv = Interner(), Interner()
        _STATE["ns"], _STATE["it"], _STATE["iv"] = ns, it, iv
        _STATE["rows"] = build_rows(ns, QUICK_OPERANDS, make_cases(QUICK_OPERANDS), it, iv)
    return _STATE["rows"]


def translate(ctx):
    rows = quick_table()
    n = len(rows)
    per = (n + NPARTS - 1) // NPARTS
    for part in range(NPARTS):
        chunk = rows[part * per:(part + 1) * per]
        lines = ["import PyaModel.Spec.OpsSpec",
                 "/-! GENERATED by harness/props/c19.py translate() from the live pyanalyze tree and CPython — do not edit.",
                 "Part %d of the C19 operation table (rows %d‥%d). Legend: Generated/OpTables.lean. -/" % (part, part * per, part * per + len(chunk) - 1),
                 "namespace Pya.C19", ""]
        subs = []
        for s0 in range(0, len(chunk), 400):
            name = "opTable%d_%d" % (part, s0 // 400)
            subs.append(name)
            body = ",\n".join("  r " + " ".join(str(x) for x in e["row"]) for e in chunk[s0:s0 + 400])
            lines.append("def %s : List Row := [\n%s]\n" % (name, body))
        lines.append("def opTable%d : List Row := %s\n" % (part, " ++ ".join(subs) if subs else "[]"))
        lines.append("theorem opTable%d_agree : opTable%d.all (fun x => D19 x || agree x) = true := by decide +kernel" % (part, part))
        lines.append("theorem opTable%d_conforms : opTable%d.all conforms = true := by decide +kernel" % (part, part))
        lines.append("theorem opTable%d_spec : opTable%d.all specMatches = true := by decide +kernel" % (part, part))
        lines += ["", "end Pya.C19", ""]
        lean.write_if_changed(os.path.join(GEN, "OpTables%d.lean" % part), "\n".join(lines))
    parts = ["opTable%d" % i for i in range(NPARTS)]
    legend = ["operands: " + ", ".join("%d=%s" % (i + 1, s) for i, s in enumerate(QUICK_OPERANDS)),
              "binary ops: " + ", ".join("%d=%s" % (i, s) for i, s in enumerate(BINOPS)),
              "unary ops: " + ", ".join("%d=%s" % (i, s) for i, s in enumerate(UNOPS)),
              "attribute names: " + ", ".join("%d=%s" % (i, s) for i, s in enumerate(ATTRS)),
              "indices: " + ", ".join("%d=%s" % (i, s) for i, s in enumerate(INDICES)),
              "type ids: " + ", ".join("%d=%s" % (i, k) for k, i in _STATE["it"].ids.items()),
              "value ids (type, exact value) are interned in first-occurrence order; %d distinct values; a few: " % len(_STATE["iv"].ids)
              + ", ".join("%d=%s:%s" % (i, k[0], k[1][:20].replace("-/", "- /")) for k, i in list(_STATE["iv"].ids.items())[:40])]
    top = ["import PyaModel.Generated.OpTables%d" % i for i in range(NPARTS)]
    top += ["/-! GENERATED by harness/props/c19.py translate() — do not edit.",
            "The C19 operation table: %d rows = the whole quick literal universe, both outcomes obtained on this run." % n,
            "Row format: Spec/OpsSpec.lean `Row`. Legend:"] + ["  " + l for l in legend] + ["-/", "namespace Pya.C19", ""]
    top.append("def opTable : List Row := %s\n" % " ++ ".join(parts))
    for nm, pred in (("agree", "(fun x => D19 x || agree x)"), ("conforms", "conforms"), ("spec", "specMatches")):
        top.append("theorem opTable_%s_all : opTable.all %s = true := by\n  simp only [opTable, List.all_append, Bool.and_eq_true]\n  exact %s\n" % (
            nm, pred, _and_tree(["opTable%d_%s" % (i, nm) for i in range(NPARTS)])))
    top.append("theorem opTable_length : opTable.length = %d := by\n  simp only [opTable, List.length_append, %s]\n  decide +kernel\n" % (
        n, ", ".join(parts)))
    top += ["end Pya.C19", ""]
    lean.write_if_changed(os.path.join(GEN, "OpTables.lean"), "\n".join(top))
    ctx.extra["table_rows"] = n
    translate_attr(ctx)


def _and_tree(names):
    # List.all_append + Bool.and_eq_true turns ((a ++ b) ++ c).all p = true into ((_ ∧ _) ∧ _)
    t = names[0]
    for nm in names[1:]:
        t = "⟨%s, %s⟩" % (t, nm)
    return t


# ------------------------------------------------------------------------------------------------ random literals
def random_literal(rng, depth=0):
    r = rng.random()
    if r < 0.3:
        v = rng.randint(-300, 300)
        return "(%d)" % v if v < 0 else str(v)
    if r < 0.36:
        return rng.choice(["True", "False"])
    if r < 0.46:
        v = rng.choice([0.25, 0.5, 1.0, 2.0, 3.5, 100.0, 1e-3, 7.0]) * rng.choice([1, -1])
        return "(%r)" % v
    if r < 0.5:
        return "(%d+%dj)" % (rng.randint(-3, 3), rng.randint(-3, 3))
    if r < 0.64:
        return repr("".join(rng.choice("ab %dA1") for _ in range(rng.randint(0, 4))))
    if r < 0.72:
        return repr(bytes(rng.choice(b"ab\x00%") for _ in range(rng.randint(0, 3))))
    if r < 0.9 and depth < 2:
        n = rng.randint(0, 4)
        items = [random_literal(rng, depth + 1) for _ in range(n)]
        return "(" + ", ".join(items) + ("," if n == 1 else "") + ")"
    if r < 0.93:
        return "None"
    return rng.choice(["E.A", "E.B", "IE.A", "IE.X", "EN.A", "EP.A", "FL.R", "int", "str", "E", "IE", "math", "bool", "float"])


def random_cases(rng, n):
    cases, operands = [], []
    for _ in range(n):
        a = random_literal(rng)
        operands.append(a)
        r = rng.random()
        if r < 0.6:
            b = random_literal(rng)
            operands.append(b)
            cases.append(("bin", rng.choice(BINOPS), a, b))
        elif r < 0.7:
            cases.append(("un", rng.choice(UNOPS), a, ""))
        elif r < 0.85:
            cases.append(("attr", rng.choice(ATTRS), a, ""))
        else:
            cases.append(("sub", rng.choice(INDICES), a, ""))
    return list(dict.fromkeys(operands)), cases


# ------------------------------------------------------------------------------------------------ table evaluation
def type_src(v):
    """Source text naming type(v) inside the generated module."""
    t = type(v)
    if v is None:
        return "NoneType"
    if isinstance(v, types.ModuleType):
        return "ModuleType"
    if isinstance(v, _enum.Enum):
        return t.__name__
    if isinstance(v, type):
        return "type" if t is type else "enum.EnumType"
    return t.__name__


def unit_side_facts(ns, entries):
    """For binary rows: signature verdict + declared-Any of `T.__op__(l, r)` and `T'.__rop__(r, l)` as checked by
    pyanalyze on an explicit call expression (no dunder protocol involved)."""
    exprs, where = [], []
    for n, e in enumerate(entries):
        kind, op, a, b = e["case"]
        l, r = eval(a, ns), eval(b, ns)
        m, rm = "__%s__" % DUNDER[op], "__r%s__" % DUNDER[op]
        fl = e["row"][6]
        if fl & 4:
            exprs.append("%s.%s(%s, %s)" % (type_src(l), m, a, b))
            where.append((n, "l"))
        if fl & 8:
            exprs.append("%s.%s(%s, %s)" % (type_src(r), rm, b, a))
            where.append((n, "r"))
    res = {}
    if exprs:
        from pyanalyze.value import AnyValue
        verd = _pya_raw(exprs)
        for (n, side), (codes, iv) in zip(where, verd):
            res[(n, side)] = (0 if codes else 1, 1 if isinstance(iv, AnyValue) else 0)
    return res


def _pya_raw(exprs, batch=1500):
    from pyanalyze.value import AnnotatedValue
    out = []
    for b0 in range(0, len(exprs), batch):
        chunk = exprs[b0:b0 + batch]
        src = PRELUDE + "def f() -> None:\n"
        base = src.count("\n")
        src += "".join("    reveal_type(%s)\n" % e for e in chunk)
        with warnings.catch_warnings():
            warnings.simplefilter("ignore")
            fails, tree, _ = pya.check_source(src, annotate=True)
        by = {}
        for f in fails:
            if f["code"] != "reveal_type" and f["lineno"] is not None:
                by.setdefault(f["lineno"], set()).add(f["code"])
        for i, st in enumerate(tree.body[-1].body):
            iv = getattr(st.value.args[0], "inferred_value", None)
            while isinstance(iv, AnnotatedValue):
                iv = iv.value
            out.append((sorted(by.get(base + 1 + i, ())), iv))
    return out


def attr_unit_facts(ns_impl, entries):
    """_has_only_known_attributes / __getattr__ facts computed by pyanalyze's own helpers on the real objects."""
    from pyanalyze import name_check_visitor as N
    checker = pya.make_checker()
    out = []
    for e in entries:
        o = eval(e["case"][2], ns_impl)
        try:
            ok = bool(N._has_only_known_attributes(checker.ts_finder, o))
            hg = bool(N._static_hasattr(o, "__getattr__"))
            out.append((int(ok), int(hg)))
        except Exception as ex:
            out.append("EXC:%s" % type(ex).__name__)
    return out


def evaluate_rows(ctx, entries, ns, tag, with_model=True, binop_sample=None):
    """Correspondence + property search over table rows."""
    model = None
    if with_model:
        model = lean.run_driver("C19", ["T " + " ".join(str(x) for x in e["row"]) for e in entries])
    # binop protocol stream on a seeded sample of binary rows (+ every binary row that fails the property)
    bins = [i for i, e in enumerate(entries) if e["case"][0] == "bin"]
    failing = [i for i in bins if not py_agree(entries[i]["row"])]
    if binop_sample is None:
        binop_sample = len(bins)
    pick = sorted(set(failing) | set(ctx.rng.sample(bins, min(binop_sample, len(bins)))))
    unit = unit_side_facts(ns, [entries[i] for i in pick])
    blines, bidx = [], []
    for n, i in enumerate(pick):
        fl = entries[i]["row"][6]
        ls, la = unit.get((n, "l"), (1, 0))
        rs, ra = unit.get((n, "r"), (1, 0))
        blines.append("B %d %d %d %d %d %d %d %d %d %d" % (fl & 1, (fl >> 1) & 1, (fl >> 2) & 1, ls, la, (fl >> 4) & 3,
                                                          (fl >> 3) & 1, rs, ra, (fl >> 6) & 3))
        bidx.append(i)
    bmodel = lean.run_driver("C19", blines) if (with_model and blines) else None
    bin_conf = {}
    if bmodel:
        for i, line, out in zip(bidx, blines, bmodel):
            e = entries[i]
            parts = dict(x.split("=", 1) for x in out.split(" ") if "=" in x)
            p, plit, _ = e["pya"]
            lv, rv = e["sidevals"]
            want = parts.get("bin")
            if want == "report":
                ok = p in (2, 3)
            elif want == "left":
                ok = p == 0 and (lv is None or plit == lv)
            elif want == "right":
                ok = p == 0 and (rv is None or plit == rv)
            else:
                ok = p == 1
            ctx.corr("binop")
            ctx.tag("binop_" + str(want))
            bin_conf[i] = ok
            if not ok:
                ctx.disagree("binop", {"expr": e["expr"], "sides": line}, "pyanalyze p=%s lit=%s" % (p, plit), out)
    # attribute fallback stream: rows where CPython raises AttributeError and pyanalyze itself found nothing
    attrs = [i for i, e in enumerate(entries) if e["case"][0] == "attr" and e["row"][7] == 2
             and not (e["row"][6] & (4 | 2048 | 16 | 128)) and not ((e["row"][6] & 32) and (e["row"][6] & 512))]
    attr_conf = {}
    if with_model and attrs:
        facts = attr_unit_facts(ns, [entries[i] for i in attrs])
        alines = []
        for i, f in zip(attrs, facts):
            fl = entries[i]["row"][6]
            ign = int(bool(fl & 1) and bool(fl & 2))
            alines.append("A %d %d %d" % (f[0], f[1], ign) if not isinstance(f, str) else "A x")
        amodel = lean.run_driver("C19", alines)
        for i, f, out in zip(attrs, facts, amodel):
            e = entries[i]
            ctx.corr("attr")
            impl = "EXC" if isinstance(f, str) else ("diag=1" if e["pya"][0] in (2, 3) else "diag=0")
            attr_conf[i] = impl == out
            if impl != out:
                ctx.disagree("attr", {"expr": e["expr"], "facts": f}, impl, out)
    for i, e in enumerate(entries):
        row, case = e["row"], e["case"]
        c, p = row[7], row[10]
        ctx.count(1, **{tag + "_" + case[0]: 1, "cpy_" + ["value", "TypeError", "AttributeError", "IndexError", "other"][c]: 1,
                        "pya_" + ["literal", "nonliteral", "diagnosed", "othercode"][p]: 1})
        if c == 0 or p != 2:
            ctx.nontriv(e["expr"])
        if i % 1511 == 7:
            ctx.sample({"expr": e["expr"], "cpython": e["cpy"], "pyanalyze": e["pya"][:2], "row": " ".join(map(str, row)),
                        "lean": model[i] if model else None})
        ok = py_agree(row)
        dcls, conf = None, True
        if model is not None:
            parts = dict(x.split("=", 1) for x in model[i].split(" ") if "=" in x)
            ctx.corr("rowcheck")
            if parts.get("agree") != ("1" if ok else "0"):
                ctx.disagree("rowcheck", {"expr": e["expr"], "row": row}, "python agree=%s" % ok, model[i])
            if case[0] == "bin":
                ctx.corr("spec")
                if parts.get("spec") != "1":
                    ctx.disagree("spec", {"expr": e["expr"], "row": row}, "cpython outcome %s" % (e["cpy"],), model[i])
            ctx.corr("table")
            if parts.get("conf") != "1":
                # the implementation's verdict differs from the defect-including model on this row
                conf = False
                if ok:
                    ctx.disagree("table", {"expr": e["expr"], "row": row}, "pyanalyze p=%d" % p, model[i])
            d = parts.get("D")
            dcls = d if d not in (None, "-") else None
            if i in bin_conf:
                conf = conf and bin_conf[i]
            if i in attr_conf:
                conf = conf and attr_conf[i]
        if not ok:
            what = describe(e)
            ctx.candidate({"expr": e["expr"], "case": list(case), "row": list(row), "cpython": e["cpy"], "pyanalyze": e["pya"]},
                          what, cls=dcls, conforms=conf, stream="table")


def describe(e):
    c, cval = e["cpy"]
    p, plit, codes = e["pya"]
    cp = ["evaluates to %s" % (cval,), "raises TypeError", "raises AttributeError", "raises IndexError", "raises %s" % (cval,)][c]
    pp = ["infers the literal %s" % (plit,), "reports nothing (non-literal result)", "reports %s" % ",".join(codes),
          "reports %s" % ",".join(codes)][p]
    return "%s: CPython %s but pyanalyze %s" % (e["expr"], cp, pp)


# ------------------------------------------------------------------------------------------------ getitem (part A)
def gi_shapes(maxlen):
    out = []
    for n in range(maxlen + 1):
        for many in itertools.product([0, 1], repeat=n):
            out.append(tuple((i, m) for i, m in enumerate(many)))
    return out


def gi_random_shape(rng):
    n = rng.randint(1, 8)
    ms = []
    for i in range(n):
        cls = i if rng.random() < 0.7 else rng.randint(0, 9)
        ms.append((cls, 1 if rng.random() < 0.22 else 0))
    if rng.random() < 0.5 and not any(m for _, m in ms):
        j = rng.randrange(n)
        ms[j] = (ms[j][0], 1)
    return tuple(ms)


def gi_source(groups):
    """groups: list of (typ, shape, [keys]) -> module source: one function per group, one reveal_type per key."""
    src = [PRELUDE.rstrip("\n")]
    for g, (typ, shape, keys) in enumerate(groups):
        params = ", ".join(("b%d: list[C%d]" % (j, c)) if m else ("a%d: C%d" % (j, c)) for j, (c, m) in enumerate(shape))
        items = ", ".join(("*b%d" % j) if m else ("a%d" % j) for j, (c, m) in enumerate(shape))
        disp = ("(%s%s)" % (items, "," if len(shape) == 1 else "")) if typ == "t" else "[%s]" % items
        src.append("def g%d(%s) -> None:" % (g, params))
        src.append("    x = %s" % disp)
        for k in keys:
            src.append("    reveal_type(x[%d])" % k)
    return "\n".join(src) + "\n"


def gi_impl(groups):
    """{(group index, key): (codes on the line, revealed-type message)} from real pyanalyze."""
    import re
    res = {}
    B = 60
    for b0 in range(0, len(groups), B):
        src = gi_source(groups[b0:b0 + B])
        fails, _, _ = pya.check_source(src)
        by = {}
        for f in fails:
            by.setdefault(f["lineno"], []).append(f)
        cur_g = -1
        for n, text in enumerate(src.split("\n"), 1):
            m = re.match(r"def g(\d+)\(", text)
            if m:
                cur_g = int(m.group(1))
                continue
            m = re.match(r"    reveal_type\(x\[(-?\d+)\]\)", text)
            if m:
                fs = by.get(n, [])
                codes = sorted({f["code"] for f in fs if f["code"] != "reveal_type"})
                rev = [f["message"] for f in fs if f["code"] == "reveal_type"]
                res[(b0 + cur_g, int(m.group(1)))] = (codes, rev[0] if rev else "")
    return res


def gi_canon_impl(codes, rev):
    import re
    if codes:
        return "ERR" if codes == ["incompatible_call"] and "Any[error]" in rev else "CODES:" + ",".join(codes)
    m = re.match(r"Revealed type is '(.*)'$", rev)
    if not m:
        return "?" + rev
    t = m.group(1)
    if t in ("Any[unreachable]", "Never", "NoReturn"):
        return "{}"
    parts = t.split(" | ")
    ids = []
    for p_ in parts:
        mm = re.match(r"<mod>\.C(\d)$", p_)
        if not mm:
            return "?" + t
        ids.append(int(mm.group(1)))
    return "{" + ",".join(str(i) for i in sorted(set(ids))) + "}"


def gi_oracle(typ, shape, k):
    """CPython: the classes x[k] can have over all expansions (0..3 copies of each starred member),
    whether some / all expansions raise IndexError."""
    many = [j for j, (c, m) in enumerate(shape) if m]
    if len(many) > 3:
        combos = [tuple(n for _ in many) for n in range(4)] + [tuple((j + n) % 4 for j in range(len(many))) for n in range(4)]
    else:
        combos = list(itertools.product(range(4), repeat=len(many)))
    classes, n_err, n_ok = set(), 0, 0
    for combo in combos:
        xs, ci = [], 0
        for c, m in shape:
            if m:
                xs += [c] * combo[ci]
                ci += 1
            else:
                xs.append(c)
        seq = tuple(xs) if typ == "t" else list(xs)
        try:
            classes.add(seq[k])
            n_ok += 1
        except IndexError:
            n_err += 1
    return classes, n_err, n_ok


def gi_groups(ctx, extra=()):
    """(typ, shape, keys): corpus first, then every shape up to a length bound x tuple/list x keys -6..6, then seeded
    random longer shapes, then keys far out of range."""
    maxlen = ctx.n(4, 6)
    keys = list(range(-6, 7))
    groups = [(typ, tuple(tuple(x) for x in shape), [k]) for typ, shape, k in extra]
    for typ in ("t", "l"):
        for shape in gi_shapes(maxlen):
            groups.append((typ, shape, keys))
    for _ in range(ctx.n(400, 6000)):
        shape = gi_random_shape(ctx.rng)
        groups.append((ctx.rng.choice("tl"), shape, sorted(set(ctx.rng.randint(-10, 10) for _ in range(5)))))
    for _ in range(ctx.n(30, 300)):
        groups.append((ctx.rng.choice("tl"), gi_random_shape(ctx.rng), [ctx.rng.choice([-1000, 1000, -50, 37])]))
    return groups


def run_getitem(ctx, groups, with_model=True):
    impl = gi_impl(groups)
    cases = [(g, typ, shape, k) for g, (typ, shape, ks) in enumerate(groups) for k in ks]
    model = None
    if with_model:
        model = lean.run_driver("C19", ["G %s %d %s" % (typ, k, " ".join("%d%s" % (c, "*" if m else "") for c, m in shape) or "-")
                                        for _, typ, shape, k in cases])
    for n, (g, typ, shape, k) in enumerate(cases):
        codes, rev = impl[(g, k)]
        ic = gi_canon_impl(codes, rev)
        star = any(m for _, m in shape)
        case = {"typ": "tuple" if typ == "t" else "list", "members": ["C%d%s" % (c, "*" if m else "") for c, m in shape], "key": k,
                "shape": [list(x) for x in shape], "t": typ}
        ctx.count(1, **{"getitem_" + ("variadic" if star else "fixed"): 1, "getitem_len_%d" % len(shape): 1})
        if star or -len(shape) <= k < len(shape):
            ctx.nontriv("gi:%s:%s:%d" % (typ, shape, k))
        mset = None
        if model is not None:
            parts = dict(x.split("=", 1) for x in model[n].split(" ") if "=" in x)
            mset = parts.get("set")
            ctx.corr("getitem")
            ctx.tag("getitem_model_" + parts.get("res", "?")[:1])
            if mset != ic:
                ctx.disagree("getitem", case, ic, model[n])
            # spec validation: Lean elemAt/expand vs real indexing is done through `exp=` (classes over expansions 0..3)
            classes, n_err, n_ok = gi_oracle(typ, shape, k)
            ctx.corr("spec")
            want = "{" + ",".join(str(i) for i in sorted(classes)) + "}/%d" % n_err
            if parts.get("exp") != want:
                ctx.disagree("spec", case, "cpython " + want, model[n])
        if n % 701 == 3:
            ctx.sample(dict(case, pyanalyze=ic, lean=model[n] if model else None))
        classes, n_err, n_ok = gi_oracle(typ, shape, k)
        conf = mset is None or mset == ic
        cls = None  # getitem has no exception class: Props/C19.getitem_variadic_sound holds for all inputs
        if ic == "ERR":
            if n_ok:
                ctx.candidate(case, "index reported out of range but x[%d] exists for some expansion" % k, cls=cls, conforms=conf, stream="getitem")
        elif ic.startswith("{"):
            got = set(int(x) for x in ic[1:-1].split(",") if x)
            if not classes <= got:
                ctx.candidate(case, "x[%d] can be an instance of %s at run time but the inferred type is %s" % (
                    k, ", ".join("C%d" % c for c in sorted(classes - got)), rev), cls=cls, conforms=conf, stream="getitem")
            if typ == "t" and not star and n_err:
                ctx.candidate(case, "x[%d] raises IndexError for a fully known tuple but nothing is reported" % k, cls=cls, conforms=conf, stream="getitem")
        else:
            ctx.candidate(case, "unexpected verdict %s" % ic, cls=cls, conforms=conf, stream="getitem")


# ------------------------------------------------------------------------------------------------ the check
def corpus():
    path = os.path.join(lean.HERE, "corpus", "C19.jsonl")
    rows, gis = [], []
    if os.path.exists(path):
        for l in open(path):
            l = l.strip()
            if l:
                d = json.loads(l)
                if d.get("kind") == "getitem":
                    gis.append((d["t"], d["shape"], d["key"]))
                else:
                    rows.append(tuple(d["case"]))
    return rows, gis


def _run(ctx, with_model):
    ns = oracle_ns()
    crow, cgi = corpus()
    # corpus first
    if crow:
        ops = list(dict.fromkeys([c[2] for c in crow] + [c[3] for c in crow if c[3]]))
        it, iv = Interner(), Interner()
        evaluate_rows(ctx, build_rows(ns, ops, crow, it, iv), ns, "corpus", with_model)
    # exhaustive quick universe = the regenerated table
    rows = quick_table()
    ctx.extra["exhaustive_part"] = "%d table rows (whole quick universe of %d operands)" % (len(rows), len(QUICK_OPERANDS))
    evaluate_rows(ctx, rows, _STATE["ns"], "table", with_model, binop_sample=ctx.n(1500, 100000))
    # the attribute table: re-computed rows (quick: stratified sample + special names; thorough: all of it)
    if "attr_rows" not in _STATE:
        translate_attr(ctx)
    evaluate_rows(ctx, _STATE["attr_rows"], ns, "attrtab", with_model)
    ctx.extra["exhaustive_part"] += "; attribute table: %d operands x %d names, %d rows re-computed this run" % (
        len(ATTR_OPERANDS), len(attr_universe()[1]), len(_STATE["attr_rows"]))
    # seeded random literals
    ops, cases = random_cases(ctx.rng, ctx.n(1500, 20000))
    it, iv = Interner(), Interner()
    evaluate_rows(ctx, build_rows(ns, ops, cases, it, iv), ns, "random", with_model, binop_sample=ctx.n(400, 5000))
    if ctx.big():
        wide = QUICK_OPERANDS + WIDE_EXTRA
        wcases = [c for c in make_cases(wide) if c[2] in WIDE_EXTRA or c[3] in WIDE_EXTRA]
        it, iv = Interner(), Interner()
        evaluate_rows(ctx, build_rows(ns, wide, wcases, it, iv), ns, "wide", with_model, binop_sample=4000)
    run_getitem(ctx, gi_groups(ctx, cgi), with_model)
    if with_model:
        bad = lean.run_driver("C19", ["", "T 1 2", "G q 0 1", "G t x 1", "B 1", "A", "hello"])
        ctx.corr("malformed", len(bad))
        if any(b != "bad-op" for b in bad):
            ctx.disagree("malformed", "unparseable driver input", "bad-op", bad)


def run(ctx):
    _run(ctx, True)


def run_impl_only(ctx):
    _run(ctx, False)


def replay(ctx, data):
    case = data["case"]
    ns = oracle_ns()
    if "members" in case:
        run_getitem(ctx, [(case["t"], tuple(tuple(x) for x in case["shape"]), [case["key"]])], True)
    else:
        c = tuple(case["case"])
        ops = [c[2]] + ([c[3]] if c[3] else [])
        evaluate_rows(ctx, build_rows(ns, ops, [c], Interner(), Interner()), ns, "replay", True)
    print(json.dumps({"case": case, "candidates": ctx.candidates, "broken": ctx.broken}, indent=1, default=str))
    return 1 if (ctx.candidates or ctx.broken) else 0
