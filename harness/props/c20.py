"""C20 — type evaluation functions (@evaluated) follow docs/type_evaluation.md.

Streams
  e2e   : generated module with `@evaluated` functions and one call per line, checked by the real pyanalyze:
          the call node's inferred value (decoded structurally), the diagnostics reported on the line, and — through an
          in-process observer wrapped around `Evaluator.evaluate` / `Signature.check_call_with_bound_args` (nothing in
          /repo is edited) — every UserRaisedError the evaluator raised and the variables / positions it was given
  model : lake env lean --run Driver/C20.lean: `evalCall` (bind via pyaCall, then the evaluator model), the Lean
          reference interpreter `refCall`, the positions and variables, the D classes
  ref   : the Python reference interpreter written from docs/type_evaluation.md (argument kinds from the doc's table,
          is_of_type from a CPython isinstance/issubclass based assignability, union arguments split into members)
Correspondence: e2e == model (type term, fired messages in order: stream e2e; positions and variable types: stream
bind); Lean ref == Python ref (stream spec).
Property search on the implementation: positions vs the doc's kind table (stream kinds); reported diagnostics vs fired
show_errors; result type / fired sites vs the Python reference (members of the result type as a set), for calls with at
most one union-typed variable; metamorphic: e(union) vs the union of e(member) over separately generated member calls.
"""
import itertools, json, os, sys as _sys

from harness.common import lean, pya, values as V, gen_values as G
from harness import universe as U
from harness.props.c03 import translate  # noqa: F401  (regenerates Generated/ClassTable.lean from the live tree)

PROP = "C20"
NAMESPACE = "Pya.C20"
LEAN_PROP = "PyaModel.Props.C20"
LEAN_TARGETS = ["PyaModel.Core.TypeEval", "PyaModel.Spec.TypeEvalSpec", "PyaModel.Generated.ClassTable"]
ANCHORS = [
    ("pyanalyze/type_evaluation.py", "ConditionEvaluator.visit_Call"),
    ("pyanalyze/type_evaluation.py", "ConditionEvaluator.visit_is_of_type"),
    ("pyanalyze/type_evaluation.py", "ConditionEvaluator.visit_UnaryOp"),
    ("pyanalyze/type_evaluation.py", "ConditionEvaluator.visit_Compare"),
    ("pyanalyze/type_evaluation.py", "ConditionEvaluator.visit_BoolOp"),
    ("pyanalyze/type_evaluation.py", "ConditionReturn.reverse"),
    ("pyanalyze/type_evaluation.py", "EvaluateVisitor.visit_block"),
    ("pyanalyze/type_evaluation.py", "EvaluateVisitor.visit_If"),
    ("pyanalyze/type_evaluation.py", "EvaluateVisitor.visit_Return"),
    ("pyanalyze/type_evaluation.py", "EvaluateVisitor.visit_show_error"),
    ("pyanalyze/type_evaluation.py", "EvaluateVisitor._evaluate_ret"),
    ("pyanalyze/type_evaluation.py", "CombinedReturn.make"),
    ("pyanalyze/type_evaluation.py", "EvalContext.narrow_variables"),
    ("pyanalyze/type_evaluation.py", "decompose_union"),
    ("pyanalyze/type_evaluation.py", "can_assign_maybe_exclude_any"),
    ("pyanalyze/type_evaluation.py", "unite_varmaps"),
    ("pyanalyze/predicates.py", "IsAssignablePredicate.__call__"),
    ("pyanalyze/predicates.py", "is_universally_assignable"),
    ("pyanalyze/value.py", "is_overlapping"),
    ("pyanalyze/value.py", "_deliteral"),
    ("pyanalyze/stacked_scopes.py", "_constrain_value"),
    ("pyanalyze/signature.py", "Signature.check_call_with_bound_args"),
    ("pyanalyze/signature.py", "Signature.bind_arguments"),
]
RULE = (
    "evaluator bodies from the restricted grammar (nested if/elif/else up to depth 3, and/or/not of is_of_type with and "
    "without exclude_any, ==/!=/is/is not against None/int/bool/str/enum literals, is_provided/is_positional/is_keyword, "
    "sys.version_info / sys.platform comparisons; return of a type, show_error with a message unique per site, pass); "
    "signatures with positional-only / positional-or-keyword / keyword-only parameters, literal and `...` defaults, optional "
    "*args / **kwargs; calls passing each parameter positionally, by keyword, not at all, through *xs (list[T]) or **d "
    "(dict[str, T]); argument types: literals, classes, unions of those, Any. Exhaustive part: every body "
    "`if <c>: <s> else: <s>; <s>` with <c> a primitive condition or its negation over one parameter and <s> in "
    "{return, show_error, pass}, against every argument type of the universe; every nested / sequential pair of conditions "
    "from a set of 10 over x; every `and`/`or` of two (possibly negated) tests from a set of 8 as the condition of an if "
    "whose branches test x again; (each exhaustive family is sampled down by the seed in the quick tier); then seeded random "
    "larger bodies with up to 3 parameters. "
    "Non-trivial = the body has a condition on an argument whose type is a union or Any, or an argument-kind test on a "
    "parameter not passed as a plain argument; distinct by (def, call) text"
)
ASSUMPTIONS = [
    "the variable of a parameter filled from *xs / **d has the element / value type of the star argument (the doc leaves it open; pyanalyze does this)",
    "is_of_type(x, T) is decided by the assignability model `ca` (validated by C03/C04 and, here, against an isinstance/issubclass based reference on the literal/class/union/Any fragment), with int -> float promotion",
    "only the message of a show_error diagnostic is compared (one diagnostic per site and call: pyanalyze de-duplicates identical messages on a node); the detail text listing the active conditions and the argument= caret are not modelled",
    "type variables in evaluators, reveal_type inside evaluators, validation-mode diagnostics (bad_evaluator) and bodies naming non-parameters are outside the modelled fragment",
    "the union-distribution clause is evaluated for calls with exactly one union-typed variable; calls with several union-typed variables are compared with the model only",
]
TRUSTED = [
    "Spec/TypeEvalSpec.lean (reference interpreter) is validated against the Python reference interpreter on every run (stream spec)",
    "argument positions come from Core/Sig.lean `pyaCall` (property C05's model), compared with the doc's kind table on every run (stream kinds)",
]

CID = V.CID
OBJECT, INT, BOOL, FLOAT, STR, BYTES = 0, G.INT, G.BOOL, G.FLOAT, G.STR, G.BYTES
CA, CB, CCOLOR, CIE = CID[U.A], CID[U.B], CID[U.Color], CID[U.IE]

LITS = [("int", 0), ("int", 1), ("int", 2), ("bool", 1), ("bool", 0), ("str", "a"), ("str", "b"), ("str", ""), ("none",),
        ("inst", CCOLOR, 0), ("inst", CCOLOR, 1), ("inst", CIE, 0)]
CLS = [OBJECT, INT, BOOL, FLOAT, STR, BYTES, CA, CB, CCOLOR]
RET_POOL = [("typed", c) for c in (INT, STR, BYTES, FLOAT, BOOL, CA, CB, G.LIST, G.DICT, G.SET)] + \
    [("known", ("none",)), ("known", ("str", "r")), ("known", ("int", 7)), ("union", [("typed", G.TUPLE), ("typed", G.FSET)])]
SYS_CONDS = ["sys.version_info >= (3, 8)", "sys.version_info < (3, 9)", "sys.version_info >= (3, 13)",
             "sys.version_info < (3, 12, 1)", 'sys.platform == "linux"', 'sys.platform != "win32"', 'sys.platform == "darwin"',
             "sys.version_info > (3,)", "sys.version_info == (3, 12)"]


def K(o):
    return ("known", o)


def T(c):
    return ("typed", c)


def UNI(*ts):
    return ("union", list(ts))


ANY = ("any",)


def canon(t):
    """Union types used *inside* List[...] / Dict[str, ...] annotations get one fixed member order: typing caches
    `Dict[str, Union[int, float]]` by equality, and Union equality ignores order, so the order pyanalyze sees would
    otherwise depend on which spelling the process evaluated first."""
    if t[0] == "union":
        return ("union", sorted(t[1], key=V.ty_sexp))
    return t


# ------------------------------------------------------------------ source rendering
def obj_src(o):
    k = o[0]
    if k == "inst":
        c = V.CLASSES[o[1]]
        return "%s.%s" % (c.__name__, list(c)[o[2]].name)
    return repr(V.obj_to_py(o))


def ty_src(t):
    k = t[0]
    if k == "any":
        return "Any"
    if k == "known":
        return "None" if t[1] == ("none",) else "Literal[%s]" % obj_src(t[1])
    if k == "typed":
        return V.CLASSES[t[1]].__name__
    if k == "union":
        return "Union[%s]" % ", ".join(ty_src(x) for x in t[1])
    raise ValueError(t)


def cond_src(c):
    k = c[0]
    if k == "oftype":
        extra = "" if c[3] == "default" else ", exclude_any=%s" % c[3]
        return "is_of_type(%s, %s%s)" % (c[1], ty_src(c[2]), extra)
    if k == "cmp":
        return "%s %s %s" % (c[1], c[2], obj_src(c[3]))
    if k == "kind":
        return "%s(%s)" % (c[1], c[2])
    if k == "sys":
        return c[1]
    if k == "not":
        return "not (%s)" % cond_src(c[1])
    if k in ("and", "or"):
        return (" %s " % k).join("(%s)" % cond_src(x) for x in c[1])
    raise ValueError(c)


def body_src(stmts, ind):
    out = []
    pad = "    " * ind
    for s in stmts:
        k = s[0]
        if k == "pass":
            out.append(pad + "pass")
        elif k == "ret":
            out.append(pad + "return " + ty_src(s[1]))
        elif k == "err":
            out.append(pad + 'show_error("%s")' % s[1])
        elif k == "if":
            kw = "if"
            cur = s
            while True:
                out.append(pad + "%s %s:" % (kw, cond_src(cur[1])))
                out += body_src(cur[2], ind + 1) if cur[2] else [pad + "    pass"]
                orelse = cur[3]
                if len(orelse) == 1 and orelse[0][0] == "if" and cur[4:] != ("noelif",):
                    kw, cur = "elif", orelse[0]
                    continue
                if orelse:
                    out.append(pad + "else:")
                    out += body_src(orelse, ind + 1)
                break
    return out


def params_src(params):
    parts, seen_star = [], False
    npo = sum(1 for p in params if p[1] == "po")
    for i, (n, k, d) in enumerate(params):
        if k == "ko" and not seen_star:
            parts.append("*")
            seen_star = True
        if k == "vp":
            parts.append("*%s: object" % n)
            seen_star = True
        elif k == "vk":
            parts.append("**%s: object" % n)
        elif d is None:
            parts.append("%s: object" % n)
        elif d[0] == "lit":
            parts.append("%s: object = %s" % (n, obj_src(d[1])))
        else:
            parts.append("%s: %s = ..." % (n, ty_src(d[1])))
        if k == "po" and i == npo - 1:
            parts.append("/")
    return ", ".join(parts)


def def_src(name, fn):
    ret = "" if fn["ret"] is None else " -> %s" % ty_src(fn["ret"])
    lines = ["@evaluated", "def %s(%s)%s:" % (name, params_src(fn["params"]), ret)]
    lines += body_src(fn["body"], 1) if fn["body"] else ["    pass"]
    return lines


def call_text(fn, args, namer=None):
    parts = []
    for a in args:
        nm = namer(a) if namer else "<%s>" % ty_src(a[-1])
        if a[0] == "p":
            parts.append(nm)
        elif a[0] == "k":
            parts.append("%s=%s" % (a[1], nm))
        elif a[0] == "S":
            parts.append("*" + nm)
        elif a[0] == "D":
            parts.append("**" + nm)
    return "f(%s)" % ", ".join(parts)


# ------------------------------------------------------------------ s-expressions for the driver
def cond_sexp(c):
    k = c[0]
    if k == "oftype":
        return "(oftype %s %s %d)" % (c[1], V.ty_sexp(c[2]), 0 if c[3] == "False" else 1)
    if k == "cmp":
        return "(cmp %s %s %d)" % (c[1], V.obj_sexp(c[3]), 1 if c[2] in ("!=", "is not") else 0)
    if k == "kind":
        return "(kind %s %s)" % (c[1][3:], c[2])
    if k == "sys":
        return "(sys %d)" % (1 if c[2] else 0)
    if k == "not":
        return "(not %s)" % cond_sexp(c[1])
    return "(%s %s)" % (k, " ".join(cond_sexp(x) for x in c[1]))


def stmts_sexp(stmts):
    out = []
    for s in stmts:
        k = s[0]
        if k == "pass":
            out.append("pass")
        elif k == "ret":
            out.append("(ret %s)" % V.ty_sexp(s[1]))
        elif k == "err":
            out.append("(err %s)" % s[1])
        else:
            out.append("(if %s (%s) (%s))" % (cond_sexp(s[1]), stmts_sexp(s[2]), stmts_sexp(s[3])))
    return " ".join(out)


def case_line(fn, args):
    ps = []
    for n, k, d in fn["params"]:
        ds = "none" if d is None else "(lit %s)" % V.obj_sexp(d[1]) if d[0] == "lit" else "(ann %s)" % V.ty_sexp(d[1])
        ps.append("(%s %s %s)" % (n, k, ds))
    as_ = []
    for a in args:
        if a[0] == "k":
            as_.append("(k %s %s)" % (a[1], V.ty_sexp(a[2])))
        else:
            as_.append("(%s %s)" % (a[0], V.ty_sexp(a[1])))
    ret = "any" if fn["ret"] is None else V.ty_sexp(fn["ret"])
    return "(params %s) (args %s) (ret %s) (body %s)" % (" ".join(ps), " ".join(as_), ret, stmts_sexp(fn["body"]))


# ------------------------------------------------------------------ the Python reference interpreter (docs/type_evaluation.md)
def flat(t):
    return list(t[1]) if t[0] == "union" else [t]


def assignable(Tt, a, excl):
    """`_: T = a` accepted? CPython isinstance/issubclass + numeric tower on the literal/class/union/Any fragment;
    with excl, Any is compatible only with Any (every type is still compatible with a target Any)."""
    if a[0] == "union":
        return all(assignable(Tt, m, excl) for m in a[1])
    if Tt[0] == "any":
        return True
    if a[0] == "any":
        return (not excl) or (Tt[0] == "union" and any(m[0] == "any" for m in Tt[1]))
    if Tt[0] == "union":
        return any(assignable(m, a, excl) for m in Tt[1])
    if Tt[0] == "known":
        if a[0] != "known":
            return False
        x, y = V.obj_to_py(Tt[1]), V.obj_to_py(a[1])
        return type(x) is type(y) and x == y
    if Tt[0] == "typed":
        if a[0] == "known":
            return G._sub(type(V.obj_to_py(a[1])), Tt[1])
        if a[0] == "typed":
            return G._sub(V.CLASSES[a[1]], Tt[1])
    raise ValueError((Tt, a))


def doc_bind(params, args):
    """Argument kind (POSITIONAL / KEYWORD / DEFAULT / UNKNOWN of the doc) and argument type of every parameter,
    or None when the call shape does not obviously bind."""
    pos = [a[1] for a in args if a[0] == "p"]
    kws = {a[1]: a[2] for a in args if a[0] == "k"}
    S = next((a[1] for a in args if a[0] == "S"), None)
    D = next((a[1] for a in args if a[0] == "D"), None)
    out, i, used = {}, 0, set()
    regular = [p for p in params if p[1] in ("po", "pk")]
    for n, k, d in params:
        if k in ("po", "pk") and i < len(pos):
            if n in kws:
                return None
            out[n] = ("POSITIONAL", pos[i])
            i += 1
        elif k in ("pk", "ko") and n in kws:
            out[n] = ("KEYWORD", kws[n])
            used.add(n)
        elif k in ("po", "pk", "ko"):
            sa = S is not None and k in ("po", "pk")
            da = D is not None and k in ("pk", "ko")
            if sa and da:
                out[n] = ("UNKNOWN", unite_terms([S, D]))
            elif sa:
                out[n] = ("UNKNOWN" if d is not None else "POSITIONAL", S)
            elif da:
                out[n] = ("UNKNOWN" if d is not None else "KEYWORD", D)
            elif d is not None:
                out[n] = ("DEFAULT", ("known", d[1]) if d[0] == "lit" else d[1])
            else:
                return None
        elif k == "vp":
            out[n] = ("POSITIONAL" if (len(pos) > len(regular) or S is not None) else "DEFAULT", None)
            i = len(pos)
        elif k == "vk":
            extra = [x for x in kws if x not in used and not any(p[0] == x and p[1] in ("pk", "ko") for p in params)]
            out[n] = ("KEYWORD" if (extra or D is not None) else "DEFAULT", None)
            used |= set(extra)
    if i < len(pos) or set(kws) - used:
        return None
    return out


def unite_terms(ts):
    out = []
    for t in ts:
        for m in flat(t):
            if m not in out:
                out.append(m)
    return out[0] if len(out) == 1 else ("union", out)


def ref_cond(c, env):
    k = c[0]
    if k == "oftype":
        return assignable(c[2], env[c[1]][1], c[3] != "False")
    if k == "cmp":
        r = assignable(("known", c[3]), env[c[1]][1], True)
        return (not r) if c[2] in ("!=", "is not") else r
    if k == "kind":
        kind = env[c[2]][0]
        if c[1] == "is_provided":
            return kind in ("POSITIONAL", "KEYWORD")
        if c[1] == "is_positional":
            return kind == "POSITIONAL"
        return kind == "KEYWORD"
    if k == "sys":
        return bool(eval(c[1], {"sys": _sys}))   # the real interpreter decides version / platform conditions
    if k == "not":
        return not ref_cond(c[1], env)
    if k == "and":
        return all(ref_cond(x, env) for x in c[1])
    return any(ref_cond(x, env) for x in c[1])


def ref_block(stmts, env, errs):
    for s in stmts:
        k = s[0]
        if k == "ret":
            return s[1]
        if k == "err":
            errs.append(s[1])
        elif k == "if":
            r = ref_block(s[2] if ref_cond(s[1], env) else s[3], env, errs)
            if r is not None:
                return r
    return None


def union_vars(env):
    return [n for n, (_, t) in env.items() if t is not None and t[0] == "union"]


def ref_eval(fn, env):
    """Members of the result type (as a set of s-expressions) and the set of fired messages: the union over the
    member-wise executions."""
    names = union_vars(env)
    rets, errs = set(), set()
    for combo in itertools.product(*[flat(env[n][1]) for n in names]):
        e2 = dict(env)
        for n, m in zip(names, combo):
            e2[n] = (env[n][0], m)
        es = []
        r = ref_block(fn["body"], e2, es)
        if r is None:
            r = fn["ret"] if fn["ret"] is not None else ANY
        rets |= {V.ty_sexp(m) for m in flat(r)}
        errs |= set(es)
    return rets, errs


# ------------------------------------------------------------------ generators
ARG_TYPES = None


def arg_types():
    global ARG_TYPES
    if ARG_TYPES is None:
        lits = [K(o) for o in LITS]
        cls = [T(c) for c in CLS]
        unions = [
            UNI(K(("int", 1)), T(STR)), UNI(K(("int", 1)), K(("int", 2))), UNI(K(("int", 1)), K(("int", 2)), K(("str", "a"))),
            UNI(T(INT), T(STR)), UNI(T(INT), K(("none",))), UNI(T(OBJECT), K(("int", 1))), UNI(T(INT), K(("int", 2))),
            UNI(T(BOOL), T(STR), K(("none",))), UNI(ANY, T(INT)), UNI(ANY, K(("int", 1))), UNI(K(("bool", 1)), K(("bool", 0))),
            UNI(K(("inst", CCOLOR, 0)), K(("inst", CCOLOR, 1))), UNI(T(CA), T(CB)), UNI(T(CB), K(("none",))), UNI(T(FLOAT), T(INT)),
            UNI(K(("str", "a")), K(("str", "b")), T(BYTES)), UNI(T(CCOLOR), K(("int", 0))), UNI(K(("inst", CIE, 0)), K(("int", 1))),
        ]
        ARG_TYPES = {"lit": lits, "cls": cls, "union": unions, "any": [ANY]}
    return ARG_TYPES


def all_arg_types():
    a = arg_types()
    return a["lit"] + a["cls"] + a["union"] + a["any"]


PATTERNS = None


def patterns():
    global PATTERNS
    if PATTERNS is None:
        PATTERNS = [T(INT), T(STR), T(OBJECT), T(BOOL), T(FLOAT), T(CA), T(CB), T(CCOLOR), K(("int", 1)), K(("str", "a")), K(("none",)),
                    K(("bool", 1)), UNI(K(("int", 1)), K(("int", 2))), UNI(T(INT), T(STR)), UNI(T(INT), K(("none",))),
                    UNI(K(("str", "a")), K(("str", "b"))), K(("inst", CCOLOR, 0)), UNI(T(BYTES), T(BOOL)), ANY]
    return PATTERNS


CMP_CONSTS = [("int", 1), ("int", 2), ("str", "a"), ("none",), ("bool", 1), ("bool", 0), ("inst", CCOLOR, 0), ("int", 0)]


def rand_arg_type(rng, union_bias=0.35):
    a = arg_types()
    r = rng.random()
    if r < union_bias:
        if rng.random() < 0.7:
            return rng.choice(a["union"])
        ms = rng.sample(a["lit"] + a["cls"] + [ANY], rng.choice([2, 2, 3]))
        return UNI(*ms)
    if r < union_bias + 0.08:
        return ANY
    if r < union_bias + 0.4:
        return rng.choice(a["lit"])
    return rng.choice(a["cls"])


def sys_cond(rng):
    src = rng.choice(SYS_CONDS)
    return ("sys", src, bool(eval(src, {"sys": _sys})))


def gen_prim(rng, regular, allnames):
    r = rng.random()
    if r < 0.36 and regular:
        x = rng.choice(["default", "default", "True", "False", "False"])
        p = rng.choice(patterns())
        if rng.random() < 0.15:
            p = rand_arg_type(rng, 0.5)
        return ("oftype", rng.choice(regular), p, x)
    if r < 0.66 and regular:
        return ("cmp", rng.choice(regular), rng.choice(["==", "!=", "is", "is not"]), rng.choice(CMP_CONSTS))
    if r < 0.92 or not regular:
        return ("kind", rng.choice(["is_provided", "is_positional", "is_keyword"]), rng.choice(allnames))
    return sys_cond(rng)


def gen_cond(rng, regular, allnames, depth=2):
    r = rng.random()
    if depth <= 0 or r < 0.62:
        return gen_prim(rng, regular, allnames)
    if r < 0.76:
        return ("not", gen_cond(rng, regular, allnames, depth - 1))
    return (rng.choice(["and", "or"]), [gen_cond(rng, regular, allnames, depth - 1) for _ in range(rng.choice([2, 2, 3]))])


class _Sites:
    def __init__(self):
        self.n = 0

    def err(self):
        self.n += 1
        return ("err", "E%d" % self.n)


def gen_block(rng, regular, allnames, depth, sites, maxlen=3):
    out = []
    for _ in range(rng.randint(1, maxlen)):
        r = rng.random()
        if depth > 0 and r < 0.5:
            c = gen_cond(rng, regular, allnames)
            body = gen_block(rng, regular, allnames, depth - 1, sites, 2)
            orelse = gen_block(rng, regular, allnames, depth - 1, sites, 2) if rng.random() < 0.65 else []
            out.append(("if", c, body, orelse))
        elif r < 0.72:
            out.append(("ret", rng.choice(RET_POOL)))
            if rng.random() < 0.9:
                break
        elif r < 0.92:
            out.append(sites.err())
        else:
            out.append(("pass",))
    return out


def gen_params(rng):
    n = rng.choice([1, 1, 2, 2, 3])
    kinds = sorted(rng.choice([0, 1, 1, 1, 3]) for _ in range(n))
    ps, dstart = [], False
    for i, k in enumerate(kinds):
        name = "xyz"[i]
        if k < 2:
            dstart = dstart or rng.random() < 0.35
            has_d = dstart
        else:
            has_d = rng.random() < 0.5
        d = None
        if has_d:
            d = ("lit", rng.choice(LITS)) if rng.random() < 0.75 else ("ann", rng.choice(arg_types()["union"] + arg_types()["cls"]))
        ps.append((name, ["po", "pk", "vp", "ko", "vk"][k], d))
    if rng.random() < 0.3:
        idx = sum(1 for p in ps if p[1] in ("po", "pk"))
        ps.insert(idx, ("args", "vp", None))
    if rng.random() < 0.3:
        ps.append(("kwargs", "vk", None))
    return ps


def gen_fn(rng):
    params = gen_params(rng)
    regular = [p[0] for p in params if p[1] in ("po", "pk", "ko")]
    allnames = [p[0] for p in params]
    sites = _Sites()
    body = gen_block(rng, regular, allnames, rng.choice([1, 2, 2, 3]), sites)
    ret = rng.choice([None, T(G.COMPLEX), T(G.COMPLEX), K(("str", "dflt"))])
    return {"params": params, "ret": ret, "body": body}


def type_for_param(rng, p, union_bias):
    d = p[2]
    if d is not None and d[0] == "ann":
        t = d[1]
        r = rng.random()
        if r < 0.5:
            return t
        if r < 0.8:
            return rng.choice(flat(t))
        return ANY
    return rand_arg_type(rng, union_bias)


def gen_call(rng, fn, union_bias=0.35):
    """A call that binds by construction (checked again with doc_bind by the caller)."""
    params = fn["params"]
    reg_pos = [p for p in params if p[1] in ("po", "pk")]
    has_vp = any(p[1] == "vp" for p in params)
    has_vk = any(p[1] == "vk" for p in params)
    use_star = rng.random() < 0.2
    use_dstar = rng.random() < 0.2
    npos = rng.choice([0, 1, 1, 2, 2, 3, 3])
    npos = min(npos, len(reg_pos))
    if not use_star:
        need = 0
        for i, p in enumerate(reg_pos):
            if p[1] == "po" and p[2] is None:
                need = i + 1
        npos = max(npos, need)
    args = [("p", type_for_param(rng, p, union_bias)) for p in reg_pos[:npos]]
    if has_vp and npos == len(reg_pos) and not use_star and rng.random() < 0.4:
        args += [("p", rand_arg_type(rng, 0.1)) for _ in range(rng.randint(1, 2))]
    if use_star and (npos < len(reg_pos) or has_vp):
        anns = [p[2][1] for p in reg_pos[npos:] if p[2] is not None and p[2][0] == "ann"]
        if len(set(map(str, anns))) > 1:
            return None
        args.append(("S", canon(anns[0] if anns else rand_arg_type(rng, union_bias))))
    else:
        use_star = False
    kws, open_slots, open_anns = [], 0, []
    for p in reg_pos[npos:] + [p for p in params if p[1] == "ko"]:
        n, k, d = p
        if k in ("po", "pk") and use_star:
            if k == "pk":
                open_slots += 1
                if d is not None and d[0] == "ann":
                    open_anns.append(d[1])
            continue
        if k == "po":
            continue   # has a default
        forced = d is None and not use_dstar
        if forced or rng.random() < 0.55:
            kws.append(("k", n, type_for_param(rng, p, union_bias)))
        else:
            open_slots += 1
            if d is not None and d[0] == "ann":
                open_anns.append(d[1])
    if has_vk and rng.random() < 0.35:
        kws.append(("k", "extra", rand_arg_type(rng, 0.1)))
    args += kws
    if use_dstar and (open_slots or has_vk):
        if len(set(map(str, open_anns))) > 1:
            return None
        args.append(("D", canon(open_anns[0] if open_anns else rand_arg_type(rng, union_bias))))
    return args


def exhaustive_cases():
    """Every body `if c: s1 [else: s2]; s3` over one parameter x, with c a primitive condition or its negation."""
    prims = []
    for p in [T(INT), T(STR), T(OBJECT), K(("int", 1)), UNI(K(("int", 1)), K(("int", 2))), UNI(T(INT), K(("none",))), T(FLOAT), ANY]:
        for x in ("default", "False"):
            prims.append(("oftype", "x", p, x))
    for o in [("int", 1), ("none",), ("str", "a"), ("bool", 1)]:
        prims.append(("cmp", "x", "==", o))
        prims.append(("cmp", "x", "is not", o))
    for f in ("is_provided", "is_positional", "is_keyword"):
        prims.append(("kind", f, "x"))
    prims.append(("sys", "sys.version_info >= (3, 8)", True))
    conds = prims + [("not", c) for c in prims]
    stm = {"r1": ("ret", T(INT)), "r2": ("ret", T(STR)), "r3": ("ret", T(BYTES)), "e1": ("err", "E1"), "e2": ("err", "E2"),
           "e3": ("err", "E3"), "p": ("pass",)}
    shapes = [("r1", "r2", "p"), ("r1", "p", "r3"), ("e1", "r2", "r3"), ("r1", "e2", "e3"), ("p", "r2", "r3"), ("e1", "e2", "p"),
              ("r1", None, "r3"), ("e1", None, "r3"), ("r1", "e2", "r3")]
    fns = []
    for c in conds:
        for a, b, d in shapes:
            body = [("if", c, [stm[a]], [stm[b]] if b else []), stm[d]]
            fns.append({"params": [("x", "pk", ("lit", ("int", 1)))], "ret": T(G.COMPLEX), "body": body})
    calls = []
    for t in all_arg_types():
        calls.append([("p", t)])
    for t in [K(("int", 1)), T(INT), UNI(K(("int", 1)), T(STR)), ANY]:
        calls += [[("k", "x", t)], [("S", canon(t))], [("D", canon(t))]]
    calls.append([])
    return fns, calls


def two_level_cases():
    """Every pair of nested / sequential conditions from a small set over x (exercises narrowing and fall-through)."""
    cs = [("oftype", "x", T(INT), "default"), ("oftype", "x", T(INT), "False"), ("cmp", "x", "==", ("int", 1)), ("cmp", "x", "!=", ("int", 1)),
          ("oftype", "x", UNI(K(("int", 1)), K(("int", 2))), "default"), ("oftype", "x", T(OBJECT), "default"),
          ("not", ("oftype", "x", T(STR), "default")), ("cmp", "x", "is", ("none",)),
          ("or", [("cmp", "x", "==", ("int", 1)), ("cmp", "x", "==", ("int", 2))]),
          ("and", [("oftype", "x", T(INT), "default"), ("cmp", "x", "!=", ("int", 2))])]
    fns = []
    for c1 in cs:
        for c2 in cs:
            # nested
            fns.append({"params": [("x", "pk", None)], "ret": T(G.COMPLEX), "body": [
                ("if", c1, [("if", c2, [("ret", T(INT))], [("ret", T(STR))])], [("err", "E1")]), ("ret", T(BYTES))]})
            # sequential (fall-through)
            fns.append({"params": [("x", "pk", None)], "ret": T(G.COMPLEX), "body": [
                ("if", c1, [("ret", T(INT))], []), ("if", c2, [("err", "E1"), ("ret", T(STR))], [("ret", T(BYTES))])]})
    calls = [[("p", t)] for t in arg_types()["union"] + [ANY, K(("int", 1)), T(INT), T(OBJECT), K(("none",))]]
    return fns, calls


def boolop_cases():
    """Every and/or of two tests from a small set over x (plain or negated), as the condition of an if whose
    branches look at x again (exercises visit_BoolOp's narrowed / remaining bookkeeping)."""
    prims = [("oftype", "x", T(INT), "default"), ("oftype", "x", T(STR), "default"), ("cmp", "x", "==", ("int", 1)),
             ("cmp", "x", "==", ("int", 2)), ("oftype", "x", T(CCOLOR), "False"), ("cmp", "x", "is", ("none",)),
             ("oftype", "x", UNI(K(("int", 1)), K(("int", 2))), "default"), ("kind", "is_positional", "x")]
    ops = prims + [("not", c) for c in prims]
    fns = []
    for op in ("and", "or"):
        for c1 in ops:
            for c2 in ops:
                cond = (op, [c1, c2])
                fns.append({"params": [("x", "pk", None)], "ret": T(G.COMPLEX), "body": [
                    ("if", cond,
                     [("if", ("cmp", "x", "==", ("int", 1)), [("ret", T(INT))], [("if", ("oftype", "x", T(STR), "default"), [("ret", T(STR))], [("ret", T(BYTES))])])],
                     [("if", ("cmp", "x", "==", ("int", 1)), [("err", "E1"), ("ret", T(FLOAT))], [("if", ("oftype", "x", T(STR), "default"), [("ret", T(BOOL))], [("ret", T(CA))])])])]})
    calls = [[("p", t)] for t in [UNI(K(("int", 1)), K(("int", 2)), K(("str", "a"))), UNI(K(("int", 1)), T(STR)), UNI(T(INT), T(STR)),
                                  UNI(T(CCOLOR), K(("int", 0))), UNI(T(INT), K(("none",))), UNI(K(("int", 1)), K(("int", 2))),
                                  UNI(T(BOOL), T(STR), K(("none",))), K(("int", 1)), ANY]]
    return fns, calls


def gen_cases(ctx):
    rng = ctx.rng
    cases = []   # (fn, args)
    fns, calls = exhaustive_cases()
    ex = [(f, c) for f in fns for c in calls]
    fns2, calls2 = two_level_cases()
    ex2 = [(f, c) for f in fns2 for c in calls2]
    fns3, calls3 = boolop_cases()
    ex3 = [(f, c) for f in fns3 for c in calls3]
    ctx.extra["exhaustive_part"] = (
        "%d one-condition bodies x %d calls, %d two-condition bodies x %d calls, %d and/or bodies x %d calls" % (
            len(fns), len(calls), len(fns2), len(calls2), len(fns3), len(calls3)))
    cap = ctx.n(1600, 100000)
    for part in (ex, ex2, ex3):
        if len(part) > cap:
            rng.shuffle(part)
            part = part[:cap]
            ctx.extra["exhaustive_part"] += "; a part sampled down to %d by the seed" % cap
        cases += part
    nfn = ctx.n(260, 5000)
    for _ in range(nfn):
        fn = gen_fn(rng)
        k = 0
        for _ in range(30):
            args = gen_call(rng, fn, union_bias=0.45)
            if args is None or doc_bind(fn["params"], args) is None:
                continue
            cases.append((fn, args))
            k += 1
            if k >= ctx.n(7, 9):
                break
    return cases


def corpus_cases():
    path = os.path.join(lean.HERE, "corpus", "C20.jsonl")
    out = []
    if os.path.exists(path):
        for l in open(path):
            l = l.strip()
            if l:
                d = json.loads(l)
                out.append((tofn(d), [totuple(a) for a in d["args"]]))
    return out


def totuple(x):
    """JSON round trip: stmts/conds/terms are tuples whose list-valued fields stay lists."""
    if isinstance(x, list):
        if x and isinstance(x[0], str):
            return tuple(totuple_field(y) for y in x)
        return [totuple(y) for y in x]
    return x


def totuple_field(y):
    if isinstance(y, list):
        if y and isinstance(y[0], str):
            return totuple(y)
        return [totuple(z) for z in y]
    return y


def tofn(d):
    return {"params": [(p[0], p[1], None if p[2] is None else totuple(p[2])) for p in d["params"]],
            "ret": None if d["ret"] is None else totuple(d["ret"]), "body": [totuple(s) for s in d["body"]]}


# ------------------------------------------------------------------ implementation stream
HEADER = """import sys
from typing import Any, Dict, List, Union
from typing_extensions import Literal
from pyanalyze.extensions import evaluated, is_of_type, is_provided, is_positional, is_keyword, show_error
from harness.universe import A, B, Cc, D, Color, IE, Fl
"""


def member_calls(fn, args, env):
    """Calls with the (single) union-typed variable replaced by each of its members, when the variable comes from one
    argument."""
    names = union_vars(env)
    if len(names) != 1:
        return None
    ut = env[names[0]][1]
    idx = [i for i, a in enumerate(args) if a[-1] == ut and a[-1][0] == "union"]
    if len(idx) != 1:
        return None
    out = []
    for m in flat(ut):
        a2 = list(args)
        a2[idx[0]] = tuple(list(args[idx[0]])[:-1] + [m])
        out.append(a2)
    return out


class _Recorder:
    """In-process observer of the real evaluator (nothing in /repo is edited): records, per call line, what
    `Evaluator.evaluate` returned (all UserRaisedErrors, before the reporting pipeline's (node, code) duplicate filter)
    and the variables / positions `check_call_with_bound_args` handed to it."""

    def __init__(self):
        self.rec = {}
        self.cur = None

    def __enter__(self):
        import pyanalyze.type_evaluation as TE, pyanalyze.signature as SG
        self.TE, self.SG = TE, SG
        self.o_eval, self.o_cc = TE.Evaluator.evaluate, SG.Signature.check_call_with_bound_args
        me = self

        def rec_eval(ev, ectx):
            out = me.o_eval(ev, ectx)
            if me.cur is not None:
                me.rec[me.cur] = ([e.message for e in out[1]], dict(ectx.variables), dict(ectx.positions))
            return out

        def rec_cc(sig, preprocessed, bound_args, cctx, **kw):
            prev = me.cur
            me.cur = getattr(getattr(cctx, "node", None), "lineno", None)
            try:
                return me.o_cc(sig, preprocessed, bound_args, cctx, **kw)
            finally:
                me.cur = prev

        TE.Evaluator.evaluate = rec_eval
        SG.Signature.check_call_with_bound_args = rec_cc
        return self

    def __exit__(self, *a):
        self.TE.Evaluator.evaluate = self.o_eval
        self.SG.Signature.check_call_with_bound_args = self.o_cc


def pos_str(positions):
    from pyanalyze import type_evaluation as TE
    out = []
    for n, p in positions.items():
        if p is TE.ARGS:
            t = "ARGS"
        elif p is TE.KWARGS:
            t = "KWARGS"
        elif p is TE.DEFAULT:
            t = "DEFAULT"
        elif p is TE.UNKNOWN:
            t = "UNKNOWN"
        elif isinstance(p, int):
            t = str(p)
        else:
            t = "'%s'" % p
        out.append("%s:%s" % (n, t))
    return ";".join(out)


def vars_str(variables, params):
    out = []
    kinds = {p[0]: p[1] for p in params}
    for n, v in variables.items():
        if kinds.get(n) in ("vp", "vk"):
            continue
        try:
            out.append("%s=%s" % (n, V.ty_sexp(V.value_to_ty(v))))
        except Exception:
            out.append("%s=UNENC" % n)
    return ";".join(out)


def run_impl(cases):
    """cases: list of (fn, args). Per case a dict: type (s-expression of the call node's inferred value, or a marker),
    fired (messages of all show_errors the evaluator raised, in order), reported (messages of the diagnostics on the line),
    pos / vars (what the evaluator was given)."""
    res = [None] * len(cases)
    B = 700
    for b0 in range(0, len(cases), B):
        batch = cases[b0:b0 + B]
        fnid, vars_, src = {}, {}, [HEADER]
        for fn, _ in batch:
            key = json.dumps(fn, sort_keys=True, default=str)
            if key not in fnid:
                fnid[key] = len(fnid)
                src += def_src("f%d" % fnid[key], fn) + [""]

        def var(a):
            t = a[-1]
            if a[0] == "S":
                ann = "List[%s]" % ty_src(t)
            elif a[0] == "D":
                ann = "Dict[str, %s]" % ty_src(t)
            else:
                ann = ty_src(t)
            if ann not in vars_:
                vars_[ann] = "v%d" % len(vars_)
            return vars_[ann]

        lines = []
        for fn, args in batch:
            name = "f%d" % fnid[json.dumps(fn, sort_keys=True, default=str)]
            lines.append("    " + call_text(fn, args, var).replace("f(", name + "(", 1))
        src.append("def run(%s) -> None:" % ", ".join("%s: %s" % (v, ann) for ann, v in vars_.items()))
        text = "\n".join(src)
        base = text.count("\n") + 1
        text += "\n" + "\n".join(lines) + "\n"
        try:
            import warnings
            with _Recorder() as rec, warnings.catch_warnings():
                warnings.simplefilter("ignore", SyntaxWarning)   # `x is 1` in generated evaluators
                fails, tree, _ = pya.check_source(text, annotate=True)
        except Exception as e:
            for i in range(len(batch)):
                res[b0 + i] = {"type": "EXC:%s" % type(e).__name__, "fired": [], "reported": [], "pos": "", "vars": ""}
            continue
        per = {}
        other = {}
        for f in fails:
            ln = f["lineno"]
            if ln is None or ln <= base:
                other[f["code"]] = other.get(f["code"], 0) + 1
                continue
            per.setdefault(ln - base - 1, []).append(f)
        run = tree.body[-1]
        for i, st in enumerate(run.body):
            fs = per.get(i, [])
            msgs, bad = [], None
            for f in fs:
                if f["code"] == "incompatible_call":
                    m = f["message"].split(": ", 1)[-1]
                    if m.startswith("E") and m[1:].isdigit():
                        msgs.append(m)
                    else:
                        bad = "ERR"
                elif f["code"] == "internal_error":
                    bad = "EXC:internal_error"
                else:
                    bad = bad or "OTHER:%s" % f["code"]
            r = rec.rec.get(base + 1 + i)
            out = {"type": bad, "fired": r[0] if r else [], "reported": msgs,
                   "pos": pos_str(r[2]) if r else "", "vars": vars_str(r[1], batch[i][0]["params"]) if r else ""}
            if not bad:
                v = getattr(st.value, "inferred_value", None)
                try:
                    out["type"] = V.ty_sexp(V.value_to_ty(v))
                except Exception:
                    out["type"] = "UNENC:%s" % (v,)
                if r is None:
                    out["type"] = "OTHER:evaluator-not-run"
            res[b0 + i] = out
        if other:
            res_other = RUN_NOTES.setdefault("codes_outside_call_lines", {})
            for k, n in other.items():
                res_other[k] = res_other.get(k, 0) + n
    return res


RUN_NOTES = {}
KIND_OF_POS = {"ARGS": "POSITIONAL", "KWARGS": "KEYWORD", "DEFAULT": "DEFAULT", "UNKNOWN": "UNKNOWN"}


def members_of_sexp(s):
    """Top-level members of a type s-expression (set of member s-expressions)."""
    if s.startswith("(union"):
        inner = s[len("(union"):-1].strip()
        out, depth, cur = [], 0, ""
        for ch in inner:
            if ch == "(":
                depth += 1
            if ch == ")":
                depth -= 1
            if ch == " " and depth == 0:
                if cur:
                    out.append(cur)
                cur = ""
            else:
                cur += ch
        if cur:
            out.append(cur)
        return set(out)
    return {s}


def parse_model(line):
    """`r=<ty> e=<m1,m2|-> ref=<ty> refe=<..> pos=<x:KIND;..> D=<..>` or `ERR ...`."""
    if line.startswith("ERR") or line == "bad-op":
        return {"r": line.split(" ")[0]}
    out = {}
    toks = ("r", "e", "ref", "refe", "pos", "vars", "D")
    for tok in toks:
        key = " %s=" % tok if tok != "r" else "r="
        i = line.find(key)
        j = min([x for x in (line.find(" %s=" % t2, i + 1) for t2 in toks[1:]) if x > i] + [len(line)])
        out[tok] = line[i + len(key):j]
    return out


def is_nontrivial(fn, env):
    uv = {n for n, (_, t) in env.items() if t is not None and t[0] in ("union", "any")}
    odd = {n for n, (k, _) in env.items() if k in ("UNKNOWN", "DEFAULT")}

    def walk_c(c):
        k = c[0]
        if k in ("oftype", "cmp"):
            return c[1] in uv
        if k == "kind":
            return c[2] in odd
        if k == "not":
            return walk_c(c[1])
        if k in ("and", "or"):
            return any(walk_c(x) for x in c[1])
        return False

    def walk(stmts):
        return any(s[0] == "if" and (walk_c(s[1]) or walk(s[2]) or walk(s[3])) for s in stmts)

    return walk(fn["body"])


BAD = ("EXC", "OTHER", "UNENC")


def pick(dcls, names):
    for n in names:
        if dcls and n in dcls:
            return n
    return None


def evaluate(ctx, cases, with_model=True):
    # member calls for the metamorphic check are appended as derived cases
    derived = []
    link = {}
    envs = []
    for i, (fn, args) in enumerate(cases):
        env = doc_bind(fn["params"], args)
        envs.append(env)
        if env is None:
            continue
        mc = member_calls(fn, args, env)
        if mc and (i % ctx.n(3, 2) == 0):
            link[i] = []
            for a2 in mc:
                link[i].append(len(cases) + len(derived))
                derived.append((fn, a2))
    allcases = cases + derived
    impl = run_impl(allcases)
    if RUN_NOTES:
        ctx.extra["impl_notes"] = dict(RUN_NOTES)
    model = None
    if with_model:
        model = [parse_model(l) for l in lean.run_driver("C20", [case_line(fn, a) for fn, a in cases])]
    for i, (fn, args) in enumerate(cases):
        env = envs[i]
        text = "\n".join(def_src("f", fn))
        case = {"def": text, "call": call_text(fn, args), "params": fn["params"], "ret": fn["ret"], "body": fn["body"], "args": args}
        ir = impl[i]
        itype, fired, reported = ir["type"], ir["fired"], ir["reported"]
        nunion = len(union_vars(env)) if env else 0
        ctx.count(1, **{"union_vars_%d" % min(nunion, 2): 1, "args_%d" % len(args): 1,
                        "star" if any(a[0] in ("S", "D") for a in args) else "plain": 1})
        if env is not None and is_nontrivial(fn, env):
            ctx.nontriv(text + "|" + case["call"])
        if i % 1499 == 0:
            ctx.sample({"def": text, "call": case["call"], "pyanalyze": ir, "model": model[i] if model else None})
        conforms = True
        dcls = None
        if model is not None:
            m = model[i]
            merr = m["r"] in ("ERR", "bad-op")
            ctx.tag("model_" + ("ERR" if merr else "ok"))
            ctx.corr("e2e")
            if merr or itype == "ERR":
                if not (m["r"] == "ERR" and itype == "ERR"):
                    conforms = False
                    ctx.disagree("e2e", case, ir, m)
            else:
                me = [] if m["e"] in ("-", "") else m["e"].split(",")
                if (itype, fired) != (m["r"], me):
                    conforms = False
                    ctx.disagree("e2e", case, {"type": itype, "fired": fired}, {"type": m["r"], "fired": me})
                ctx.corr("bind")
                if (ir["pos"], ir["vars"]) != (m["pos"], m["vars"]):
                    conforms = False
                    ctx.disagree("bind", case, {"pos": ir["pos"], "vars": ir["vars"]}, {"pos": m["pos"], "vars": m["vars"]})
            if m.get("D", "-") not in ("-", "", None):
                dcls = m["D"].split(",")
                for c in dcls:
                    ctx.tag("D_" + c)
        if env is None or itype == "ERR" or itype.startswith(BAD):
            if itype.startswith(BAD):
                ctx.candidate(case, "pyanalyze did not produce a type for the call: %s" % itype, cls=None, conforms=conforms, stream="e2e")
            continue
        # ---- spec validation: Lean reference == Python reference; positions == doc kinds
        rrets, rerrs = ref_eval(fn, env)
        if model is not None and model[i]["r"] not in ("ERR", "bad-op"):
            m = model[i]
            ctx.corr("spec")
            lr = members_of_sexp(m["ref"])
            le = set() if m["refe"] in ("-", "") else set(m["refe"].split(","))
            if lr != rrets or le != rerrs:
                ctx.disagree("spec", case, {"python_ref": sorted(rrets), "errors": sorted(rerrs)}, {"lean_ref": m["ref"], "errors": m["refe"]})
        # argument kinds of the doc's table vs the positions the evaluator was given (implementation side)
        ik = {}
        for tok in ir["pos"].split(";"):
            if tok:
                n, p = tok.split(":", 1)
                ik[n] = KIND_OF_POS.get(p, "KEYWORD" if p.startswith("'") else "POSITIONAL")
        dk = {n: k for n, (k, _) in env.items()}
        ctx.corr("kinds")
        if ik != dk:
            ctx.candidate(case, "argument kinds %s, the specification's table gives %s" % (ik, dk), cls=None, conforms=conforms, stream="kinds")
        # ---- the property on the implementation
        # (a) every show_error that fired is reported to the user
        if set(reported) != set(fired):
            ctx.candidate(case, "show_error sites executed: %s, diagnostics reported: %s" % (fired, reported),
                          cls=pick(dcls, ["multiError"]), conforms=conforms and reported == fired[:1], stream="reported")
        # (b) result type and fired sites against the reference interpreter
        if nunion <= 1:
            got = members_of_sexp(itype)
            if got != rrets or set(fired) != rerrs:
                what = []
                if got != rrets:
                    what.append("type %s, the specification gives %s" % (" | ".join(sorted(got)), " | ".join(sorted(rrets))))
                if set(fired) != rerrs:
                    what.append("show_error sites fired %s, the specification gives %s" % (sorted(set(fired)), sorted(rerrs)))
                ctx.candidate(case, "; ".join(what), cls=pick(dcls, UNION_CLASSES if nunion else NONUNION_CLASSES), conforms=conforms,
                              stream="union" if nunion else "nonunion")
        # (c) metamorphic: e(union) against the union over the member calls (implementation only)
        if i in link:
            rets, errs, ok = set(), set(), True
            for j in link[i]:
                jr = impl[j]
                if jr["type"] == "ERR" or jr["type"].startswith(BAD):
                    ok = False
                    break
                rets |= members_of_sexp(jr["type"])
                errs |= set(jr["fired"])
            if ok:
                ctx.tag("metamorphic")
                got = members_of_sexp(itype)
                if got != rets or set(fired) != errs:
                    ctx.candidate(case, "e(union) = %s / %s but the union over the member calls is %s / %s" % (
                        " | ".join(sorted(got)), sorted(set(fired)), " | ".join(sorted(rets)), sorted(errs)),
                        cls=pick(dcls, UNION_CLASSES), conforms=conforms, stream="metamorphic")


# remaining exception classes (ellipsisDefault, boolOpDrop, overlapNarrow were repaired in /repo by d1ebe72, 4713671,
# faaff0c: their witnesses stay in corpus/C20.jsonl and a re-appearance has no class, i.e. is a new violation)
UNION_CLASSES = ["fallThrough", "retyped"]
NONUNION_CLASSES = ["retyped"]


def run(ctx):
    evaluate(ctx, corpus_cases() + gen_cases(ctx))


def run_impl_only(ctx):
    evaluate(ctx, corpus_cases() + gen_cases(ctx), with_model=False)


def replay(ctx, data):
    c = data["case"]
    fn = tofn(c)
    args = [totuple(a) for a in c["args"]]
    evaluate(ctx, [(fn, args)])
    print(json.dumps({"def": c.get("def"), "call": c.get("call"), "candidates": ctx.candidates[:3], "broken": ctx.broken[:3]},
                     indent=1, default=str))
    return 1 if (ctx.candidates or ctx.broken) else 0
