"""The user-defined part of the class universe (a real module so pyanalyze can import the classes)."""
import enum
from typing import NewType


class A:
    pass


class B(A):
    pass


class Cc(A):
    pass


class D(B, Cc):
    pass


class Color(enum.Enum):
    RED = 1
    BLUE = 2


class IE(enum.IntEnum):
    X = 1
    Y = 2


class Fl(float):
    """a strict subclass of float (promotion float -> complex must reach it through the MRO)"""


NT0 = NewType("NT0", int)
NT1 = NewType("NT1", str)
NT2 = NewType("NT2", A)

INSTANCES = {}


def instance(cls, i):
    """The i-th canonical instance of a user class (enum member for Enum classes)."""
    if issubclass(cls, enum.Enum):
        return list(cls)[i]
    key = (cls, i)
    if key not in INSTANCES:
        # a float subclass instance that is == to no other object of the universe
        INSTANCES[key] = cls(3.25 + i) if issubclass(cls, float) else cls()
    return INSTANCES[key]
