import PyaModel.Core.Sexp
import PyaModel.Spec.MiniSem
import PyaModel.Spec.D01
import PyaModel.Core.Composite
import PyaModel.Core.CmpChain
/-! Line protocol driver for C01.
in : `run <prog> <args>`   prog = `(prog (<T>…) <stmt>…)`, args = `(args <o>…)` (s-expressions, Core/Sexp.lean)
        prog may carry `(rets <T>…)` (declared return types of the helper functions) after the parameter types
        stmt = `(asg x e)` | `(if t (<stmt>…) (<stmt>…))` | `(ret e)` | `(unp (x…) e)` | `(for x e (<stmt>…))` | `(aug x e)`
        expr = `(lit o)` | `(var x)` | `(tup e…)` | `(lst e…)` | `(sub e i)` | `(ite t a b)` | `(call f e…)` | `(add a b)`
        test = `(isnone x)` | `(notnone x)` | `(not t)`
     `cls <skeleton tokens>`   (Spec/D01.lean)     `call <shared> <seqForm> <valSeq>`     `conv <isListOrTuple> <seqForm> <valSeq>`     `subl <isSub> <assignedInLoop>`     `comp <inLoop> <staleParent> <joinReset>`     `masq <asOverSeq> <constrainingSub>`     `curt <unionRoot> <narrowedByTest>`     `unret <unannotated> <mayFallOff>`
     `(chn (scope (x L…)…) (test t) (env (x L)…) (omega b…))`  (Core/CmpChain.lean)   t = `(not t)` | `(chain link…)`, link = `(o)` |
        `(a x pred pos)`, pred = `(eq L)` | `(ord lt|le|gt|ge L)` | `(in L…)`, L = `i<int>` | `s<chars>` | `n`;
        answer `P <scope> | N <scope> | H <value of the test>`
     `mem <o> <T>`     `creg <k1.k2…>` (the prefixes `_add_composite` records the composite under; `-` = the root)
out: run: `I <path>=<T>;… | F <flags> | X <path>=<o>;… | O <outcome> | A <argsOk>`  (path = indices joined by `.`, root first)
     cls: the classes, comma separated, `-` if none;   mem: `1`/`0`
-/
open Pya Pya.C01

def b2s (b : Bool) : String := if b then "1" else "0"

def toTest : Sexp → Option Test
  | .node [.atom "isnone", .atom x] => x.toNat?.map (Test.isNone · true)
  | .node [.atom "notnone", .atom x] => x.toNat?.map (Test.isNone · false)
  | .node [.atom "not", t] => (toTest t).map Test.tnot
  | _ => none

mutual
partial def toExpr : Sexp → Option Expr
  | .node [.atom "lit", o] => o.toObj.map Expr.lit
  | .node [.atom "var", .atom x] => x.toNat?.map Expr.var
  | .node (.atom "tup" :: es) => (toExprs es).map (Expr.disp false)
  | .node (.atom "lst" :: es) => (toExprs es).map (Expr.disp true)
  | .node [.atom "sub", e, .atom i] => do some (.sub (← toExpr e) (← i.toInt?))
  | .node [.atom "ite", t, a, b] => do some (.ite (← toTest t) (← toExpr a) (← toExpr b))
  | .node (.atom "call" :: .atom f :: es) => do some (.call (← f.toNat?) (← toExprs es))
  | .node [.atom "add", a, b] => do some (.add (← toExpr a) (← toExpr b))
  | _ => none
partial def toExprs : List Sexp → Option (List Expr)
  | [] => some []
  | x :: xs => do some ((← toExpr x) :: (← toExprs xs))
end

mutual
partial def toStmt : Sexp → Option Stmt
  | .node [.atom "asg", .atom x, e] => do some (.assign (← x.toNat?) (← toExpr e))
  | .node [.atom "ret", e] => (toExpr e).map Stmt.ret
  | .node [.atom "aug", .atom x, e] => do some (.aug (← x.toNat?) (← toExpr e))
  | .node [.atom "for", .atom x, e, .node b] => do some (.forS (← x.toNat?) (← toExpr e) (← toStmts b))
  | .node [.atom "unp", .node xs, e] => do
    some (.unpack (← xs.mapM fun x => match x with | .atom a => a.toNat? | _ => none) (← toExpr e))
  | .node [.atom "if", t, .node b, .node e] => do some (.ifs (← toTest t) (← toStmts b) (← toStmts e))
  | _ => none
partial def toStmts : List Sexp → Option (List Stmt)
  | [] => some []
  | x :: xs => do some ((← toStmt x) :: (← toStmts xs))
end

def toProg : Sexp → Option Prog
  | .node (.atom "prog" :: .node ts :: .node (.atom "rets" :: rs) :: ss) => do
    some ⟨← Sexp.toTys ts, ← Sexp.toTys rs, ← toStmts ss⟩
  | .node (.atom "prog" :: .node ts :: ss) => do some ⟨← Sexp.toTys ts, [], ← toStmts ss⟩
  | _ => none

/-- the helper functions of the harness (harness/props/c01.py MINI_HELPERS), for the `eval` stream -/
def implStd : Impl
  | 0, [_] => some (.int 7)
  | 1, [a] => some (if isNoneObj a then .none else .str "s")
  | 2, [_] => some (.tuple [.int 3, .str "t"])
  | 3, [_, _] => some (.list [.int 1, .int 2])
  | 4, [a] => some (match a with | .int n => .int n | _ => .none)
  | 5, [a] => some a
  | _, _ => none

def showPath (p : Path) : String := ".".intercalate (p.reverse.map toString)

def showFlags (f : Flags) : String :=
  let l := (if f.noneReject then ["noneReject"] else []) ++ (if f.litEq then ["literalEqMerge"] else []) ++
    (if f.loopNotFix then ["loopNotFix"] else []) ++ (if f.frag then ["frag"] else [])
  if l.isEmpty then "-" else ",".intercalate l

def showOutcome : Outcome → String
  | .normal _ => "normal"
  | .returned o => "ret " ++ o.show
  | .raised => "raised"

def runCase (p a : Sexp) : String :=
  match toProg p, a with
  | some prog, .node (.atom "args" :: os) =>
    match Sexp.toObjs os with
    | some args =>
      let st := infer prog
      let (out, lg) := exec implStd prog args
      let i := ";".intercalate (st.log.map fun (pt : Path × Ty) => s!"{showPath pt.1}={pt.2.show}")
      let x := ";".intercalate (lg.map fun (po : Path × Obj) => s!"{showPath po.1}={po.2.show}")
      s!"I {i} | F {showFlags st.flags} | X {x} | O {showOutcome out} | A {b2s (argsOk prog.params args)}"
    | none => "bad-op"
  | _, _ => "bad-op"

/-! skeleton parser -/
abbrev Toks := List String

mutual
partial def pBlock (ts : Toks) (acc : List Sk) : Option (List Sk × Toks) :=
  match ts with
  | "]" :: r => some (acc.reverse, r)
  | [] => none
  | _ => match pStmt ts with
    | some (s, r) => pBlock r (s :: acc)
    | none => none
partial def pBr (ts : Toks) : Option (List Sk × Toks) :=
  match ts with
  | "[" :: r => pBlock r []
  | _ => none
partial def pBrs (ts : Toks) (acc : List (List Sk)) : Option (List (List Sk) × Toks) :=
  match ts with
  | "}" :: r => some (acc.reverse, r)
  | _ => match pBr ts with
    | some (b, r) => pBrs r (b :: acc)
    | none => none
partial def pStmt (ts : Toks) : Option (Sk × Toks) :=
  match ts with
  | [] => none
  | t :: r =>
    match t.splitOn ":" with
    | ["a0"] => some (.a0, r) | ["a1"] => some (.a1, r) | ["o"] => some (.o 0, r)
    | ["o", f] => do some (.o (← f.toNat?), r)
    | ["br"] => some (.br, r) | ["co"] => some (.co, r) | ["ret"] => some (.ret, r) | ["rs"] => some (.rs, r)
    | ["u", f] => do some (.u (← f.toNat?), r)
    | ["if", f] => do
      let (b, r) ← pBr r
      let (e, r) ← pBr r
      some (.ite (← f.toNat?) b e, r)
    | ["wh", a, f] => do
      let (b, r) ← pBr r
      let (e, r) ← pBr r
      some (.loop (a == "1") (← f.toNat?) b e, r)
    | ["for"] => do
      let (b, r) ← pBr r
      let (e, r) ← pBr r
      some (.loop false 0 b e, r)
    | ["try"] => do
      let (b, r) ← pBr r
      match r with
      | "{" :: r => do
        let (hs, r) ← pBrs r []
        let (e, r) ← pBr r
        let (f, r) ← pBr r
        some (.try_ b hs e f, r)
      | _ => none
    | ["mt", i, f] =>
      match r with
      | "{" :: r => do
        let (cs, r) ← pBrs r []
        some (.mt (i == "1") (← f.toNat?) cs, r)
      | _ => none
    | _ => none
end

partial def pProg (ts : Toks) (acc : List Sk) : Option (List Sk) :=
  match ts with
  | [] => some acc.reverse
  | _ => match pStmt ts with
    | some (s, r) => pProg r (s :: acc)
    | none => none

/-! ### comparison chains -/
def toLit (a : String) : Option Chain.Lit :=
  if a == "n" then some .none
  else if a.startsWith "i" then (a.drop 1).toString.toInt?.map Chain.Lit.int
  else if a.startsWith "s" then some (.str (a.drop 1).toString)
  else none

def atomLit : Sexp → Option Chain.Lit
  | .atom a => toLit a
  | _ => none

def showLit : Chain.Lit → String
  | .int n => "i" ++ toString n
  | .str z => "s" ++ z
  | .none => "n"

def toOrd : String → Option Chain.Ord
  | "lt" => some .lt | "le" => some .le | "gt" => some .gt | "ge" => some .ge | _ => none

def toPred : Sexp → Option Chain.Pred
  | .node [.atom "eq", l] => (atomLit l).map Chain.Pred.eq
  | .node [.atom "ord", .atom op, l] => do some (.ord (← toOrd op) (← atomLit l))
  | .node (.atom "in" :: ls) => (ls.mapM atomLit).map Chain.Pred.isIn
  | _ => none

def toLink : Sexp → Option Chain.Link
  | .node [.atom "o"] => some .opaque
  | .node [.atom "a", .atom x, p, .atom pos] => do some (.narrowing (← x.toNat?) (← toPred p) (pos == "1"))
  | _ => none

partial def toCTest : Sexp → Option Chain.Test
  | .node [.atom "not", t] => (toCTest t).map Chain.Test.tnot
  | .node (.atom "chain" :: ls) => (ls.mapM toLink).map Chain.Test.chain
  | _ => none

def toScopeEntry : Sexp → Option (Nat × List Chain.Lit)
  | .node (.atom x :: ls) => do some (← x.toNat?, ← ls.mapM atomLit)
  | _ => none

def showScope (sc : Chain.Scope) : String :=
  ";".intercalate (sc.map fun e => toString e.1 ++ "=" ++ ",".intercalate (e.2.map showLit))

def chnCase (sc t env om : List Sexp) : String :=
  match sc.mapM toScopeEntry, t, env.mapM toScopeEntry with
  | some sc, [t], some env =>
    match toCTest t with
    | some t =>
      let ρ : Nat → Chain.Lit := fun x => match env.find? (·.1 == x) with | some (_, [l]) => l | _ => .none
      let oms := om.map fun a => match a with | .atom "1" => true | _ => false
      let ω : Nat → Bool := fun i => oms.getD i false
      let (p, n) := t.branches sc
      "P " ++ showScope p ++ " | N " ++ showScope n ++ " | H " ++ b2s (t.eval ρ ω)
    | none => "bad-op"
  | _, _, _ => "bad-op"

def showCPath (p : CPath) : String := if p.isEmpty then "-" else ".".intercalate (p.map toString)

def handle (line : String) : String :=
  if line.startsWith "creg " then
    match (((line.drop 5).toString.splitOn ".").filter (· != "")).mapM String.toNat? with
    | some c => ";".intercalate ((recordedUnder addCompositeLo addCompositeHiOff c).map showCPath)
    | none => "bad-op"
  else if line.startsWith "cls " || line == "cls" then
    match pProg (((line.drop 3).toString.splitOn " ").filter (· != "")) [] with
    | some prog => (match d01Classes prog with | [] => "-" | cs => ",".intercalate cs)
    | none => "bad-op"
  else
  match readSexps line with
  | some [.atom "run", p, a] => runCase p a
  | some [.atom "call", .atom a, .atom l, .atom r] =>
    if D01_seqLeniency (a == "1") (l == "1") (r == "1") then "C04:seqLeniency" else "-"
  | some [.atom "conv", .atom a, .atom l, .atom r] =>
    if D01_setDisplayOrder (a == "1") (l == "1") (r == "1") then "setDisplayOrder" else "-"
  | some [.atom "subl", .atom a, .atom l] =>
    if D01_loopCarriedSubscript (a == "1") (l == "1") then "loopCarriedSubscript" else "-"
  | some [.atom "comp", .atom a, .atom b, .atom c] =>
    (match d01CompositeClasses (a == "1") (b == "1") (c == "1") with | [] => "-" | cs => ",".intercalate cs)
  | some [.atom "curt", .atom a, .atom b] =>
    if D01_compositeUnionRoot (a == "1") (b == "1") then "compositeUnionRoot" else "-"
  | some [.atom "unret", .atom a, .atom b] =>
    if D01_implicitNoneReturn (a == "1") (b == "1") then "implicitNoneReturn" else "-"
  | some [.atom "masq", .atom a, .atom b] =>
    if D01_matchAsNested (a == "1") (b == "1") then "matchAsNested" else "-"
  | some [.node [.atom "chn", .node (.atom "scope" :: sc), .node (.atom "test" :: t), .node (.atom "env" :: env),
      .node (.atom "omega" :: om)]] => chnCase sc t env om
  | some [.atom "mem", o, t] =>
    match o.toObj, t.toTy with
    | some o, some t => b2s (mem liveTable o t)
    | _, _ => "bad-op"
  | _ => "bad-op"

partial def loop (h : IO.FS.Stream) : IO Unit := do
  let line ← h.getLine
  if line.isEmpty then return ()
  IO.println (handle (line.trimAscii.toString))
  loop h

def main : IO Unit := do loop (← IO.getStdin)
