import PyaModel.Core.Sexp
import PyaModel.Spec.NarrowSpec
import PyaModel.Generated.ClassTable
import PyaModel.Generated.NarrowTables
/-! Line protocol driver for C02 (narrowing).
in : `narrow <V> <cond> <0|1>`            → the narrowed type (s-expression)
     `narrowb <V> <bcond> <0|1>`          → same for a boolean combination
     `check <V> <cond> <0|1> <o>`         → `<o∈V><condOk><holds><o∈narrowed><o∈tested> D=<classes|->`
     `checkb <V> <bcond> <0|1> <o>`       → `<o∈V><condOk><holds><o∈narrowed> D=<classes|->`
     `match <V> (<pat>…) <i>`            → type of the subject in the body of case i (i = #cases: fall-through)
     `matchafter <V> (<pat>…)`           → type of the subject after the statement (no body leaves)
     `matchcheck <V> (<pat>…) <o>`       → `<o∈V><patOk><o∈body of the case that runs><o∈after> <case index> D=<classes|->`
     `gmatch <V> ((case <pat> <bcond|->)…) <i>` / `gmatchafter …` / `gmatchcheck <V> (cases) <o> <o_other> (<bit>…)`
                                           → the same for cases with guards, in an environment
     `bool <V>`                           → Boolability name of `get_boolability`
     `verdict <V> <o>`                    → `<Boolability> <truthy o> D=<classes|->`
     `holds <cond> <o>`                   → `<condOk><holds>`
     `truthy <o>` | `len <o>`             → `0|1` | `n|-`
out: one line per input line; `bad-op` if unparseable.
conds: (isinst c…) (issub c…) (is O) (isnot O) (eq O) (ne O) (in O) (notin O) truthy (len op n) (lenrev op n)
       (typeis T) (typeguard T) (mclass c) (ainst c) (ais O);  bconds: cond | (other cond) | (cap cond) | (opq i) | (not B) | (and B…) | (or B…)
     `checkbe <V> <bcond> <0|1> <o> <o_other> (<bit>…)` = `checkb` in an environment
pats : (msingle O) (mvalue O) (mclass c) mwild (mor P…)
-/
open Pya Pya.C02

def b2s (b : Bool) : String := if b then "1" else "0"

def toOp : String → Option CmpOp
  | "eq" => some .eq | "ne" => some .ne | "lt" => some .lt | "le" => some .le
  | "gt" => some .gt | "ge" => some .ge | _ => none

def toNats : List Sexp → Option (List Nat)
  | [] => some []
  | .atom s :: xs => do some ((← s.toNat?) :: (← toNats xs))
  | _ => none

def toCond : Sexp → Option Cond
  | .node (.atom "isinst" :: cs) => (toNats cs).map .isinst
  | .node (.atom "issub" :: cs) => (toNats cs).map .issub
  | .node [.atom "is", o] => o.toObj.map .is
  | .node [.atom "isnot", o] => o.toObj.map .isNot
  | .node [.atom "eq", o] => o.toObj.map .eq
  | .node [.atom "ne", o] => o.toObj.map .ne
  | .node [.atom "in", o] => o.toObj.map .inC
  | .node [.atom "notin", o] => o.toObj.map .notIn
  | .atom "truthy" => some .truthy
  | .node [.atom "len", .atom op, .atom n] => do some (.len (← toOp op) (← n.toInt?))
  | .node [.atom "lenrev", .atom op, .atom n] => do some (.lenRev (← toOp op) (← n.toInt?))
  | .node [.atom "typeis", t] => t.toTy.map .typeIs
  | .node [.atom "typeguard", t] => t.toTy.map .typeGuard
  | .node [.atom "mclass", .atom c] => c.toNat?.map .matchClass
  | .node [.atom "ainst", .atom c] => c.toNat?.map .assertInst
  | .node [.atom "ais", o] => o.toObj.map .assertIs
  | _ => none

mutual
def toBCond : Sexp → Option BCond
  | .node [.atom "other", c] => (toCond c).map .other
  | .node [.atom "cap", c] => (toCond c).map .capture
  | .node [.atom "opq", .atom i] => i.toNat?.map .opaque
  | .node [.atom "not", b] => (toBCond b).map .not
  | .node (.atom "and" :: bs) => (toBConds bs).map .and
  | .node (.atom "or" :: bs) => (toBConds bs).map .or
  | s => (toCond s).map .leaf
def toBConds : List Sexp → Option (List BCond)
  | [] => some []
  | b :: bs => do some ((← toBCond b) :: (← toBConds bs))
end

mutual
def toPat : Sexp → Option Pat
  | .node [.atom "msingle", o] => o.toObj.map .singleton
  | .node [.atom "mvalue", o] => o.toObj.map .value
  | .node [.atom "mclass", .atom c] => c.toNat?.map .cls
  | .atom "mwild" => some .wildcard
  | .node (.atom "mor" :: ps) => (toPats ps).map .or
  | _ => none
def toPats : List Sexp → Option (List Pat)
  | [] => some []
  | p :: ps => do some ((← toPat p) :: (← toPats ps))
end

def toCases : List Sexp → Option (List MCase)
  | [] => some []
  | .node [.atom "case", p, .atom "-"] :: cs => do some (⟨← toPat p, none⟩ :: (← toCases cs))
  | .node [.atom "case", p, g] :: cs => do some (⟨← toPat p, some (← toBCond g)⟩ :: (← toCases cs))
  | _ => none

def toEnv (oy : Obj) (bits : List Sexp) : Env :=
  { other := oy, bits := bits.map fun s => match s with | .atom "1" => true | _ => false }

def showD : List String → String
  | [] => "-"
  | cs => ",".intercalate cs.eraseDups

def handle (line : String) : String :=
  let tbl := liveTable
  let T := liveBool
  match readSexps line with
  | some [.atom "narrow", v, c, .atom p] =>
    match v.toTy, toCond c with
    | some v, some c => (narrow tbl T v c (p == "1")).show
    | _, _ => "bad-op"
  | some [.atom "narrowb", v, c, .atom p] =>
    match v.toTy, toBCond c with
    | some v, some b => (narrowB tbl T v b (p == "1")).show
    | _, _ => "bad-op"
  | some [.atom "check", v, c, .atom p, o] =>
    match v.toTy, toCond c, o.toObj with
    | some v, some c, some o =>
      let pol := p == "1"
      b2s (mem tbl o v) ++ b2s (condOk tbl c o) ++ b2s (holds tbl c o) ++
        b2s (mem tbl o (narrow tbl T v c pol)) ++ b2s (mem tbl o (tested c)) ++
        " D=" ++ showD (d02 tbl T v c pol o)
    | _, _, _ => "bad-op"
  | some [.atom "checkb", v, c, .atom p, o] =>
    match v.toTy, toBCond c, o.toObj with
    | some v, some b, some o =>
      let pol := p == "1"
      b2s (mem tbl o v) ++ b2s (condOkB tbl {} b o) ++ b2s (holdsB tbl {} b o) ++
        b2s (mem tbl o (narrowB tbl T v b pol)) ++ " D=" ++ showD (d02B tbl T v b o)
    | _, _, _ => "bad-op"
  | some [.atom "checkbe", v, c, .atom p, o, oy, .node bits] =>
    -- the same with an environment: the object of the other variable and the opaque bits
    match v.toTy, toBCond c, o.toObj, oy.toObj with
    | some v, some b, some o, some oy =>
      let pol := p == "1"
      let ρ : Env := { other := oy, bits := bits.map fun s => match s with | .atom "1" => true | _ => false }
      b2s (mem tbl o v) ++ b2s (condOkB tbl ρ b o) ++ b2s (holdsB tbl ρ b o) ++
        b2s (mem tbl o (narrowB tbl T v b pol)) ++ " D=" ++ showD (d02B tbl T v b o)
    | _, _, _, _ => "bad-op"
  | some [.atom "match", v, .node ps, .atom i] =>
    match v.toTy, toPats ps, i.toNat? with
    | some v, some ps, some i => (matchBody tbl T v ps i).show
    | _, _, _ => "bad-op"
  | some [.atom "matchafter", v, .node ps] =>
    match v.toTy, toPats ps with
    | some v, some ps => (matchAfter tbl T v ps).show
    | _, _ => "bad-op"
  | some [.atom "matchcheck", v, .node ps, o] =>
    match v.toTy, toPats ps, o.toObj with
    | some v, some ps, some o =>
      let i := firstMatch tbl ps o
      b2s (mem tbl o v) ++ b2s (Pat.okAll tbl ps o) ++ b2s (mem tbl o (matchBody tbl T v ps i)) ++
        b2s (mem tbl o (matchAfter tbl T v ps)) ++ " " ++ toString i ++ " D=" ++ showD (dMatch tbl T v ps i o)
    | _, _, _ => "bad-op"
  | some [.atom "gmatch", v, .node cs, .atom i] =>
    match v.toTy, toCases cs, i.toNat? with
    | some v, some cs, some i => (gmatchBody tbl T v cs i).show
    | _, _, _ => "bad-op"
  | some [.atom "gmatchafter", v, .node cs] =>
    match v.toTy, toCases cs with
    | some v, some cs => (gmatchAfter tbl T v cs).show
    | _, _ => "bad-op"
  | some [.atom "gmatchcheck", v, .node cs, o, oy, .node bits] =>
    match v.toTy, toCases cs, o.toObj, oy.toObj with
    | some v, some cs, some o, some oy =>
      let ρ := toEnv oy bits
      let i := gfirstMatch tbl ρ cs o
      b2s (mem tbl o v) ++ b2s (gcasesOk tbl ρ cs o) ++ b2s (mem tbl o (gmatchBody tbl T v cs i)) ++
        b2s (mem tbl o (gmatchAfter tbl T v cs)) ++ " " ++ toString i ++ " D=" ++ showD (dGMatch tbl T v cs i o)
    | _, _, _, _ => "bad-op"
  | some [.atom "verdict", v, o] =>
    match v.toTy, o.toObj with
    | some v, some o => (getBool tbl T v).name ++ " " ++ b2s (truthy o) ++ " D=" ++ showD (dVerdict tbl T v o)
    | _, _ => "bad-op"
  | some [.atom "bool", v] =>
    match v.toTy with
    | some v => (getBool tbl T v).name
    | none => "bad-op"
  | some [.atom "holds", c, o] =>
    match toCond c, o.toObj with
    | some c, some o => b2s (condOk tbl c o) ++ b2s (holds tbl c o)
    | _, _ => "bad-op"
  | some [.atom "truthy", o] =>
    match o.toObj with
    | some o => b2s (truthy o)
    | none => "bad-op"
  | some [.atom "len", o] =>
    match o.toObj with
    | some o => (match objLen o with | some n => toString n | none => "-")
    | none => "bad-op"
  | _ => "bad-op"

partial def loop (h : IO.FS.Stream) : IO Unit := do
  let line ← h.getLine
  if line.isEmpty then return ()
  IO.println (handle (line.trimAscii.toString))
  loop h

def main : IO Unit := do loop (← IO.getStdin)
