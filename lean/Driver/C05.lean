import PyaModel.Spec.CpyBind
/-! Line protocol driver for C05.
in : `<params> | <args>`   params: `name:kind:dflt` (kind ∈ po pk vp ko vk; dflt ∈ 0 1)
                           args: `p` | `s<n>` | `S` | `k:<name>` | `d:<n1>,<n2>…` | `D`
out: `pya=<ERR|name=pos;…> cpy=<0|1|NA>`   (cpy only for calls without S / D)
-/
open Pya

def parseKind : String → Option Kind
  | "po" => some .posOnly | "pk" => some .posOrKw | "vp" => some .varPos
  | "ko" => some .kwOnly | "vk" => some .varKw | _ => none

def parseParam (t : String) : Option Param :=
  match t.splitOn ":" with
  | [n, k, d] => (parseKind k).map fun k => ⟨n, k, d == "1"⟩
  | _ => none

def parseArg (t : String) : Option Arg :=
  if t == "p" then some .pos
  else if t == "S" then some .starUnk
  else if t == "D" then some .dstarUnk
  else if t.startsWith "s" then (t.drop 1).toNat?.map Arg.starLit
  else if t.startsWith "k:" then some (.kw (t.drop 2).toString)
  else if t == "d:" then some (.dstarLit [])
  else if t.startsWith "d:" then some (.dstarLit ((t.drop 2).toString.splitOn ","))
  else none

def toDefSig (ps : List Param) : DefSig :=
  let f (k : Kind) := (ps.filter (·.kind == k)).map fun p => (⟨p.name, p.dflt⟩ : P)
  { po := f .posOnly, pk := f .posOrKw, vp := ((ps.filter (·.kind == .varPos)).map (·.name)).head?,
    ko := f .kwOnly, vk := ((ps.filter (·.kind == .varKw)).map (·.name)).head? }

def showPos : Pos → String
  | .idx n => s!"{n}" | .kw s => s!"'{s}'" | .args => "ARGS" | .kwargs => "KWARGS"
  | .dflt => "DEFAULT" | .unknown => "UNKNOWN"

def words (s : String) : List String := (s.splitOn " ").filter (· != "")

def concrete (args : List Arg) : Option CCall :=
  args.foldlM (fun (c : CCall) a => match a with
    | .pos => some { c with npos := c.npos + 1 }
    | .starLit n => some { c with npos := c.npos + n }
    | .kw k => some { c with kws := c.kws ++ [k] }
    | .dstarLit ks => some { c with kws := c.kws ++ ks }
    | _ => none) ⟨0, []⟩

/-- Exception class `D05.starThenKw` (see Props/C05.lean): a `*args` of unknown length is passed
and a keyword names a positional-or-keyword parameter that lies strictly after the first slot the
star argument would fill. -/
def dClass (ps : List Param) (as : List Arg) : String :=
  match preprocess as with
  | some a => if D05_starThenKw ps a then "starThenKw" else "-"
  | none => "-"

def handle (line : String) : String :=
  match line.splitOn "|" with
  | [ps, as] =>
    match (words ps).mapM parseParam, (words as).mapM parseArg with
    | some ps, some as =>
      let pya := match pyaCall ps as with
        | none => "ERR"
        | some b => ";".intercalate (b.map fun (np : String × Pos) => s!"{np.1}={showPos np.2}")
      let cpy := match concrete as with
        | some c => if cpyBind (toDefSig ps) c then "1" else "0"
        | none => "NA"
      s!"pya={pya} cpy={cpy} D={dClass ps as}"
    | _, _ => "bad-op"
  | _ => "bad-op"

partial def loop (h : IO.FS.Stream) : IO Unit := do
  let line ← h.getLine
  if line.isEmpty then return ()
  IO.println (handle (line.trimAscii.toString))
  loop h

def main : IO Unit := do loop (← IO.getStdin)
