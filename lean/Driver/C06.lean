import PyaModel.Core.Sexp
import PyaModel.Spec.CallSpec
import PyaModel.Generated.ClassTable
/-! Line protocol driver for C06 (s-expressions, Core/Sexp.lean).
in : `(KIND (params P…) (ret T) (tvs TV…) (self S) (cls N) (pos O…) (kws (NAME O)…) (tmpl TM))`
       KIND := plain | bound | ctor
       P    := (p NAME po|pk|vp|ko|vk DFLT ANN)      DFLT := - | (d OBJ)
       TV   := (tv I BOUND (cs T…))                  BOUND := - | (b T)
       S    := - | T          (the receiver value of a bound call)
       TM   := - | (param NAME) | (elem NAME) | (const OBJ)
     for `bound` / `ctor` the first parameter is the receiver (`self` / `cls`)
out: `v=… | ret=… | sol=… | bind=… | land=… | sdiag=… | sacc=… | res=… | rmem=… | D=…`
       v     model verdict: BIND | TVARG:p | RESOLVE | OK:p1,p2…    ret: model's value of the call
       sol   model's type-variable solution                          bind: cpyBind (spec)
       land  cpyLand (spec)     sdiag specDiag (non-generic, binds)  sacc specAccepts (no error)
       res   what the template body returns (spec)   rmem  mem res ret   D exception classes
-/
open Pya Pya.C06

def b2s (b : Bool) : String := if b then "1" else "0"

def parseKind : String → Option Kind
  | "po" => some .posOnly | "pk" => some .posOrKw | "vp" => some .varPos
  | "ko" => some .kwOnly | "vk" => some .varKw | _ => none

def parseParam : Sexp → Option AParam
  | .node [.atom "p", .atom n, .atom k, d, a] => do
    let k ← parseKind k
    let a ← a.toTy
    let d ← (match d with
      | .atom "-" => some none
      | .node [.atom "d", o] => o.toObj.map some
      | _ => none)
    some ⟨n, k, d, a⟩
  | _ => none

def parseTv : Sexp → Option (Nat × C15.TV)
  | .node [.atom "tv", .atom i, b, .node (.atom "cs" :: cs)] => do
    let i ← i.toNat?
    let cs ← Sexp.toTys cs
    let b ← (match b with
      | .atom "-" => some none
      | .node [.atom "b", t] => t.toTy.map some
      | _ => none)
    some (i, { bound := b, constraints := cs })
  | _ => none

def parseKw : Sexp → Option (String × Obj)
  | .node [.atom k, o] => o.toObj.map (k, ·)
  | _ => none

def parseTmpl : Sexp → Option (Option Tmpl)
  | .atom "-" => some none
  | .node [.atom "param", .atom n] => some (some (.retParam n))
  | .node [.atom "elem", .atom n] => some (some (.retElem n))
  | .node [.atom "const", o] => o.toObj.map fun o => some (.retConst o)
  | _ => none

def toSSig (ps : List AParam) (ret : Ty) (tvs : TvDecls) : SSig :=
  let f (k : Kind) := (ps.filter (·.kind == k)).map fun p => (⟨p.name, p.dflt, p.ann⟩ : SP)
  { po := f .posOnly, pk := f .posOrKw,
    vp := ((ps.filter (·.kind == .varPos)).map fun p => (p.name, p.ann)).head?,
    ko := f .kwOnly,
    vk := ((ps.filter (·.kind == .varKw)).map fun p => (p.name, p.ann)).head?,
    ret := ret, tvs := tvs }

def showVerdict : Verdict → String
  | .bindErr => "BIND"
  | .tvArgErr p => s!"TVARG:{p}"
  | .tvResolveErr => "RESOLVE"
  | .done bad => "OK:" ++ ",".intercalate bad

def showLanded : Landed → String
  | .one o => s!"(one {o.show})"
  | .star os => "(star" ++ Obj.showList os ++ ")"
  | .dstar kvs => "(dstar" ++ String.join (kvs.map fun kv => s!" ({kv.1} {kv.2.show})") ++ ")"
  | .dflt => "dflt"

def showSol (m : TvMap) : String :=
  " ".intercalate (m.map fun (i, t) => s!"({i} {t.show})")

def isOkNoErr : Verdict → Bool
  | .done [] => true
  | _ => false

def parsePosItem : Sexp → Option PosItem
  | .node [.atom "s", t] => t.toTy.map (true, ·)
  | .node [.atom "p", t] => t.toTy.map (false, ·)
  | _ => none

def handle (line : String) : String :=
  match readSexps line with
  | some [.node (.atom "starmerge" :: its)] =>
    match its.mapM parsePosItem with
    | some its => (match starMerge its with | some t => t.show | none => "none")
    | none => "bad-op"
  | some [.node [.atom kind, .node (.atom "params" :: ps), .node [.atom "ret", ret],
      .node (.atom "tvs" :: tvs), .node [.atom "self", self], .node [.atom "cls", .atom cls],
      .node (.atom "pos" :: pos), .node (.atom "kws" :: kws), .node [.atom "tmpl", tm]]] =>
    match ps.mapM parseParam, ret.toTy, tvs.mapM parseTv, Sexp.toObjs pos, kws.mapM parseKw,
        parseTmpl tm, cls.toNat? with
    | some ps, some ret, some tvs, some pos, some kws, some tm, some cls =>
      let lc : LCall := ⟨pos, kws⟩
      let full : ASig := { params := ps, ret := ret, tvs := tvs }
      -- model outcome and the header CPython binds the written arguments against
      let res : Option (Outcome × SSig) :=
        if kind == "plain" then some (checkCall liveTable full lc.toV, toSSig ps ret tvs)
        else if kind == "bound" then
          match self.toTy with
          | some sv => some (boundCall liveTable full sv lc.toV, toSSig (ps.drop 1) ret tvs)
          | none => none
        else if kind == "ctor" then
          match ctorSig cls full with
          | some s => some (checkCall liveTable s lc.toV, toSSig s.params s.ret tvs)
          | none => none
        else none
      match res with
      | none => "bad-op"
      | some (out, ss) =>
        let binds := cpyBind ss.defSig lc.ccall
        let land := " ".intercalate ((cpyLand ss lc).map fun sl => s!"({sl.name} {showLanded sl.got})")
        let sdiag := if binds && !ss.generic then b2s (specDiag liveTable ss lc) else "NA"
        let sacc := if binds && isOkNoErr out.verdict then b2s (specAccepts liveTable out.sol ss lc) else "NA"
        let r := match tm with
          | some t => if binds then runTmpl ss lc t else none
          | none => none
        let rs := match r with | some o => o.show | none => "NA"
        let rmem := match r with | some o => b2s (mem liveTable o out.ret) | none => "NA"
        let d := match d06Classes liveTable out.sol ss lc with | [] => "-" | cs => ",".intercalate cs
        s!"v={showVerdict out.verdict} | ret={out.ret.show} | sol={showSol out.sol} | bind={b2s binds} | land={land} | sdiag={sdiag} | sacc={sacc} | res={rs} | rmem={rmem} | D={d}"
    | _, _, _, _, _, _, _ => "bad-op"
  | _ => "bad-op"

partial def loop (h : IO.FS.Stream) : IO Unit := do
  let line ← h.getLine
  if line.isEmpty then return ()
  IO.println (handle (line.trimAscii.toString))
  loop h

def main : IO Unit := do loop (← IO.getStdin)
