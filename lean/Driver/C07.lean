import PyaModel.Spec.SigAssignSpec
import PyaModel.Generated.SigTypes
/-! Line protocol driver for C07.
in : `P <sig> | <sig>`                 expected | actual  (`Q …` = same, but search counterexamples
                                        also when the model rejects the pair; `P` prints NA then)
     `O <sig> ; <sig> … | <sig> ; …`   overloads on either side
     sig    = `<param> <param> … -> <tag>`
     param  = `name:kind:dflt:tag`  (kind ∈ po pk vp ko vk; dflt ∈ 0 1; tag ∈ any object int bool float str)
out: P: `acc=<0|1> cex=<-|npos;k1,k2> tcex=<-|npos;k1,k2> D=<-|class,class>`
        acc  = model verdict (`sigCanAssign liveTyRel`)
        cex  = first call shape (≤3 positionals, ≤3 keywords over the parameter names + `z`) bound by
               the expected header and not by the actual one (spec `cpyBind`)
        tcex = first call shape bound by both with an argument landing on a non-supertype annotation
        D    = exception classes of the pair
     O: `acc=<0|1>`
-/
open Pya Pya.C07

def parseKind : String → Option Kind
  | "po" => some .posOnly | "pk" => some .posOrKw | "vp" => some .varPos
  | "ko" => some .kwOnly | "vk" => some .varKw | _ => none

def parseTag : String → Option Tag
  | "any" => some .any | "object" => some .object | "int" => some .int | "bool" => some .bool
  | "float" => some .float | "str" => some .str | _ => none

def parseParam (t : String) : Option (TParam Tag) :=
  match t.splitOn ":" with
  | [n, k, d, a] => do
    let k ← parseKind k
    let a ← parseTag a
    if d == "0" || d == "1" then some ⟨n, k, d == "1", a⟩ else none
  | _ => none

def words (s : String) : List String := (s.splitOn " ").filter (· != "")

def parseSig (s : String) : Option (TSig Tag) :=
  match s.splitOn "->" with
  | [ps, r] => do
    let ps ← (words ps).mapM parseParam
    match words r with
    | [r] => do some ⟨ps, ← parseTag r⟩
    | _ => none
  | _ => none

/-- Regroup a parameter list by kind (the harness only sends def-shaped lists). -/
def toTDefSig (s : TSig Tag) : TDefSig Tag :=
  let f (k : Kind) := (s.params.filter (·.kind == k)).map fun p => (⟨p.name, p.dflt, p.ann⟩ : TP Tag)
  let g (k : Kind) := ((s.params.filter (·.kind == k)).map fun p => (p.name, p.ann)).head?
  { po := f .posOnly, pk := f .posOrKw, vp := g .varPos, ko := f .kwOnly, vk := g .varKw, ret := s.ret }

def showCall : Option CCall → String
  | none => "-"
  | some c => s!"{c.npos};{",".intercalate c.kws}"

def dedup (l : List String) : List String := l.foldl (fun acc x => if acc.contains x then acc else acc ++ [x]) []

def handle (line : String) : String :=
  if line.startsWith "P " || line.startsWith "Q " then
    let force := line.startsWith "Q "
    match (line.drop 2).toString.splitOn "|" with
    | [e, a] =>
      match parseSig e, parseSig a with
      | some e, some a =>
        let E := toTDefSig e
        let A := toTDefSig a
        let acc := sigCanAssign liveTyRel e a
        let names := dedup ((e.params ++ a.params).map (·.name) ++ ["z"])
        let d := match d07Classes E A with | [] => "-" | cs => ",".intercalate cs
        if acc || force then
          let cex := behCex 3 3 names E A
          let tcex := typedCex tagIncl 3 3 names E A
          s!"acc={if acc then 1 else 0} cex={showCall cex} tcex={showCall tcex} D={d}"
        else s!"acc=0 cex=NA tcex=NA D={d}"
      | _, _ => "bad-op"
    | _ => "bad-op"
  else if line.startsWith "O " then
    match (line.drop 2).toString.splitOn "|" with
    | [es, as] =>
      match (es.splitOn ";").mapM parseSig, (as.splitOn ";").mapM parseSig with
      | some es, some as => s!"acc={if ovCanAssign liveTyRel es as then 1 else 0}"
      | _, _ => "bad-op"
    | _ => "bad-op"
  else "bad-op"

partial def loop (h : IO.FS.Stream) : IO Unit := do
  let line ← h.getLine
  if line.isEmpty then return ()
  IO.println (handle (line.trimAscii.toString))
  loop h

def main : IO Unit := do loop (← IO.getStdin)
