import PyaModel.Spec.SigAssignSpec
import PyaModel.Spec.OverrideSpec
import PyaModel.Core.Obtain
import PyaModel.Generated.SigTypes
/-! Line protocol driver for C07.
in : `P <sig> | <sig>`                 expected | actual  (`Q …` = same, but search counterexamples
                                        also when the model rejects the pair; `P` prints NA then)
     `O <sig> ; <sig> … | <sig> ; …`   overloads on either side
     sig    = `<param> <param> … -> <tag>`
     param  = `name:kind:dflt:tag`  (kind ∈ po pk vp ko vk; dflt ∈ 0 1; tag ∈ any object int bool float str)
out: P: `acc=<0|1> cex=<-|npos;k1,k2> tcex=<-|npos;k1,k2> D=<-|class,class>`
        acc  = model verdict (`sigCanAssign liveTyRel`)
        cex  = first call shape (≤3 positionals, ≤3 keywords over the parameter names + `z`) bound by
               the expected header and not by the actual one (spec `cpyBind`)
        tcex = first call shape bound by both with an argument landing on a non-supertype annotation
        D    = exception classes of the pair
     O: `acc=<0|1>`
     `G <how> <depth> <sig> | <sig>`   expected | the def header of a callable obtained `how` (plain nested lambda bound
                                        funcViaClass staticInst staticCls classInst classCls callInst ctor prop)
     out: as for `Q`, computed for (expected, effectiveSig how header), followed by ` eff=<sig>` (the effective header)
     `H <class> ; <class> ; …`         a class hierarchy and ONE attribute name; class i (0-based, bases have smaller
                                        indices) = `<bases: - | i,j> @ <member>`, member = `-` (not bound in the body) |
                                        `m <sig>` (method, sig without self) | `s <sig>` (staticmethod) |
                                        `p <tag> <0|1>` (property: getter type, has a setter)
     out: one token per class `i|<mro: i,j,… or ERR>|<ok: 1 0 ->|<bad: ancestors it is incompatible with or ->|
          <d: j:class+class,… exception classes / failed property spec per compared ancestor, or ->`
          ok = model `overrideOk` (`-`: the class does not bind the name, or has no MRO)
-/
open Pya Pya.C07

def parseKind : String → Option Kind
  | "po" => some .posOnly | "pk" => some .posOrKw | "vp" => some .varPos
  | "ko" => some .kwOnly | "vk" => some .varKw | _ => none

def parseTag : String → Option Tag
  | "any" => some .any | "object" => some .object | "int" => some .int | "bool" => some .bool
  | "float" => some .float | "str" => some .str | _ => none

def parseParam (t : String) : Option (TParam Tag) :=
  match t.splitOn ":" with
  | [n, k, d, a] => do
    let k ← parseKind k
    let a ← parseTag a
    if d == "0" || d == "1" then some ⟨n, k, d == "1", a⟩ else none
  | _ => none

def words (s : String) : List String := (s.splitOn " ").filter (· != "")

def parseSig (s : String) : Option (TSig Tag) :=
  match s.splitOn "->" with
  | [ps, r] => do
    let ps ← (words ps).mapM parseParam
    match words r with
    | [r] => do some ⟨ps, ← parseTag r⟩
    | _ => none
  | _ => none

/-- Regroup a parameter list by kind (the harness only sends def-shaped lists). -/
def toTDefSig (s : TSig Tag) : TDefSig Tag :=
  let f (k : Kind) := (s.params.filter (·.kind == k)).map fun p => (⟨p.name, p.dflt, p.ann⟩ : TP Tag)
  let g (k : Kind) := ((s.params.filter (·.kind == k)).map fun p => (p.name, p.ann)).head?
  { po := f .posOnly, pk := f .posOrKw, vp := g .varPos, ko := f .kwOnly, vk := g .varKw, ret := s.ret }

def showCall : Option CCall → String
  | none => "-"
  | some c => s!"{c.npos};{",".intercalate c.kws}"

def dedup (l : List String) : List String := l.foldl (fun acc x => if acc.contains x then acc else acc ++ [x]) []

inductive HMember | absent | fn (m : FnMember Tag) | prop (ty : Tag) (settable : Bool)

def parseMember (s : String) : Option HMember :=
  let t := s.trimAscii.toString
  if t == "-" then some .absent
  else if t.startsWith "m " || t.startsWith "s " then
    (parseSig (t.drop 2).toString).map fun sg => .fn ⟨t.startsWith "s ", toTDefSig sg⟩
  else if t.startsWith "p " then
    match words (t.drop 2).toString with
    | [tg, st] => do
      let tg ← parseTag tg
      if st == "0" || st == "1" then some (.prop tg (st == "1")) else none
    | _ => none
  else none

def parseClass (s : String) : Option (List Nat × HMember) :=
  match s.splitOn "@" with
  | [bs, m] => do
    let bs := bs.trimAscii.toString
    let bl ← if bs == "-" then some [] else (bs.splitOn ",").mapM (·.trimAscii.toString.toNat?)
    let m ← parseMember m
    some (bl, m)
  | _ => none

def HMember.toMember : HMember → Option (Member Tag)
  | .absent => none
  | .fn m => some (m.member .any)
  | .prop t s => some (.prop t s)

def showNats (l : List Nat) : String := ",".intercalate (l.map toString)

def pairClasses : HMember → HMember → List String
  | .fn b, .fn c => d07FnClasses b c
  | .prop bt bs, .prop ct cs => if propSpecOk tagIncl bt bs ct cs then [] else ["propSpecFails"]
  | _, _ => []

def handleH (rest : String) : String :=
  match (rest.splitOn ";").mapM parseClass with
  | none => "bad-op"
  | some cs =>
    if (cs.zipIdx.any fun (c, i) => c.1.any (· ≥ i)) then "bad-op" else
    let mros := c3Mros (cs.map (·.1))
    let defs (i : Nat) : Option (Member Tag) := (cs[i]?).bind fun c => c.2.toMember
    let hm (i : Nat) : HMember := ((cs[i]?).map (·.2)).getD .absent
    let toks := cs.zipIdx.map fun (c, i) =>
      match mros.getD i none with
      | none => s!"{i}|ERR|-|-|-"
      | some mro =>
        match c.2.toMember with
        | none => s!"{i}|{showNats mro}|-|-|-"
        | some ch =>
          let anc := mro.drop 1
          let ok := overrideOk liveTyRel defs anc ch
          let bad := overrideBad liveTyRel defs anc ch
          let ds := anc.filterMap fun j =>
            match pairClasses (hm j) c.2 with
            | [] => none
            | l => some s!"{j}:{"+".intercalate l}"
          let sh (l : List String) := if l.isEmpty then "-" else ",".intercalate l
          s!"{i}|{showNats mro}|{if ok then 1 else 0}|{sh (bad.map toString)}|{sh ds}"
    " ".intercalate toks

def parseHow : String → Option How
  | "plain" => some .plain | "nested" => some .nested | "lambda" => some .lambda | "bound" => some .bound
  | "funcViaClass" => some .funcViaClass | "staticInst" => some .staticInst | "staticCls" => some .staticCls
  | "classInst" => some .classInst | "classCls" => some .classCls | "callInst" => some .callInst
  | "ctor" => some .ctor | "prop" => some .prop | _ => none

def showKind : Kind → String
  | .posOnly => "po" | .posOrKw => "pk" | .varPos => "vp" | .kwOnly => "ko" | .varKw => "vk"

def showTag : Tag → String
  | .any => "any" | .object => "object" | .int => "int" | .bool => "bool" | .float => "float" | .str => "str"

def showSig (s : TDefSig Tag) : String :=
  " ".intercalate (s.tparams.map fun p => s!"{p.name}:{showKind p.kind}:{if p.dflt then 1 else 0}:{showTag p.ann}")
    ++ " -> " ++ showTag s.ret

def pairReport (e : TSig Tag) (E A : TDefSig Tag) (force : Bool) : String :=
  let acc := sigCanAssign liveTyRel e A.tsig
  let names := dedup ((e.params ++ A.tparams).map (·.name) ++ ["z"])
  let d := match d07Classes E A with | [] => "-" | cs => ",".intercalate cs
  if acc || force then
    let cex := behCex 3 3 names E A
    let tcex := typedCex tagIncl 3 3 names E A
    s!"acc={if acc then 1 else 0} cex={showCall cex} tcex={showCall tcex} D={d}"
  else s!"acc=0 cex=NA tcex=NA D={d}"

def handleG (rest : String) : String :=
  match rest.splitOn "|" with
  | [l, a] =>
    match words l with
    | hw :: dp :: etoks =>
      match parseHow hw, dp.toNat?, parseSig (" ".intercalate etoks), parseSig a with
      | some how, some depth, some e, some a =>
        let E := toTDefSig e
        let eff := effectiveSig Tag.any ⟨how, depth⟩ (toTDefSig a)
        s!"{pairReport E.tsig E eff true} eff={showSig eff}"
      | _, _, _, _ => "bad-op"
    | _ => "bad-op"
  | _ => "bad-op"

def handle (line : String) : String :=
  if line.startsWith "P " || line.startsWith "Q " then
    let force := line.startsWith "Q "
    match (line.drop 2).toString.splitOn "|" with
    | [e, a] =>
      match parseSig e, parseSig a with
      | some e, some a =>
        let E := toTDefSig e
        let A := toTDefSig a
        let acc := sigCanAssign liveTyRel e a
        let names := dedup ((e.params ++ a.params).map (·.name) ++ ["z"])
        let d := match d07Classes E A with | [] => "-" | cs => ",".intercalate cs
        if acc || force then
          let cex := behCex 3 3 names E A
          let tcex := typedCex tagIncl 3 3 names E A
          s!"acc={if acc then 1 else 0} cex={showCall cex} tcex={showCall tcex} D={d}"
        else s!"acc=0 cex=NA tcex=NA D={d}"
      | _, _ => "bad-op"
    | _ => "bad-op"
  else if line.startsWith "O " then
    match (line.drop 2).toString.splitOn "|" with
    | [es, as] =>
      match (es.splitOn ";").mapM parseSig, (as.splitOn ";").mapM parseSig with
      | some es, some as => s!"acc={if ovCanAssign liveTyRel es as then 1 else 0}"
      | _, _ => "bad-op"
    | _ => "bad-op"
  else if line.startsWith "G " then handleG (line.drop 2).toString
  else if line.startsWith "H " then handleH (line.drop 2).toString
  else "bad-op"

partial def loop (h : IO.FS.Stream) : IO Unit := do
  let line ← h.getLine
  if line.isEmpty then return ()
  IO.println (handle (line.trimAscii.toString))
  loop h

def main : IO Unit := do loop (← IO.getStdin)
