import PyaModel.Core.Sexp
import PyaModel.Spec.Overload
import PyaModel.Generated.ClassTable
/-! Line protocol driver for C08 (s-expressions, Core/Sexp.lean).
in : `(call (sigs (sig (ps (p <name> <po|pk|vp|ko> <0|1> <ty>) …) <ret-ty>) …) (pos <ty> …) (kws (k <name> <ty>) …))`
     `(judge <expected-ty> <actual-ty>)`
out: `res=<ok:<ty>|multi|err> fm=<ok:<ty>|err> acc=<bits> ua=<bits> D=<class,…|->`   (bits: one per overload)
     `acc=<0|1> ua=<0|1>`
     `bad-op` for anything else (incl. `**kwargs` parameters, which are outside the model)
-/
open Pya Pya.C08

def b2s (b : Bool) : String := if b then "1" else "0"

def parseKind : String → Option Kind
  | "po" => some .posOnly | "pk" => some .posOrKw | "vp" => some .varPos | "ko" => some .kwOnly
  | _ => none

def parseParam : Sexp → Option OParam
  | .node [.atom "p", .atom n, .atom k, .atom d, t] => do
    some ⟨n, ← parseKind k, d == "1", ← t.toTy⟩
  | _ => none

def parseSig : Sexp → Option OSig
  | .node [.atom "sig", .node (.atom "ps" :: ps), r] => do
    some ⟨← ps.mapM parseParam, ← r.toTy⟩
  | _ => none

def parseKw : Sexp → Option (String × Ty)
  | .node [.atom "k", .atom n, t] => do some (n, ← t.toTy)
  | _ => none

def showRes : Res → String
  | .ok t => "ok:" ++ (t.show.replace " " "_")
  | .anyMulti => "multi"
  | .err => "err"

def handle (line : String) : String :=
  match readSexps line with
  | some [.node [.atom "call", .node (.atom "sigs" :: ss), .node (.atom "pos" :: ps), .node (.atom "kws" :: ks)]] =>
    match ss.mapM parseSig, Sexp.toTys ps, ks.mapM parseKw with
    | some sigs, some pos, some kws =>
      let a : CallArgs := ⟨pos, kws⟩
      let J := liveJudge liveTable
      let acc := String.join (sigs.map fun s => b2s (accepts J s a))
      let uas := String.join (sigs.map fun s => b2s (usedAnyIn J s a))
      let d := match d08Classes sigs a with | [] => "-" | cs => ",".intercalate cs
      s!"res={showRes (resolve J sigs a)} fm={showRes (firstMatch J sigs a)} acc={acc} ua={uas} D={d}"
    | _, _, _ => "bad-op"
  | some [.node [.atom "judge", e, v]] =>
    match e.toTy, v.toTy with
    | some e, some v => s!"acc={b2s (ca liveTable false e v)} ua={b2s (ua liveTable e v)}"
    | _, _ => "bad-op"
  | _ => "bad-op"

partial def loop (h : IO.FS.Stream) : IO Unit := do
  let line ← h.getLine
  if line.isEmpty then return ()
  IO.println (handle (line.trimAscii.toString))
  loop h

def main : IO Unit := do loop (← IO.getStdin)
