import PyaModel.Spec.Flow
/-! Line protocol driver for C09.
in : one skeleton per line, tokens separated by blanks; optional first token = scope kind of its variables:
       k:l (local, default)  k:p:<d0> (parameter with literal d0)  k:g:<d0> (global)  k:n:<d0> (nonlocal)
     then:
       a:<v>:<d>  u:<v>:<u>  c  ret  rs  br:<j>  co:<j>
       if [ B ] [ B ]     wh:<always> [ B ] [ B ]     for [ B ] [ B ]     with:<sup> [ B ]
       try [ B ] { [ H ] … } [ E ] nofin | try [ B ] { … } [ E ] fin [ F ]
out: `M <u>=<defs>!<code>;… | S <u>=<defs>;… | L <u>=<defs>;… | D=<classes>`
     M: what the model of pyanalyze reports at each use (defs sorted, `U` = unbound; code ∈ ok, undefined, possibly),
        checked to be the same in the checking-phase output and in usage_to_definition_nodes
     S / L: strict / liberal reaching definitions (`~` = use not reachable)
     D: exception classes the program falls in (`-` if none)
-/
open Pya Pya.C09

abbrev Toks := List String

def natOf (s : String) : Option Nat := s.toNat?

mutual
/-- parse statements until `]` (not consumed) or end of input -/
partial def pBlock (ts : Toks) (acc : List Stmt) : Option (Block × Toks) :=
  match ts with
  | [] => some (Block.ofList acc.reverse, [])
  | "]" :: _ => some (Block.ofList acc.reverse, ts)
  | _ => match pStmt ts with
    | some (s, r) => pBlock r (s :: acc)
    | none => none

/-- `[ B ]` -/
partial def pBr (ts : Toks) : Option (Block × Toks) :=
  match ts with
  | "[" :: r => match pBlock r [] with
    | some (b, "]" :: r') => some (b, r')
    | _ => none
  | _ => none

partial def pHandlers (ts : Toks) (acc : List Block) : Option (Handlers × Toks) :=
  match ts with
  | "}" :: r => some (Handlers.ofList acc.reverse, r)
  | _ => match pBr ts with
    | some (h, r) => pHandlers r (h :: acc)
    | none => none

partial def pStmt (ts : Toks) : Option (Stmt × Toks) :=
  match ts with
  | [] => none
  | t :: r =>
    match t.splitOn ":" with
    | ["a", v, d] => do some (.assign (← natOf v) (← natOf d), r)
    | ["u", v, u] => do some (.use (← natOf v) (← natOf u), r)
    | ["c"] => some (.call, r)
    | ["ret"] => some (.ret, r)
    | ["rs"] => some (.raise, r)
    | ["br", j] => do some (.brk (← natOf j), r)
    | ["co", j] => do some (.cont (← natOf j), r)
    | ["if"] => do
      let (b, r) ← pBr r
      let (e, r) ← pBr r
      some (.ite b e, r)
    | ["wh", a] => do
      let (b, r) ← pBr r
      let (e, r) ← pBr r
      some (.loop true (a == "1") b e, r)
    | ["for"] => do
      let (b, r) ← pBr r
      let (e, r) ← pBr r
      some (.loop false false b e, r)
    | ["with", s] => do
      let (b, r) ← pBr r
      some (.with_ (s == "1") b, r)
    | ["try"] => do
      let (b, r) ← pBr r
      match r with
      | "{" :: r =>
        let (hs, r) ← pHandlers r []
        let (e, r) ← pBr r
        match r with
        | "nofin" :: r => some (.try_ b hs e false .nil, r)
        | "fin" :: r =>
          let (f, r) ← pBr r
          some (.try_ b hs e true f, r)
        | _ => none
      | _ => none
    | _ => none
end

mutual
def usesS : Stmt → List (Nat × Nat)
  | .use v u => [(u, v)]
  | .ite t e => usesB t ++ usesB e
  | .loop _ _ b e => usesB b ++ usesB e
  | .try_ b hs e _ f => usesB b ++ usesH hs ++ usesB e ++ usesB f
  | .with_ _ b => usesB b
  | _ => []
def usesB : Block → List (Nat × Nat)
  | .nil => []
  | .cons s b => usesS s ++ usesB b
def usesH : Handlers → List (Nat × Nat)
  | .nil => []
  | .cons h hs => usesB h ++ usesH hs
end

def insertSorted (a : Nat) : List Nat → List Nat
  | [] => [a]
  | b :: r => if a < b then a :: b :: r else if a = b then b :: r else b :: insertSorted a r

def showSet (ds : List Node) : String :=
  let nums := (ds.filterMap id).foldl (fun acc d => insertSorted d acc) []
  let parts := nums.map toString ++ (if ds.contains none then ["U"] else [])
  if parts.isEmpty then "~" else ",".intercalate parts

def showDiag : Diag → String
  | .ok => "ok" | .undefined => "undefined" | .possibly => "possibly"

def sameSet (a b : List Node) : Bool := a.all b.contains && b.all a.contains

def dedupNat (l : List Nat) : List Nat := l.foldl (fun acc v => if acc.contains v then acc else acc ++ [v]) []

def parseKind (t : String) : Option ScopeKind :=
  match t.splitOn ":" with
  | ["k", "l"] => some .loc
  | ["k", "p", d] => (natOf d).map .param
  | ["k", "g", d] => (natOf d).map .glob
  | ["k", "n", d] => (natOf d).map .nonloc
  | _ => none

def handle (line : String) : String :=
  let ts := (line.splitOn " ").filter (· != "")
  -- optional first token: the scope kind of every variable of the skeleton (default: local)
  let (k, ts) := match ts with
    | t :: r => match parseKind t with
      | some k => (k, r)
      | none => (ScopeKind.loc, ts)
    | [] => (ScopeKind.loc, ts)
  match pBlock ts [] with
  | some (p, []) =>
    let us := (usesB p).foldl (fun acc (uv : Nat × Nat) => if acc.any (·.1 == uv.1) then acc else acc ++ [uv]) []
    -- one analysis per variable
    let vars := dedupNat (us.map (·.2))
    let perVar := vars.map fun v =>
      let pk := match k with
        | .param d0 => Block.cons (.assign v d0) p
        | _ => p
      let st := analyse pk v
      let c := collect pk v
      (v, c.u2d, st.out, (flowBlock false v p (entryOf false k p v)).uses, (flowBlock true v p (entryOf true k p v)).uses)
    let find (v : Nat) := (perVar.find? (·.1 == v)).getD (v, [], [], [], [])
    let m := us.map fun (u, v) =>
      let (_, u2d, out, _, _) := find v
      let raw := match lookup u u2d with | some ds => ds | none => [none]
      -- the checking phase must read exactly what the collecting phase stored (all visits of the use)
      let outs := (out.filter (·.1 = u)).map (·.2)
      let consistent := !outs.isEmpty && outs.all fun o => sameSet (o.getD [none]) raw
      let ds := reportedK k p v u
      s!"{u}={showSet ds}!{showDiag (diagOf ds)}{if consistent then "" else "?phase"}"
    let s := us.map fun (u, v) =>
      let (_, _, _, su, _) := find v
      s!"{u}={showSet ((su.filter (·.1 = u)).map (·.2))}"
    let l := us.map fun (u, v) =>
      let (_, _, _, _, lu) := find v
      s!"{u}={showSet ((lu.filter (·.1 = u)).map (·.2))}"
    let d := (if D09_jumpThroughFinally p then ["jumpThroughFinally"] else [])
      ++ (if D09_jumpOutOfFinally p then ["jumpOutOfFinally"] else [])
      ++ (if D09_loopJumpInSuppressing p then ["loopJumpInSuppressing"] else [])
      ++ (if D09_suppressingInFinally p then ["suppressingInFinally"] else [])
      ++ (if D09_loopElse p then ["loopElse"] else [])
      ++ (if D09_secondVisitSeed p then ["secondVisitSeed"] else [])
      ++ (if D09_loopBreak p then ["loopBreak"] else [])
      ++ (if D09_nestedLoopJump p then ["nestedLoopJump"] else [])
    s!"M {";".intercalate m} | S {";".intercalate s} | L {";".intercalate l} | D={if d.isEmpty then "-" else ",".intercalate d}"
  | _ => "bad-op"

partial def loop (h : IO.FS.Stream) : IO Unit := do
  let line ← h.getLine
  if line.isEmpty then return ()
  IO.println (handle (line.trimAscii.toString))
  loop h

def main : IO Unit := do loop (← IO.getStdin)
