import PyaModel.Spec.CacheSpec
/-! Line protocol driver for C10. Fields are TAB separated; lists are comma separated.

in : kwargs  <keywords in call order> <consumed>
     keys    <template keys in order> <seen keys> <0|1 non-literal keys present>
     pstr    <base> <members in any order>
     pff     <other> <members in any order> <name=ok|missing|conflict,…>
     kinds   <order> <elems>
     ornarrow <a<b,…> <vals: any|id,…> <tests in operand order>
     try     <pre ids> <order ids> <elems ids>
     orbound <order: ids joined by '.' ,…> <elems>
     defnodes <order: member ids of each node joined by '.' ,…> <elems>
     sorted  <codes>
     closure <a>b,…> <start> <choices>
     memo    <hashable keys> <keys whose value is None> <queries>
     hist    <world> <tobjs> <ranks> <fuel> <history> <query>
             world  p.a.v:member/member;…   member = atom+atom   atom = T | F | A | Btv.b | Sp.a.v
     unify   <map|map|…>   map = tv:b.b;tv:b
     caches               the registry of per-Checker containers with their kinds
             tobjs  v=t,…    ranks  p.t=r,…    query  n<p>.<a>.<v> | x<p>.<a>.<v>
     memo    … a 4th field lists the keys already in the table
     cls     <hint> <message a> <message b>
out: one line per case (see `handle`); unparseable input prints `bad-op`.
-/
open Pya.C10

def csv (s : String) : List String := if s.isEmpty then [] else s.splitOn ","

def nats (s : String) : Option (List Nat) := (csv s).mapM (·.toNat?)

def showNats (l : List Nat) : String := ",".intercalate (l.map toString)

def b01 (b : Bool) : String := if b then "1" else "0"

def parseOutcome : String → Option (String × MemberOutcome)
  | s => match s.splitOn "=" with
    | [n, "ok"] => some (n, .ok) | [n, "missing"] => some (n, .missing)
    | [n, "conflict"] => some (n, .conflict) | _ => none

def parsePair (sep : String) (s : String) : Option (Nat × Nat) :=
  match s.splitOn sep with
  | [a, b] => do some ((← a.toNat?), (← b.toNat?))
  | _ => none

def parseTriple (s : String) : Option (Nat × Nat × Nat) :=
  match s.splitOn "." with
  | [a, b, c] => do some ((← a.toNat?), (← b.toNat?), (← c.toNat?))
  | _ => none

def parseMember : String → Option Member
  | "any" => some .any
  | s => s.toNat?.map .typed

def showMember : Member → String
  | .any => "any" | .typed c => toString c

def parseAtom (s : String) : Option Atom :=
  if s == "T" then some (.const true) else if s == "F" then some (.const false)
  else if s == "A" then some .anyOk
  else if s.startsWith "B" then (parsePair "." (s.drop 1).toString).map fun tb => .bound tb.1 tb.2
  else if s.startsWith "S" then (parseTriple (s.drop 1).toString).map fun t => .sub t.1 t.2.1 t.2.2
  else none

def parseMemberReq (s : String) : Option (List Atom) :=
  if s.isEmpty then some [] else (s.splitOn "+").mapM parseAtom

def parseReq (s : String) : Option ((Pid × Nat × Vid) × List (List Atom)) :=
  match s.splitOn ":" with
  | [pv, ms] => do
    let pv ← parseTriple pv
    let ms ← if ms.isEmpty then some [] else (ms.splitOn "/").mapM parseMemberReq
    some (pv, ms)
  | _ => none

def parseWorld (reqs tobjs : String) : Option World := do
  let rs ← (if reqs.isEmpty then [] else reqs.splitOn ";").mapM parseReq
  let ts ← (csv tobjs).mapM (parsePair "=")
  some ⟨rs, ts⟩

def parseRanks (s : String) : Option (List ((Pid × Nat) × Nat)) :=
  (csv s).mapM fun e => match e.splitOn "=" with
    | [pt, r] => do some ((← parsePair "." pt), (← r.toNat?))
    | _ => none

def parseQuery (s : String) : Option Query :=
  let rest := (s.drop 1).toString
  if s.startsWith "n" then (parseTriple rest).map fun t => ⟨false, t.1, t.2.1, t.2.2⟩
  else if s.startsWith "x" then (parseTriple rest).map fun t => ⟨true, t.1, t.2.1, t.2.2⟩
  else none

def orNone (o : Option String) : String := o.getD "-"

/-- `tv:b.b;tv:b` — a bounds map; `-` = error. -/
def showBMap (m : BMap) : String :=
  ";".intercalate (m.map fun e => s!"{e.1}:{".".intercalate (e.2.map toString)}")

def showAns : Ans → String
  | none => "-"
  | some m => "{" ++ showBMap m ++ "}"

def parseBMap (s : String) : Option BMap :=
  (if s.isEmpty then [] else s.splitOn ";").mapM fun e =>
    match e.splitOn ":" with
    | [tv, bs] => do
      let tv ← tv.toNat?
      let bs ← (if bs.isEmpty then [] else bs.splitOn ".").mapM (·.toNat?)
      some (tv, bs)
    | _ => none

/-- The variant `check` models: the flags `translate` read off the live source. -/
def modelVariant : String := b01 Gen.cacheModeKey ++ b01 Gen.cacheArgKey ++ b01 Gen.cacheTopOnly

/-- `variant` = which cache-key repairs the implementation under check has (mode, generic
arguments, no caching under assumptions), as three 0/1 characters; the generated flags (`111` for /repo) = model
`check`; any other variant runs `check2` and every dependence is outside the
classes (`D=-`). -/
def histLine (reqs tobjs ranks fuel hist query variant : String) : String :=
  match parseWorld reqs tobjs, parseRanks ranks, fuel.toNat?, (csv hist).mapM parseQuery, parseQuery query with
  | some W, some rk, some fuel, some h, some q =>
    let rkf := rankOf rk
    let gfp := (gfpCompat W q.ex).contains (q.p, q.a, q.v)
    let common := s!"gfp={b01 gfp} sem={b01 (sem W q.ex fuel q.p q.a q.v)} cyclic={b01 (D10_cyclic W rkf)}"
    if variant == modelVariant then
      let ans := answers W fuel {} (h ++ [q])
      let fresh := answerFresh W fuel q
      let freshAll := (h ++ [q]).map fun q' => answerFresh W fuel q'
      s!"ans={String.join (ans.map fun x => b01 x.isSome)} fresh={b01 fresh.isSome} freshAll={String.join (freshAll.map fun x => b01 x.isSome)} {common} D={historyClass W rkf fuel h q} bm={"/".intercalate (ans.map showAns)} bmFresh={"/".intercalate (freshAll.map showAns)}"
    else
      match variant.toList with
      | [m, a, t] =>
        let mk := m == '1'
        let ak := a == '1'
        let to := t == '1'
        let ans := answers2 W mk ak to fuel {} (h ++ [q])
        let fresh := answerAfter2 W mk ak to fuel [] q
        let freshAll := (h ++ [q]).map fun q' => answerAfter2 W mk ak to fuel [] q'
        s!"ans={String.join (ans.map fun x => b01 x.isSome)} fresh={b01 fresh.isSome} freshAll={String.join (freshAll.map fun x => b01 x.isSome)} {common} D=- bm={"/".intercalate (ans.map showAns)} bmFresh={"/".intercalate (freshAll.map showAns)}"
      | _ => "bad-op"
  | _, _, _, _, _ => "bad-op"

def handle (line : String) : String :=
  match line.splitOn "\t" with
  | ["kwargs", keywords, consumed] => s!"out={orNone (siteExtraKwargs (csv keywords) (csv consumed))}"
  | ["keys", template, seen, nonlit] => s!"out={orNone (siteKeysLeft (csv template) (csv seen) (nonlit == "1"))}"
  | ["pstr", base, members] => s!"out={siteProtocolStr base true (csv members)}"
  | ["kinds", order, elems] =>
    s!"perm={b01 (isPermOf (csv order) (csv elems))} D={if D10_twoOrMore (csv elems) then "twoOrMore" else "-"} out={siteDisallowedKinds (csv order)}"
  | ["pff", other, members, outcomes] =>
    match (csv outcomes).mapM parseOutcome with
    | some tbl =>
      let outcome : String → MemberOutcome := fun m => (tbl.lookup m).getD .ok
      s!"out={orNone (siteProtocolFirstFail other outcome (csv members))}"
    | none => "bad-op"
  | ["ornarrow", subs, vals, tests] =>
    match (csv subs).mapM (parsePair "<"), (csv vals).mapM parseMember, nats tests with
    | some st, some vs, some ts =>
      let sub : Nat → Nat → Bool := fun a b => a == b || st.contains (a, b)
      s!"out={",".intercalate ((siteOrNarrow sub vs ts).map showMember)}"
    | _, _, _ => "bad-op"
  | ["try", pre, order, elems] =>
    match nats pre, nats order, nats elems with
    | some p, some o, some e =>
      s!"perm={b01 (isPermOf o e)} D={if D10_twoOrMore e then "twoOrMore" else "-"} out={showNats (siteTryDefNodes p o)}"
    | _, _, _ => "bad-op"
  | ["defnodes", order, elems] =>
    let p (s : String) := (csv s).mapM fun b => (if b.isEmpty then [] else b.splitOn ".").mapM (·.toNat?)
    match p order, p elems with
    | some o, some e =>
      s!"perm={b01 (isPermOf o e)} D={if D10_twoOrMore e then "twoOrMore" else "-"} out={showNats (siteDefNodes (fun _ => true) o)}"
    | _, _ => "bad-op"
  | ["orbound", order, elems] =>
    let p (s : String) := (csv s).mapM fun b => (if b.isEmpty then [] else b.splitOn ".").mapM (·.toNat?)
    match p order, p elems with
    | some o, some e =>
      let out := siteOrBound o
      let sh := "|".intercalate (out.map fun alt => ";".intercalate (alt.map showNats))
      s!"perm={b01 (isPermOf o e)} D={if D10_twoOrMore e then "twoOrMore" else "-"} out={sh}"
    | _, _ => "bad-op"
  | ["sorted", codes] =>
    match nats codes with
    | some c => s!"out={showNats (siteSortedJoin c)}"
    | none => "bad-op"
  | ["closure", edges, start, choices] =>
    match (csv edges).mapM (parsePair ">"), start.toNat?, nats choices with
    | some es, some s, some ch =>
      let succ : Nat → List Nat := fun x => (es.filter (·.1 == x)).map (·.2)
      let (seen, pending, result) := closureRun succ s ch
      s!"done={b01 pending.isEmpty} seen={showNats (isort seen)} result={showNats (isort result)}"
    | _, _, _ => "bad-op"
  | ["memo", hashable, nones, queries, initial] =>
    match nats hashable, nats nones, nats queries, nats initial with
    | some hs, some ns, some qs, some ini =>
      let f : Nat → Option Nat := fun q => if ns.contains q then none else some (q + 1000)
      let step := memoStep (Q := Nat) id (fun k => hs.contains k) f f
      let (tbl, outs) := qs.foldl (fun (acc : List (Nat × Nat) × List String) q =>
        let r := step acc.1 q
        let tag := if !hs.contains q then "bypass" else if r.2.2 then "hit"
                   else if r.1.isNone then "nocache" else "miss"
        (r.2.1, acc.2 ++ [tag])) (ini.map fun k => (k, k + 1000), [])
      s!"size={tbl.length} trace={",".intercalate outs}"
    | _, _, _, _ => "bad-op"
  | ["hist", reqs, tobjs, ranks, fuel, hist, query] => histLine reqs tobjs ranks fuel hist query modelVariant
  | ["hist", reqs, tobjs, ranks, fuel, hist, query, variant] => histLine reqs tobjs ranks fuel hist query variant
  | ["caches"] =>
    "caches=" ++ ",".intercalate (modelledCaches.map fun m => s!"{m.2.1}.{m.2.2.1}:{m.2.2.2.name}")
  | ["unify", maps] =>
    match (if maps.isEmpty then [] else maps.splitOn "|").mapM parseBMap with
    | some ms => s!"out={showBMap (unifyBM ms)}"
    | none => "bad-op"
  | ["cls", hint, a, b] => s!"D={orderClass hint a b}"
  | ["inset", members] => s!"out={siteInSet (csv members)}"
  | _ => "bad-op"

partial def loop (h : IO.FS.Stream) : IO Unit := do
  let line ← h.getLine
  if line.isEmpty then return ()
  IO.println (handle ((line.dropEndWhile (· == '\n')).toString))
  loop h

def main : IO Unit := do loop (← IO.getStdin)
