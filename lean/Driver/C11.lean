import PyaModel.Spec.Suppress
/-! Line protocol driver for C11.

`E|<off>|<lines>|<raw>`
    off   : comma-separated disabled codes, or `-`
    lines : space-separated source lines, each as dot-separated decimal code points (`-` = empty line)
    raw   : space-separated `show_error` calls `cap,node,code,msg,line,col,obey,save`
            node = `-` | `n<k>` | `f<line>.<col>`; code/msg = token or `-`; line/col = number or `-`
`E|<off>|<lines>|<raw>|<src>`   same, with the source text (one line in the encoding above)
  → `model=<fails | EXC:IndexError> used=<sorted used_ignores> spec=<fails> D=<class | -> [sl=<ok|DIFF>]`
    fails = `;`-joined `code@line.col` (`-` if empty): model = `C11.check`, spec = `C11.specCheck`;
    with a source: `sl` says whether `C11.pyLines src` is the given line list, spec is evaluated on
    `C11.tokLines src`; D is always `-` (C11 has no exception class left)

`S|<src>`  → `py=<pyLines, encoded> tok=<tokLines, encoded>`

`L|<all>|<enable>|<disable>|<files>|<path>|<code>|<default>`   the stack of layers
    all     : `E` (--enable-all) | `D` (--disable-all) | `-`
    enable / disable : comma-separated codes of -e / -d, or `-`
    files   : `;`-separated configuration files in extend_config order (or `-`); a file is `@`-separated
              sections, the first one the top-level entries, the others `module.path:entries`;
              entries = comma-separated `code=0|1`, or `-`
  → `en=<0|1> spec=<0|1> cmd=<-|0|1>`   (`C11.enabledStack` over `Cli.settings`, `C11.specEnabled`, `Cli.value`)

`O|<insts>|<path>|<code>|<default>`
    insts : space-separated `name,value,applicable_to,from_cmd,priority` (applicable_to dot-joined or `-`)
  → `en=<0|1>`   (`C11.isErrorCodeEnabled`)
-/
open Pya.C11

def words (s : String) : List String := (s.splitOn " ").filter (· != "")

def parseLine (t : String) : Option Line :=
  if t == "-" then some [] else (t.splitOn ".").mapM fun x => x.toNat?.map Char.ofNat

def optTok (t : String) : Option String := if t == "-" then none else some t
def parseBool (t : String) : Option Bool := if t == "1" then some true else if t == "0" then some false else none
def optNat (t : String) : Option (Option Nat) := if t == "-" then some none else t.toNat?.map some

def parseNode (t : String) : Option NodeKey :=
  if t == "-" then some .none
  else if t.startsWith "n" then (t.drop 1).toNat?.map NodeKey.ast
  else if t.startsWith "f" then
    match (t.drop 1).toString.splitOn "." with
    | [a, b] => do some (.fake (← a.toNat?) (← b.toNat?))
    | _ => none
  else none

def parseRaw (t : String) : Option Raw :=
  match t.splitOn "," with
  | [cap, node, code, msg, line, col, obey, save] => do
    let cap ← parseBool cap
    let node ← parseNode node
    let line ← optNat line
    let col ← optNat col
    let obey ← parseBool obey
    let save ← parseBool save
    let pos := match line, col with | some l, some c => some (l, c) | _, _ => none
    some { captured := cap, node := node, code := optTok code, msg := (optTok msg).getD "", pos := pos,
           obey := obey, save := save }
  | _ => none

def showFail (r : Raw) : String :=
  let p := match r.pos with | some (l, c) => s!"{l}.{c}" | none => "-"
  s!"{r.code.getD "-"}@{p}"

def showFails (rs : List Raw) : String := if rs.isEmpty then "-" else ";".intercalate (rs.map showFail)

def insertInt (x : Int) : List Int → List Int
  | [] => [x]
  | y :: ys => if x < y then x :: y :: ys else if x == y then y :: ys else y :: insertInt x ys

def showUsed (u : List Int) : String :=
  let s := u.foldr insertInt []
  if s.isEmpty then "-" else ",".intercalate (s.map toString)

def parseInst (t : String) : Option Inst :=
  match t.splitOn "," with
  | [n, v, app, cmd, pr] => do
    some { name := n, value := (← parseBool v), applicableTo := if app == "-" then [] else app.splitOn ".",
           fromCmd := (← parseBool cmd), priority := (← pr.toNat?) }
  | _ => none

def encLine (l : Line) : String :=
  if l.isEmpty then "-" else ".".intercalate (l.map fun c => toString c.toNat)

def encLines (ls : List Line) : String := " ".intercalate (ls.map encLine)

def handleE (off ls raw : String) (src : Option String) : String :=
  match (words ls).mapM parseLine, (words raw).mapM parseRaw, src.mapM parseLine with
  | some ls, some raw, some src =>
    let off := if off == "-" then [] else off.splitOn ","
    let en : String → Bool := fun c => !off.contains c
    let model := match check en ls raw with
      | some st => s!"model={showFails st.fails} used={showUsed st.used}"
      | none => "model=EXC:IndexError used=-"
    let specLines := match src with | some s => tokLines s | none => ls
    -- no exception class is left (lineOneWrap, splitlinesMismatch: repaired in /repo, see Props/C11.lean)
    let d := "-"
    let sl := match src with
      | some s => if pyLines s == ls then " sl=ok" else " sl=DIFF"
      | none => ""
    s!"{model} spec={showFails (specCheck en specLines raw)} D={d}{sl}"
  | _, _, _ => "bad-op"

def parseEntries (t : String) : Option (List (String × Bool)) :=
  if t == "-" || t == "" then some [] else
    (t.splitOn ",").mapM fun e => match e.splitOn "=" with
      | [k, v] => (parseBool v).map fun b => (k, b)
      | _ => none

def parseFile (t : String) : Option CfgFile :=
  match t.splitOn "@" with
  | [] => none
  | top :: ovs => do
    let top ← parseEntries top
    let ovs ← ovs.mapM fun o => match o.splitOn ":" with
      | [m, es] => (parseEntries es).map fun es => (m.splitOn ".", es)
      | _ => none
    some { top := top, overrides := ovs }

def commaList (t : String) : List String := if t == "-" || t == "" then [] else t.splitOn ","

def handleL (all en dis files path code dflt : String) : String :=
  match (if files == "-" || files == "" then some [] else (files.splitOn ";").mapM parseFile), parseBool dflt with
  | some files, some d =>
    let c : Cli := { enableAll := all == "E", disableAll := all == "D", enable := commaList en, disable := commaList dis }
    let path := if path == "-" then [] else path.splitOn "."
    let b (x : Bool) := if x then "1" else "0"
    let cmd := c.value [code] code
    s!"en={b (enabledStack (c.settings [code]) files path (fun _ => d) code)} spec={b (specEnabled cmd files path (fun _ => d) code)} cmd={match cmd with | some v => b v | none => "-"}"
  | _, _ => "bad-op"

def handle (line : String) : String :=
  match line.splitOn "|" with
  | ["L", all, en, dis, files, path, code, dflt] => handleL all en dis files path code dflt
  | ["E", off, ls, raw] => handleE off ls raw none
  | ["E", off, ls, raw, src] => handleE off ls raw (some src)
  | ["S", src] =>
    match parseLine src with
    | some s => s!"py={encLines (pyLines s)} tok={encLines (tokLines s)}"
    | none => "bad-op"
  | ["O", insts, path, code, dflt] =>
    match (words insts).mapM parseInst, parseBool dflt with
    | some insts, some d =>
      let path := if path == "-" then [] else path.splitOn "."
      if isErrorCodeEnabled insts path (fun _ => d) code then "en=1" else "en=0"
    | _, _ => "bad-op"
  | _ => "bad-op"

partial def loop (h : IO.FS.Stream) : IO Unit := do
  let line ← h.getLine
  if line.isEmpty then return ()
  IO.println (handle (line.trimAscii.toString))
  loop h

def main : IO Unit := do loop (← IO.getStdin)
