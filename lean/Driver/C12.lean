import PyaModel.Core.Sexp
import PyaModel.Generated.ClassTable
import PyaModel.Spec.Total
/-! Line protocol driver for C12.

`A <aexpr>`                    annotation expression (s-expression, see `toAExpr`)
    → `res=<kinds reported as unsupported, in order | -> old=<ok | raise:Kind>`   (`annVisit liveSup`: the visitor since fix
      9c1e869; `oldAnnVisit liveSup`: the visitor before it)
`E|<fname>|<off>|<lines>|<calls>`
    off   : comma-separated disabled codes or `-`
    lines : space-separated source lines, each dot-separated decimal code points (`-` = empty line)
    calls : space-separated `cap,node,code,e,detail,line,col,obey,save`
            node = `-` | `n<k>` | `f<line>.<col>`; code = token or `-`; e/detail = `-` (None) | `+` (empty) | code points
    → `EXC` | `-` | `;`-joined `code@line.col:<hash description>:<hash message>:<wellFormed 0|1>`, then ` D=<classes of the calls>`
`ca <0|1> <e> <a>` `unite <t>…` `subst ((i T)…) <t>` `beq <a> <b>` `heq <a> <b>`   as Driver/Val.lean
`T <start> <node>…`          runtime type graph, node = `(l c)` | `(a i…)` | `(f target 0|1)` → shape of `tfr liveUnguarded` or `EXC:RecursionError`
`meas <t>`                     → `<size> <w> <depth>`
`ubound <t>…`                  → `<|uniteList|> <|flattened operands|> <w (unite)> <1 + wL operands> <members ⊆ flattened 0|1>`
`sbound ((i T)…) <t>`          → `<w (subst)> <w t * mapBound> <depth (subst)> <depth t + mapDepth> <substF at depth t = subst 0|1>`
-/
open Pya Pya.C12 Pya.C11

def b2s (b : Bool) : String := if b then "1" else "0"
def words (s : String) : List String := (s.splitOn " ").filter (· != "")

def toCtor : String → Option (Option Ctor)
  | "-" => some none | "nt" => some (some .newType) | "tv" => some (some .typeVar)
  | "ps" => some (some .paramSpec) | "dep" => some (some .deprecated) | _ => none

mutual
def toAExpr : Sexp → Option AExpr
  | .atom "const" => some .const
  | .node [.atom "name", .atom c] => (toCtor c).map .name
  | .node [.atom "attr", v, .atom c] => do some (.attr (← toAExpr v) (← toCtor c))
  | .node [.atom "sub", v, s] => do some (.sub (← toAExpr v) (← toAExpr s))
  | .node (.atom "tuple" :: es) => (toAExprs es).map .tuple
  | .node (.atom "list" :: es) => (toAExprs es).map .list
  | .node (.atom "set" :: es) => (toAExprs es).map .set
  | .node [.atom "dict", .node ks, .node vs] => do some (.dict (← toAExprs ks) (← toAExprs vs))
  | .node [.atom "binop", .atom b, l, r] => do some (.binop (b == "1") (← toAExpr l) (← toAExpr r))
  | .node [.atom "unary", .atom b, e] => do some (.unary (b == "1") (← toAExpr e))
  | .node [.atom "call", f, .node as, .node ks] => do some (.call (← toAExpr f) (← toAExprs as) (← toAExprs ks))
  | .node [.atom "other", .atom k] => some (.other k)
  | _ => none
def toAExprs : List Sexp → Option (List AExpr)
  | [] => some []
  | x :: xs => do some ((← toAExpr x) :: (← toAExprs xs))
end

def parseLine (t : String) : Option Line :=
  if t == "-" then some [] else (t.splitOn ".").mapM fun x => x.toNat?.map Char.ofNat

def optTok (t : String) : Option String := if t == "-" then none else some t
def parseBool (t : String) : Option Bool := if t == "1" then some true else if t == "0" then some false else none
def optNat (t : String) : Option (Option Nat) := if t == "-" then some none else t.toNat?.map some
/-- `-` = None, `+` = "", else code points -/
def optText (t : String) : Option (Option String) :=
  if t == "-" then some none else if t == "+" then some (some "")
  else ((t.splitOn ".").mapM fun (x : String) => x.toNat?.map Char.ofNat).map fun cs => some (String.ofList cs)

def parseNode (t : String) : Option NodeKey :=
  if t == "-" then some .none
  else if t.startsWith "n" then (t.drop 1).toNat?.map NodeKey.ast
  else if t.startsWith "f" then
    match (t.drop 1).toString.splitOn "." with
    | [a, b] => do some (.fake (← a.toNat?) (← b.toNat?))
    | _ => none
  else none

def parseCall (t : String) : Option Call :=
  match t.splitOn "," with
  | [cap, node, code, e, detail, line, col, obey, save] => do
    let line ← optNat line
    let col ← optNat col
    let pos := match line, col with | some l, some c => some (l, c) | _, _ => none
    some { captured := (← parseBool cap), node := (← parseNode node), code := optTok code, e := (← optText e),
           detail := (← optText detail), pos := pos, obey := (← parseBool obey), save := (← parseBool save) }
  | _ => none

/-- polynomial hash of the code points (the harness computes the same) -/
def strHash (s : String) : Nat := s.toList.foldl (fun h c => (h * 131 + c.toNat) % 1000000007) 7

def showFailure (lines : List Line) (f : Failure) : String :=
  let p := match f.lineno, f.col with
    | some l, some c => s!"{l}.{c}" | some l, none => s!"{l}.-" | none, some c => s!"-.{c}" | none, none => "-"
  s!"{f.code.getD "-"}@{p}:{strHash f.description}:{strHash f.message}:{b2s (wellFormed liveReg lines f)}"

def dedupS : List String → List String
  | [] => []
  | x :: xs => if xs.contains x then dedupS xs else x :: dedupS xs

def parseMap (kvs : List Sexp) : Option TvMap := kvs.mapM fun kv => match kv with
  | .node [.atom i, v] => do some ((← i.toNat?), (← v.toTy))
  | _ => none

def subsetOf (xs ys : List Ty) : Bool := xs.all fun x => ys.any fun y => Ty.beq x y && Ty.hashEq x y || x.show == y.show

def handleVal (line : String) : String :=
  match readSexps line with
  | some [.atom "A", e] =>
    match toAExpr e with
    | some e =>
      let errs := (annVisit liveSup e).1
      let old := match oldAnnVisit liveSup e with | .ok _ => "ok" | .raise k => s!"raise:{k}"
      s!"res={if errs.isEmpty then "-" else ",".intercalate errs} old={old}"
    | none => "bad-op"
  | some (.atom "T" :: .atom start :: nodes) =>
    -- `T <start> <node>…`  node = `(l c)` | `(a i…)` | `(f t 0|1)`
    let ns : Option RGraph := nodes.mapM fun (nd : Sexp) => match nd with
      | .node [.atom "l", .atom c] => c.toNat?.map RNode.leaf
      | .node (.atom "a" :: is) => (is.mapM fun (i : Sexp) => match i with | .atom x => x.toNat? | _ => none).map RNode.app
      | .node [.atom "f", .atom t, .atom ev] => t.toNat?.map fun t => RNode.fref t (ev == "1")
      | _ => none
    match ns, start.toNat? with
    | some g, some n =>
      let fuel := g.length * (g.length + 1) + g.length + 2
      if tfrDiverges liveUnguarded g fuel [] n then "EXC:RecursionError" else (tfr liveUnguarded g fuel [] n).show
    | _, _ => "bad-op"
  | some [.atom "ca", .atom x, e, a] =>
    match e.toTy, a.toTy with
    | some e, some a => b2s (ca liveTable (x == "1") e a)
    | _, _ => "bad-op"
  | some (.atom "subst" :: .node kvs :: [t]) =>
    match parseMap kvs, t.toTy with
    | some m, some t => (subst m t).show
    | _, _ => "bad-op"
  | some (.atom "sbound" :: .node kvs :: [t]) =>
    match parseMap kvs, t.toTy with
    | some m, some t =>
      let r := subst m t
      let f := match substF (tdepth t) m t with | some r' => r'.show == r.show | none => false
      s!"{tw r} {tw t * mapBound m} {tdepth r} {tdepth t + mapDepth m} {b2s f}"
    | _, _ => "bad-op"
  | some (.atom "unite" :: ts) =>
    match Sexp.toTys ts with
    | some ts => (unite ts).show
    | none => "bad-op"
  | some (.atom "ubound" :: ts) =>
    match Sexp.toTys ts with
    | some ts =>
      let fl := ts.flatMap flatten1
      let ul := uniteList ts
      s!"{ul.length} {fl.length} {tw (unite ts)} {1 + twL ts} {b2s (subsetOf ul fl)}"
    | none => "bad-op"
  | some [.atom "meas", t] =>
    match t.toTy with
    | some t => s!"{tsize t} {tw t} {tdepth t}"
    | none => "bad-op"
  | some [.atom "heq", a, b] =>
    match a.toTy, b.toTy with
    | some a, some b => b2s (Ty.hashEq a b)
    | _, _ => "bad-op"
  | some [.atom "beq", a, b] =>
    match a.toTy, b.toTy with
    | some a, some b => b2s (Ty.beq a b)
    | _, _ => "bad-op"
  | _ => "bad-op"

def handle (line : String) : String :=
  match line.splitOn "|" with
  | ["E", fname, off, ls, calls] =>
    match (words ls).mapM parseLine, (words calls).mapM parseCall with
    | some ls, some calls =>
      let off := if off == "-" then [] else off.splitOn ","
      let env : Env := { reg := liveReg, en := fun c => !off.contains c, fname := fname, ctxLines := Gen.contextLines }
      let d := dedupS (calls.flatMap (d12Call liveReg ls))
      let ds := if d.isEmpty then "-" else ",".intercalate d
      match check env ls calls with
      | some st =>
        (if st.fails.isEmpty then "-" else ";".intercalate (st.fails.map (showFailure ls))) ++ s!" D={ds}"
      | none => s!"EXC D={ds}"
    | _, _ => "bad-op"
  | _ => handleVal line

partial def loop (h : IO.FS.Stream) : IO Unit := do
  let line ← h.getLine
  if line.isEmpty then return ()
  IO.println (handle (line.trimAscii.toString))
  loop h

def main : IO Unit := do loop (← IO.getStdin)
