import PyaModel.Core.AnnotRoutes
import PyaModel.Core.Sexp
/-! Line protocol driver for C13.
in : `ann <0|1> <env> <AnnExpr>`   (allow_unpack flag, name environment, s-expression of the annotation)
     `sig <env> <DefArgs>`          env = `(env (early (n tgt)…) (late (n tgt)…) (builtins (n tgt)…))`
out: `ast=<res> strg=<res> rt=<res> vis=<res> visq=<res> tn=<AnnExpr> S=<0|1> D=<classes|-> R=<classes|->`
     `def=<sig> insp=<sig> isig=<inspect view> S=<0|1> D=… R=…`
     res = `EXC` | `<Ty>;<errs>;<unp>`
-/
open Pya Pya.C13

def b2s (b : Bool) : String := if b then "1" else "0"

def parseOld : Sexp → Option Bool
  | .atom "o" => some true
  | .atom "n" => some false
  | _ => none

def toLit : Obj → Option LitObj
  | .int n => some (.int n) | .bool b => some (.bool b) | .str s => some (.str s) | .bytes s => some (.bytes s)
  | .none => some .none | .inst c i => some (.enum c i)
  | _ => none

mutual
def toAnn : Sexp → Option AnnExpr
  | .atom "none" => some .none
  | .atom "anyT" => some .anyT
  | .node [.atom "cls", .atom c] => c.toNat?.map .cls
  | .node [.atom "nt", .atom n, .atom c] => do some (.newtype (← n.toNat?) (← c.toNat?))
  | .node [.atom "bare", .atom c] => c.toNat?.map .bare
  | .node (.atom "gen" :: o :: .atom c :: xs) => do some (.gen (← parseOld o) (← c.toNat?) (← toAnnL xs))
  | .node (.atom "tup" :: o :: xs) => do some (.tup (← parseOld o) (← toAnnL xs))
  | .node [.atom "tupE", o] => (parseOld o).map .tupE
  | .node [.atom "tupV", o, e] => do some (.tupV (← parseOld o) (← toAnn e))
  | .node [.atom "unpack", e] => (toAnn e).map .unpack
  | .node [.atom "star", e] => (toAnn e).map .star
  | .node (.atom "lit" :: os) => do some (.lit (← (← Sexp.toObjs os).mapM toLit))
  | .node [.atom "typ", o, e] => do some (.typ (← parseOld o) (← toAnn e))
  | .node [.atom "ann", e, .atom k] => do some (.ann (← toAnn e) (← k.toNat?))
  | .node [.atom "final", e] => (toAnn e).map .final
  | .node [.atom "classvar", e] => (toAnn e).map .classVar
  | .node [.atom "opt", e] => (toAnn e).map .opt
  | .node (.atom "union" :: xs) => (toAnnL xs).map .union
  | .node [.atom "bor", a, b] => do some (.bor (← toAnn a) (← toAnn b))
  | .node [.atom "str", e] => (toAnn e).map .str
  | .node [.atom "name", .atom n] => n.toNat?.map .name
  | .node (.atom "dot" :: .atom n :: p) => do
    some (.dotted (← n.toNat?) (← p.mapM fun | .atom a => a.toNat? | _ => none))
  | _ => none
def toAnnL : List Sexp → Option (List AnnExpr)
  | [] => some []
  | x :: xs => do some ((← toAnn x) :: (← toAnnL xs))
end

def o2s (o : Bool) : String := if o then "o" else "n"

mutual
def showAnn : AnnExpr → String
  | .cls c => s!"(cls {c})"
  | .none => "none"
  | .anyT => "anyT"
  | .newtype n c => s!"(nt {n} {c})"
  | .bare c => s!"(bare {c})"
  | .gen o c xs => s!"(gen {o2s o} {c}" ++ showAnnL xs ++ ")"
  | .tup o xs => s!"(tup {o2s o}" ++ showAnnL xs ++ ")"
  | .tupE o => s!"(tupE {o2s o})"
  | .tupV o e => s!"(tupV {o2s o} " ++ showAnn e ++ ")"
  | .unpack e => "(unpack " ++ showAnn e ++ ")"
  | .star e => "(star " ++ showAnn e ++ ")"
  | .lit os => "(lit" ++ Obj.showList (os.map LitObj.toObj) ++ ")"
  | .typ o e => s!"(typ {o2s o} " ++ showAnn e ++ ")"
  | .ann e k => "(ann " ++ showAnn e ++ s!" {k})"
  | .final e => "(final " ++ showAnn e ++ ")"
  | .classVar e => "(classvar " ++ showAnn e ++ ")"
  | .opt e => "(opt " ++ showAnn e ++ ")"
  | .union xs => "(union" ++ showAnnL xs ++ ")"
  | .bor a b => "(bor " ++ showAnn a ++ " " ++ showAnn b ++ ")"
  | .str e => "(str " ++ showAnn e ++ ")"
  | .name n => s!"(name {n})"
  | .dotted n p => s!"(dot {n}" ++ String.join (p.map fun a => s!" {a}") ++ ")"
def showAnnL : List AnnExpr → String
  | [] => ""
  | x :: xs => " " ++ showAnn x ++ showAnnL xs
end

def showRes : Option Res → String
  | none => "EXC"
  | some r => s!"{r.ty.show};{r.errs};{b2s r.unp}"

def annClasses (env : NameEnv) (e : AnnExpr) : String :=
  let cs := (if D13_starUnpack e then ["starUnpack"] else []) ++ (if !stableNames env e then ["reboundName"] else [])
  if cs.isEmpty then "-" else ",".intercalate cs

def toTarget : Sexp → Option NameTarget
  | .atom "anyT" => some .anyT
  | .node [.atom "cls", .atom c] => c.toNat?.map .cls
  | .node [.atom "nt", .atom n, .atom c] => do some (.newtype (← n.toNat?) (← c.toNat?))
  | .node [.atom "bare", .atom c] => c.toNat?.map .bare
  | .node [.atom "opq", .atom k] => k.toNat?.map .opaque
  | .node [.atom "obj", .atom k] => k.toNat?.map .objv
  | _ => none

def toBindings (xs : List Sexp) : Option Bindings :=
  xs.mapM fun
    | .node [.atom n, t] => do some ((← n.toNat?), (← toTarget t))
    | _ => none

def toEnv : Sexp → Option NameEnv
  | .node [.atom "env", .node (.atom "early" :: e), .node (.atom "late" :: l), .node (.atom "builtins" :: b)] => do
    some ⟨← toBindings e, ← toBindings l, ← toBindings b, []⟩
  | .node [.atom "env", .node (.atom "early" :: e), .node (.atom "late" :: l), .node (.atom "builtins" :: b),
           .node (.atom "attrs" :: a)] => do
    -- attributes: `(k a tgt)` = getattr(object k, attribute a)
    let atb ← a.mapM fun
      | .node [.atom k, .atom x, t] => do some (attrKey (← k.toNat?) (← x.toNat?), (← toTarget t))
      | _ => none
    some ⟨← toBindings e, ← toBindings l, ← toBindings b, atb⟩
  | _ => none

def annRClasses (env : NameEnv) (e : AnnExpr) : String :=
  let r := resolveV (visLookup env) e
  let cs := (if R13_typingDedup (visLookup env) r || R13_typingDedup (visLookup env) (swapOpt r) ||
    R13_typingDedup (visLookup env) (swapOpt e) then ["typingDedup"] else [])
  if cs.isEmpty then "-" else ",".intercalate cs

/-! def headers -/
def toDflt : Sexp → Option Dflt
  | .atom "ell" => some .ellipsis
  | .node [.atom "lit", o] => o.toObj.map .lit
  | _ => none

def toODflt : Sexp → Option (Option Dflt)
  | .atom "nodef" => some none
  | s => (toDflt s).map some

def toPArg : Sexp → Option PArg
  | .node [.atom "p", .atom n] => some ⟨n, none⟩
  | .node [.atom "p", .atom n, a] => (toAnn a).map fun a => ⟨n, some a⟩
  | _ => none

def toOPArg : List Sexp → Option (Option PArg)
  | [] => some none
  | [p] => (toPArg p).map some
  | _ => none

def toDefArgs : Sexp → Option DefArgs
  | .node [.atom "def", .node [.atom "kind", .atom knd], .node (.atom "posonly" :: po), .node (.atom "args" :: ar), .node (.atom "vararg" :: va),
           .node (.atom "kwonly" :: ko), .node (.atom "kwdefaults" :: kd), .node (.atom "kwarg" :: kw),
           .node (.atom "defaults" :: df), .node (.atom "ret" :: rt), .node (.atom "method" :: me),
           .node [.atom "future", .atom fu]] => do
    let ret ← match rt with
      | [] => some none
      | [e] => (toAnn e).map some
      | _ => none
    let me ← match me with
      | [] => some none
      | [.atom c] => c.toNat?.map some
      | _ => none
    let kind ← match knd with
      | "plain" => some FnKind.plain | "coro" => some FnKind.coro | "agen" => some FnKind.asyncGen | "gen" => some FnKind.gen
      | _ => none
    some { kind := kind, posonly := ← po.mapM toPArg, args := ← ar.mapM toPArg, vararg := ← toOPArg va,
           kwonly := ← ko.mapM toPArg, kwDefaults := ← kd.mapM toODflt, kwarg := ← toOPArg kw,
           defaults := ← df.mapM toDflt, returns := ret, methodOf := me, future := fu == "1" }
  | _ => none

def showKind : Kind → String
  | .posOnly => "po" | .posOrKw => "pk" | .varPos => "vp" | .kwOnly => "ko" | .varKw => "vk"

def showDVal : Option DVal → String
  | none => "-"
  | some (.known o) => s!"(known {o.show})"
  | some .anyUnannotated => "anyU"
  | some .knownEllipsis => "ell"

def showSig : Option SigOut → String
  | none => "EXC"
  | some s =>
    ";".intercalate (s.params.map fun p => s!"{p.name}:{showKind p.kind}:{showDVal p.dflt}:{p.ann.show}:{p.errs}") ++
    s!" -> {s.ret.show}:{b2s s.hasRet}:{s.retErrs}"

def showDfl : Option Dflt → String
  | none => "-"
  | some (.lit o) => s!"(lit {o.show})"
  | some .ellipsis => "ell"

def showISig (s : ISig) : String :=
  ";".intercalate (s.params.map fun p =>
    s!"{p.name}:{showKind p.kind}:{showDfl p.dflt}:{match p.ann with | some a => showAnn a | none => "-"}") ++
  s!" -> {match s.returns with | some a => showAnn a | none => "-"}"

def sigClasses (env : NameEnv) (d : DefArgs) : String :=
  let anns := d.allArgs.filterMap (·.ann) ++ d.returns.toList
  let cs := (if anns.any D13_starUnpack then ["starUnpack"] else []) ++
    (if D13_reboundName env d then ["reboundName"] else [])
  if cs.isEmpty then "-" else ",".intercalate cs

def sigRClasses (env : NameEnv) (d : DefArgs) : String :=
  let anns := d.allArgs.filterMap (·.ann) ++ d.returns.toList
  let cs := (if R13_unannotated d then ["unannotated"] else []) ++
    (if anns.any (fun e => annRClasses env e != "-") then ["typingDedup"] else [])
  if cs.isEmpty then "-" else ",".intercalate cs

def handle (line : String) : String :=
  match readSexps line with
  | some [.atom "ann", .atom au, env, e] =>
    match toEnv env, toAnn e with
    | some env, some e =>
      let au := au == "1"
      let obj := tnorm (resolveV (pyLookup env) e)
      s!"ast={showRes (astEval (defaultLookup env) au e)} strg={showRes (astEval (globalsLookup env) au e)} " ++
      s!"rt={showRes (rtEval (defaultLookup env) au obj)} vis={showRes (visEval env au e)} " ++
      s!"visq={showRes (visEval env au (.str e))} tn={showAnn obj} S={b2s (Supported e)} D={annClasses env e} R={annRClasses env e}"
    | _, _ => "bad-op"
  | some [.atom "sig", env, d] =>
    match toEnv env, toDefArgs d with
    | some env, some d =>
      s!"def={showSig (fromDef env d)} insp={showSig (fromRuntime env d)} isig={showISig (inspectOf env d)} " ++
      s!"S={b2s d.Supported} D={sigClasses env d} R={sigRClasses env d}"
    | _, _ => "bad-op"
  | _ => "bad-op"

partial def loop (h : IO.FS.Stream) : IO Unit := do
  let line ← h.getLine
  if line.isEmpty then return ()
  IO.println (handle (line.trimAscii.toString))
  loop h

def main : IO Unit := do loop (← IO.getStdin)
