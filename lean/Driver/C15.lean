import PyaModel.Core.Sexp
import PyaModel.Spec.TypeVarSpec
import PyaModel.Generated.ClassTable
/-! Line protocol driver for C15 (type-variable solving).

bounds : `(L <ty>)` lower | `(U <ty>)` upper | `(O <ty>*)` IsOneOf | `(R (<bound>*) …)` OrBound
in : `resolve <bound>*`         resolve_bounds_map for one type variable (de-dup, then solve)
     `solve <bound>*`           solve without the de-dup
     `solvecall (<bound>*) …`   the call-level step: one node per contribution (parameter / leaf); unify, solve once;
                                 the report of the union, then ` leaves=<ok bit per contribution> call=<callOk>`
     `d15 <bound>*`             every exception class of the de-duplicated list (incl. the cubic one)
     `aresolve (M <row>*) <bound>*` / `ad15 (M …) …`   the same over a synthetic class table:
                                 row e, column a of the 0/1 matrix = `typed e` accepts `typed a`
     `tvca (B <ty>?) (C <ty>*) <ty>`    TypeVarValue(bound, constraints).can_assign(other)
     `tvcba (B <ty>?) (C <ty>*) <ty>`   TypeVarValue(bound, constraints).can_be_assigned(left)
     `tvtv (B <ty>?) (C <ty>*) (B <ty>?) (C <ty>*) <0|1>`   … against another TypeVarValue (1 = an equal one)
out: `res=<ok <src> <ty> | errBounds | errOptions> n=<#bounds after de-dup> spec=<0|1> sat=<l><u><c>|- D=<classes|->`
     `D=<classes|->`  |  `<bound>* | ERR`  |  `bad-op`
-/
open Pya Pya.C15

def b2s (b : Bool) : String := if b then "1" else "0"

mutual
def toBound : Sexp → Option Bound
  | .node [.atom "L", t] => t.toTy.map .lower
  | .node [.atom "U", t] => t.toTy.map .upper
  | .node (.atom "O" :: ts) => (Sexp.toTys ts).map .oneOf
  | .node (.atom "R" :: xss) => (toBoundLL xss).map .or
  | _ => none
def toBoundLL : List Sexp → Option (List (List Bound))
  | [] => some []
  | .node xs :: rest => do some ((← toBoundL xs) :: (← toBoundLL rest))
  | _ => none
def toBoundL : List Sexp → Option (List Bound)
  | [] => some []
  | x :: xs => do some ((← toBound x) :: (← toBoundL xs))
end

mutual
def showBound : Bound → String
  | .lower v => "(L " ++ v.show ++ ")"
  | .upper v => "(U " ++ v.show ++ ")"
  | .oneOf cs => "(O" ++ Ty.showList cs ++ ")"
  | .or bss => "(R" ++ showBoundLL bss ++ ")"
def showBoundLL : List (List Bound) → String
  | [] => ""
  | bs :: rest => " (" ++ (showBoundL bs).trimAsciiStart.toString ++ ")" ++ showBoundLL rest
def showBoundL : List Bound → String
  | [] => ""
  | b :: bs => " " ++ showBound b ++ showBoundL bs
end

def showSrc : Src → String
  | .value => "value" | .generic => "generic" | .inference => "inference"

def cls (cs : List String) : String := match cs with | [] => "-" | cs => ",".intercalate cs

def report (tbl : ClassTable) (dedup : Bool) (bs : List Bound) : String :=
  let le := leCa tbl
  let bs := if dedup then dedupB [] bs else bs
  let r := solve le joinU bs
  let res := match r with
    | .ok s src => s!"ok {showSrc src} {s.show}"
    | .errBounds => "errBounds"
    | .errOptions => "errOptions"
  let sat := match r with
    | .ok s _ => b2s (satLower le bs s) ++ b2s (satUpper le bs s) ++ b2s (satOneOf bs s)
    | _ => "-"
  s!"res={res} n={bs.length} spec={b2s (specOk le bs)} sat={sat} D={cls (d15Cheap le bs)}"

def parseMatrix (rows : List Sexp) : Option (List (List Bool)) :=
  rows.mapM fun
    | .atom r => some (r.toList.map (· == '1'))
    | _ => none

def synthTable (m : List (List Bool)) : ClassTable :=
  { (default : ClassTable) with nominalM := m, nominalXM := m }

def parseTV (b c : Sexp) : Option TV :=
  match b, c with
  | .node [.atom "B"], .node (.atom "C" :: cs) => do some { bound := none, constraints := (← Sexp.toTys cs) }
  | .node [.atom "B", t], .node (.atom "C" :: cs) => do some { bound := some (← t.toTy), constraints := (← Sexp.toTys cs) }
  | _, _ => none

def showBounds? : Option (List Bound) → String
  | some bs => (showBoundL bs).trimAsciiStart.toString
  | none => "ERR"

def handle (line : String) : String :=
  match readSexps line with
  | some (.atom "solvecall" :: gs) =>
    -- one node per contribution (parameter / leaf), in order: `solvecall ((L …) (O …)) ((L …))`
    match toBoundLL gs with
    | some gs =>
      let leaves := String.join (gs.map fun g => b2s (resolve (leCa liveTable) joinU g).isOk)
      report liveTable true (unifyBounds gs) ++ s!" leaves={if leaves.isEmpty then "-" else leaves} call={b2s (callOk (leCa liveTable) joinU gs)}"
    | none => "bad-op"
  | some (.atom "resolve" :: bs) =>
    match toBoundL bs with
    | some bs => report liveTable true bs
    | none => "bad-op"
  | some (.atom "solve" :: bs) =>
    match toBoundL bs with
    | some bs => report liveTable false bs
    | none => "bad-op"
  | some (.atom "d15" :: bs) =>
    match toBoundL bs with
    | some bs => "D=" ++ cls (d15Classes (leCa liveTable) joinU (dedupB [] bs))
    | none => "bad-op"
  | some (.atom "aresolve" :: .node (.atom "M" :: rows) :: bs) =>
    match parseMatrix rows, toBoundL bs with
    | some m, some bs => report (synthTable m) true bs
    | _, _ => "bad-op"
  | some (.atom "ad15" :: .node (.atom "M" :: rows) :: bs) =>
    match parseMatrix rows, toBoundL bs with
    | some m, some bs => "D=" ++ cls (d15Classes (leCa (synthTable m)) joinU (dedupB [] bs))
    | _, _ => "bad-op"
  | some [.atom "tvca", b, c, o] =>
    match parseTV b c, o.toTy with
    | some tv, some o => showBounds? (tv.accepts (leCa liveTable) joinU o)
    | _, _ => "bad-op"
  | some [.atom "tvtv", b, c, b', c', .atom same] =>
    match parseTV b c, parseTV b' c' with
    | some tv, some other => showBounds? (tv.withTV (leCa liveTable) joinU other (same == "1"))
    | _, _ => "bad-op"
  | some [.atom "tvcba", b, c, o] =>
    match parseTV b c, o.toTy with
    | some tv, some o => showBounds? (tv.acceptedBy (leCa liveTable) joinU o)
    | _, _ => "bad-op"
  | _ => "bad-op"

partial def loop (h : IO.FS.Stream) : IO Unit := do
  let line ← h.getLine
  if line.isEmpty then return ()
  IO.println (handle (line.trimAscii.toString))
  loop h

def main : IO Unit := do loop (← IO.getStdin)
