import PyaModel.Spec.FixSpec
import PyaModel.Generated.FixConsts
/-! Line protocol driver for C16.

Source lines are space-separated, each a dot-separated list of decimal code points (`-` = empty line);
a list of lines that is empty is written `E`; `N` stands for Python's `None`.

`A|<lines>|<dels>|<adds>`            dels: comma-separated numbers or `-`; adds: lines | `E` | `N`
  → `model=<lines | E | EXC:ValueError | EXC:IndexError> spec=<lines | E | na> wf=<0|1>`
     model = `applyChanges [⟨dels, adds⟩]`, spec = `specApply` (only when `ChangeWF`)

`I|<lines>|<raw>|<rounds>|<limit>`    raw: space-separated `code,line,col`
  → `D=<classes | -> ok=<0|1> c11=<ok|diff|exc> lex=<one letter per line> out=<done:n|limit> spec=<hash> ` ++
    `rounds=<f0>~<h0>;<f1>~<h1>;… srounds=<same for specRound> last=<lines>`
     f_k = failures reported by run k (`code@line.col` joined by `,`, `-` if none), h_k = hash of the file
     after run k's change; `rounds` runs are made; last = the file after them; `out` = `mainLoop limit`;
     `spec` = hash of `specFinal`; `c11` = C11's `check` agrees with `visible` in every round;
     `ok` = `AddIgnoresOK`; `EXC` instead of everything if a diagnostic lies outside the file.

`R|<lines>|<first>|<astLast>|<stmtEnd>`
  → `range=<a,b,…> spec=<a,b,…> D=<stmtRangeOverrun | ->`

`X|<lines>|<first>|<stmtEnd>|<adds>|<sharesLine><soleInBlock><isElif><pctRisky><decorated><hasWalrus><pctTail><pctZero><inJoinedStr>`   (nine 0/1 digits)
  → `D=<classes | ->`   (stmtRangeOverrun, sharedLine, emptyBlock, elifHeader, fstringConversion, decoratedStmt)

`G|<targets>|<valueBinds>|<u>`   the removal guard of `_check_function_unused_vars` (regenerated `Gen.removalGuard`)
  targets: `K` then K targets, target: `n NAME` | `t K` targets | `l K` targets | `s` target | `o KIND`;
  valueBinds: comma-separated names or `-`
  → `guard=<0|1> sole=<0|1> old=<0|1>`   (sole = `soleBinding`, old = the guard before 21e29d0)

`T|<hook>|<tree>[|<tree>[|<tree>]]`   the real `NodeTransformer` on a tree; hook: `-` (plain copy), `r <id>` (replace the
  node by the second tree), `d <id>` (the visit of the node returns None), `s <id>` (… returns the list of the 2nd and 3rd tree)
  tree tokens (space separated): `n KIND ID NFIELDS` then per field `NAME` + (`l TOK` | `c` tree | `m NITEMS` items),
  item: `x` (None) | `v TOK` | `t` tree
  → `out=<comma-joined tokens, ids printed as 0 | None | M,<k>,trees> spec=<substTree, for r | na>`
-/
open Pya.C16
open Pya.C11 (Line)

def words (s : String) : List String := (s.splitOn " ").filter (· != "")

def parseLine (t : String) : Option Line :=
  if t == "-" then some [] else (t.splitOn ".").mapM fun x => x.toNat?.map Char.ofNat

def parseLines (s : String) : Option (List Line) :=
  if s.trimAscii.toString == "E" then some [] else (words s).mapM parseLine

def parseAdds (s : String) : Option (Option (List Line)) :=
  if s.trimAscii.toString == "N" then some none else (parseLines s).map some

def parseNats (s : String) : Option (List Nat) :=
  if s == "-" || s == "" then some [] else (s.splitOn ",").mapM (·.toNat?)

def parseDiag (t : String) : Option Diag :=
  match t.splitOn "," with
  | [c, l, k] => do some { code := c, line := (← l.toNat?), col := (← k.toNat?) }
  | _ => none

def encLine (l : Line) : String := if l.isEmpty then "-" else ".".intercalate (l.map fun c => toString c.toNat)
def encLines (ls : List Line) : String := if ls.isEmpty then "E" else " ".intercalate (ls.map encLine)

def hashMod : Nat := 2305843009213693951
def hashLine (l : Line) : Nat := l.foldl (fun h c => (h * 131 + c.toNat + 1) % hashMod) 7
def hashLines (ls : List Line) : Nat := ls.foldl (fun h l => (h * 1000003 + hashLine l) % hashMod) 11

def showDiag (d : Diag) : String := s!"{d.code}@{d.line}.{d.col}"
def showDiags (ds : List Diag) : String := if ds.isEmpty then "-" else ",".intercalate (ds.map showDiag)
def showNats (ks : List Nat) : String := if ks.isEmpty then "-" else ",".intercalate (ks.map toString)

def showExc : Exc → String
  | .valueError => "EXC:ValueError"
  | .indexError => "EXC:IndexError"

def classes (cs : List (Bool × String)) : String :=
  let on := cs.filterMap fun (b, n) => if b then some n else none
  if on.isEmpty then "-" else ",".intercalate on

/-- C11's model of the whole `show_error` pipeline on the same stream (distinct nodes, every code on except
the two end-of-file passes). -/
def c11Fails (pl : List Line) (raw : List Diag) : Option (List Diag) :=
  let en : String → Bool := fun c => c != "unused_ignore" && c != "bare_ignore"
  let rs : List Pya.C11.Raw := (List.range raw.length).zip raw |>.map fun (i, d) =>
    { node := .ast i, code := some d.code, pos := some (d.line, d.col) }
  (Pya.C11.check en pl rs).map fun st => st.fails.filterMap fun r =>
    match r.code, r.pos with
    | some c, some (l, k) => some { code := c, line := l, col := k }
    | _, _ => none

def lexLetter : Lex → Char
  | .code _ => 'c'
  | .cont 0 => 'b'
  | .cont _ => 'B'
  | .single _ _ => 's'
  | .triple _ _ => 's'

def lexLetters (lines : List Line) : String :=
  let rec go (st : Lex) : List Line → List Char
    | [] => []
    | l :: ls => lexLetter st :: go (scanLine st l) ls
  String.ofList (go (.code 0) lines)

def runRounds : Nat → St → Bool → List String → (St × Bool × List String)
  | 0, st, ok, acc => (st, ok, acc.reverse)
  | n + 1, st, ok, acc =>
    let pl := pyLines st.lines
    let link := match c11Fails pl st.raw with
      | some fs => fs == st.diags
      | none => false
    let st' := addIgnoresRound st
    runRounds n st' (ok && link) (s!"{showDiags st.diags}~{hashLines st'.lines}" :: acc)

def specRounds : Nat → St → List String → List String
  | 0, _, acc => acc.reverse
  | n + 1, st, acc =>
    let st' := specRound st
    specRounds n st' (s!"{showDiags (visible st.lines st.raw)}~{hashLines st'.lines}" :: acc)

/-! ### generic trees -/
mutual
  def parseTree : Nat → List String → Option (Tree × List String)
    | 0, _ => none
    | fuel + 1, "n" :: kind :: id :: nf :: rest =>
      match id.toNat?, nf.toNat? with
      | some id, some nf =>
        match parseFields fuel nf rest with
        | some (fs, rest) => some (.mk kind id fs, rest)
        | none => none
      | _, _ => none
    | _, _ => none
  def parseFields : Nat → Nat → List String → Option (FieldList × List String)
    | 0, _, _ => none
    | _ + 1, 0, toks => some (.nil, toks)
    | fuel + 1, k + 1, name :: toks =>
      match parseField fuel toks with
      | some (f, rest) =>
        match parseFields fuel k rest with
        | some (fs, rest) => some (.cons name f fs, rest)
        | none => none
      | none => none
    | _, _, _ => none
  def parseField : Nat → List String → Option (Field × List String)
    | 0, _ => none
    | _ + 1, "l" :: v :: rest => some (.leaf v, rest)
    | fuel + 1, "c" :: rest =>
      match parseTree fuel rest with
      | some (t, rest) => some (.child t, rest)
      | none => none
    | fuel + 1, "m" :: k :: rest =>
      match k.toNat? with
      | some k =>
        match parseItems fuel k rest with
        | some (is, rest) => some (.many is, rest)
        | none => none
      | none => none
    | _, _ => none
  def parseItems : Nat → Nat → List String → Option (ItemList × List String)
    | 0, _, _ => none
    | _ + 1, 0, toks => some (.nil, toks)
    | fuel + 1, k + 1, "x" :: rest =>
      match parseItems fuel k rest with
      | some (is, rest) => some (.cons .none is, rest)
      | none => none
    | fuel + 1, k + 1, "v" :: v :: rest =>
      match parseItems fuel k rest with
      | some (is, rest) => some (.cons (.val v) is, rest)
      | none => none
    | fuel + 1, k + 1, "t" :: rest =>
      match parseTree fuel rest with
      | some (t, rest) =>
        match parseItems fuel k rest with
        | some (is, rest) => some (.cons (.tree t) is, rest)
        | none => none
      | none => none
    | _, _, _ => none
end

def parseWholeTree (s : String) : Option Tree :=
  let toks := words s
  match parseTree (toks.length + 1) toks with
  | some (t, []) => some t
  | _ => none

mutual
  def fieldCount : FieldList → Nat
    | .nil => 0
    | .cons _ _ r => fieldCount r + 1
  def itemCount : ItemList → Nat
    | .nil => 0
    | .cons _ r => itemCount r + 1
end

mutual
  def encTree : Tree → List String
    | .mk k _ fs => ["n", k, "0", toString (fieldCount fs)] ++ encFields fs
  def encFields : FieldList → List String
    | .nil => []
    | .cons n f r => n :: (encField f ++ encFields r)
  def encField : Field → List String
    | .leaf v => ["l", v]
    | .child t => "c" :: encTree t
    | .many is => ["m", toString (itemCount is)] ++ encItems is
  def encItems : ItemList → List String
    | .nil => []
    | .cons .none r => "x" :: encItems r
    | .cons (.val v) r => "v" :: v :: encItems r
    | .cons (.tree t) r => "t" :: (encTree t ++ encItems r)
end

def showVR : VR → String
  | .tree t => ",".intercalate (encTree t)
  | .none => "None"
  | .many ts => ",".intercalate (["M", toString ts.length] ++ ts.flatMap encTree)

def handleTree (hook : String) (trees : List String) : String :=
  match words hook, trees.mapM parseWholeTree with
  | ["-"], some [t] => s!"out={showVR (visit noHook t)} spec={",".intercalate (encTree t)}"
  | ["r", id], some [t, r] =>
    match id.toNat? with
    | some id => s!"out={showVR (visit (replaceHook id r) t)} spec={",".intercalate (encTree (substTree id r t))}"
    | none => "bad-op"
  | ["d", id], some [t] =>
    match id.toNat? with
    | some id => s!"out={showVR (visit (fun n => if n.id == id then some VR.none else none) t)} spec=na"
    | none => "bad-op"
  | ["s", id], some [t, r1, r2] =>
    match id.toNat? with
    | some id => s!"out={showVR (visit (fun n => if n.id == id then some (VR.many [r1, r2]) else none) t)} spec=na"
    | none => "bad-op"
  | _, _ => "bad-op"

mutual
  def parseTarget : Nat → List String → Option (Target × List String)
    | 0, _ => none
    | _ + 1, "n" :: x :: rest => some (.name x, rest)
    | _ + 1, "o" :: k :: rest => some (.other k, rest)
    | fuel + 1, "s" :: rest =>
      match parseTarget fuel rest with
      | some (t, rest) => some (.starred t, rest)
      | none => none
    | fuel + 1, "t" :: k :: rest =>
      match k.toNat? with
      | some k => match parseTargets fuel k rest with
        | some (ts, rest) => some (.tuple ts, rest)
        | none => none
      | none => none
    | fuel + 1, "l" :: k :: rest =>
      match k.toNat? with
      | some k => match parseTargets fuel k rest with
        | some (ts, rest) => some (.list ts, rest)
        | none => none
      | none => none
    | _, _ => none
  def parseTargets : Nat → Nat → List String → Option (TargetList × List String)
    | 0, _, _ => none
    | _ + 1, 0, toks => some (.nil, toks)
    | fuel + 1, k + 1, toks =>
      match parseTarget fuel toks with
      | some (t, rest) =>
        match parseTargets fuel k rest with
        | some (ts, rest) => some (.cons t ts, rest)
        | none => none
      | none => none
end

def handleGuard (targets valueBinds u : String) : String :=
  match words targets with
  | k :: toks =>
    match k.toNat? with
    | some k =>
      match parseTargets (toks.length + 2) k toks with
      | some (ts, []) =>
        let vb := if valueBinds == "-" then [] else valueBinds.splitOn ","
        let st : AssignStmt := ⟨ts, vb⟩
        let b (x : Bool) := if x then "1" else "0"
        s!"guard={b (Gen.removalGuard st u)} sole={b (soleBinding st u)} old={b (oldRemovalGuard st u)}"
      | _ => "bad-op"
    | none => "bad-op"
  | _ => "bad-op"

def handle (line : String) : String :=
  match line.splitOn "|" with
  | ["A", ls, dels, adds] =>
    match parseLines ls, parseNats dels, parseAdds adds with
    | some ls, some dels, some adds =>
      let model := match applyChanges [⟨dels, adds⟩] ls with
        | .ok r => encLines r
        | .error e => showExc e
      let (spec, wf) := match adds with
        | some a => if ChangeWF ls dels then (encLines (specApply ls dels a), "1") else ("na", "0")
        | none => (encLines ls, "1")
      s!"model={model} spec={spec} wf={wf}"
    | _, _, _ => "bad-op"
  | ["I", ls, raw, rounds, limit] =>
    match parseLines ls, (words raw).mapM parseDiag, rounds.toNat?, limit.toNat? with
    | some ls, some raw, some rounds, some limit =>
      let st : St := ⟨ls, raw⟩
      if !(raw.all fun d => decide (1 ≤ d.line) && decide (d.line ≤ (pyLines ls).length) && decide (d.line ≤ ls.length)) then "EXC"
      else
        let d := classes [(D16_twoCodesOneLine raw, "twoCodesOneLine"), (D16_ignoreAboveLineOne ls raw, "ignoreAboveLineOne"),
                          (D16_insideString ls raw, "insideString"), (D16_afterBackslash ls raw, "afterBackslash")]
        let (stN, link, rs) := runRounds rounds st true []
        let out := match mainLoop limit (limit + 2) 0 st with
          | .done _ n => s!"done:{n}"
          | .limitExceeded _ => "limit"
        let ok := if AddIgnoresOK st then "1" else "0"
        s!"D={d} ok={ok} c11={if link then "ok" else "diff"} lex={lexLetters ls} out={out} spec={hashLines (specFinal st)} " ++
          s!"rounds={";".intercalate rs} srounds={";".intercalate (specRounds rounds st [])} last={encLines stN.lines}"
    | _, _, _, _ => "bad-op"
  | ["R", ls, first, astLast, stmtEnd] =>
    match parseLines ls, first.toNat?, astLast.toNat?, stmtEnd.toNat? with
    | some ls, some first, some astLast, some stmtEnd =>
      if first = 0 || first > ls.length then "EXC:IndexError"
      else
        let d := if D16_stmtRangeOverrun ls first stmtEnd then "stmtRangeOverrun" else "-"
        s!"range={showNats (lineRange ls first astLast)} spec={showNats (specRange first stmtEnd)} D={d}"
    | _, _, _, _ => "bad-op"
  | ["X", ls, first, stmtEnd, adds, flags] =>
    match parseLines ls, first.toNat?, stmtEnd.toNat?, parseAdds adds, flags.toList with
    | some ls, some first, some stmtEnd, some adds, [a, b, c, e, g, w, pt, pz, ij] =>
      let fc : FixCase := { lines := ls, first := first, stmtEnd := stmtEnd, adds := adds,
                            sharesLine := a == '1', soleInBlock := b == '1', isElif := c == '1', pctRisky := e == '1',
                            decorated := g == '1', hasWalrus := w == '1', pctTail := pt == '1', pctZero := pz == '1', inJoinedStr := ij == '1' }
      let d := classes [(D16_stmtRangeOverrun ls first stmtEnd, "stmtRangeOverrun"), (D16_sharedLine fc, "sharedLine"),
                        (D16_emptyBlock fc, "emptyBlock"), (D16_elifHeader fc, "elifHeader"),
                        (D16_fstringConversion fc, "fstringConversion"), (D16_decoratedStmt fc, "decoratedStmt")]
      s!"D={d}"
    | _, _, _, _, _ => "bad-op"
  | "T" :: hook :: trees => handleTree hook trees
  | ["G", targets, vb, u] => handleGuard targets vb u
  | _ => "bad-op"

partial def loop (h : IO.FS.Stream) : IO Unit := do
  let line ← h.getLine
  if line.isEmpty then return ()
  IO.println (handle (line.trimAscii.toString))
  loop h

def main : IO Unit := do loop (← IO.getStdin)
