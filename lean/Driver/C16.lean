import PyaModel.Spec.FixSpec
/-! Line protocol driver for C16.

Source lines are space-separated, each a dot-separated list of decimal code points (`-` = empty line);
a list of lines that is empty is written `E`; `N` stands for Python's `None`.

`A|<lines>|<dels>|<adds>`            dels: comma-separated numbers or `-`; adds: lines | `E` | `N`
  → `model=<lines | E | EXC:ValueError | EXC:IndexError> spec=<lines | E | na> wf=<0|1>`
     model = `applyChanges [⟨dels, adds⟩]`, spec = `specApply` (only when `ChangeWF`)

`I|<lines>|<raw>|<rounds>|<limit>`    raw: space-separated `code,line,col`
  → `D=<classes | -> ok=<0|1> c11=<ok|diff|exc> lex=<one letter per line> out=<done:n|limit> spec=<hash> ` ++
    `rounds=<f0>~<h0>;<f1>~<h1>;… srounds=<same for specRound> last=<lines>`
     f_k = failures reported by run k (`code@line.col` joined by `,`, `-` if none), h_k = hash of the file
     after run k's change; `rounds` runs are made; last = the file after them; `out` = `mainLoop limit`;
     `spec` = hash of `specFinal`; `c11` = C11's `check` agrees with `visible` in every round;
     `ok` = `AddIgnoresOK`; `EXC` instead of everything if a diagnostic lies outside the file.

`R|<lines>|<first>|<astLast>|<stmtEnd>`
  → `range=<a,b,…> spec=<a,b,…> D=<stmtRangeOverrun | ->`

`X|<lines>|<first>|<stmtEnd>|<adds>|<sharesLine><soleInBlock><isElif><pctRisky>`   (four 0/1 digits)
  → `D=<classes | ->`   (stmtRangeOverrun, sharedLine, emptyBlock, elifHeader, fstringConversion)
-/
open Pya.C16
open Pya.C11 (Line)

def words (s : String) : List String := (s.splitOn " ").filter (· != "")

def parseLine (t : String) : Option Line :=
  if t == "-" then some [] else (t.splitOn ".").mapM fun x => x.toNat?.map Char.ofNat

def parseLines (s : String) : Option (List Line) :=
  if s.trimAscii.toString == "E" then some [] else (words s).mapM parseLine

def parseAdds (s : String) : Option (Option (List Line)) :=
  if s.trimAscii.toString == "N" then some none else (parseLines s).map some

def parseNats (s : String) : Option (List Nat) :=
  if s == "-" || s == "" then some [] else (s.splitOn ",").mapM (·.toNat?)

def parseDiag (t : String) : Option Diag :=
  match t.splitOn "," with
  | [c, l, k] => do some { code := c, line := (← l.toNat?), col := (← k.toNat?) }
  | _ => none

def encLine (l : Line) : String := if l.isEmpty then "-" else ".".intercalate (l.map fun c => toString c.toNat)
def encLines (ls : List Line) : String := if ls.isEmpty then "E" else " ".intercalate (ls.map encLine)

def hashMod : Nat := 2305843009213693951
def hashLine (l : Line) : Nat := l.foldl (fun h c => (h * 131 + c.toNat + 1) % hashMod) 7
def hashLines (ls : List Line) : Nat := ls.foldl (fun h l => (h * 1000003 + hashLine l) % hashMod) 11

def showDiag (d : Diag) : String := s!"{d.code}@{d.line}.{d.col}"
def showDiags (ds : List Diag) : String := if ds.isEmpty then "-" else ",".intercalate (ds.map showDiag)
def showNats (ks : List Nat) : String := if ks.isEmpty then "-" else ",".intercalate (ks.map toString)

def showExc : Exc → String
  | .valueError => "EXC:ValueError"
  | .indexError => "EXC:IndexError"

def classes (cs : List (Bool × String)) : String :=
  let on := cs.filterMap fun (b, n) => if b then some n else none
  if on.isEmpty then "-" else ",".intercalate on

/-- C11's model of the whole `show_error` pipeline on the same stream (distinct nodes, every code on except
the two end-of-file passes). -/
def c11Fails (pl : List Line) (raw : List Diag) : Option (List Diag) :=
  let en : String → Bool := fun c => c != "unused_ignore" && c != "bare_ignore"
  let rs : List Pya.C11.Raw := (List.range raw.length).zip raw |>.map fun (i, d) =>
    { node := .ast i, code := some d.code, pos := some (d.line, d.col) }
  (Pya.C11.check en pl rs).map fun st => st.fails.filterMap fun r =>
    match r.code, r.pos with
    | some c, some (l, k) => some { code := c, line := l, col := k }
    | _, _ => none

def lexLetter : Lex → Char
  | .code _ => 'c'
  | .cont 0 => 'b'
  | .cont _ => 'B'
  | .single _ _ => 's'
  | .triple _ _ => 's'

def lexLetters (lines : List Line) : String :=
  let rec go (st : Lex) : List Line → List Char
    | [] => []
    | l :: ls => lexLetter st :: go (scanLine st l) ls
  String.ofList (go (.code 0) lines)

def runRounds : Nat → St → Bool → List String → (St × Bool × List String)
  | 0, st, ok, acc => (st, ok, acc.reverse)
  | n + 1, st, ok, acc =>
    let pl := pyLines st.lines
    let link := match c11Fails pl st.raw with
      | some fs => fs == st.diags
      | none => false
    let st' := addIgnoresRound st
    runRounds n st' (ok && link) (s!"{showDiags st.diags}~{hashLines st'.lines}" :: acc)

def specRounds : Nat → St → List String → List String
  | 0, _, acc => acc.reverse
  | n + 1, st, acc =>
    let st' := specRound st
    specRounds n st' (s!"{showDiags (visible st.lines st.raw)}~{hashLines st'.lines}" :: acc)

def handle (line : String) : String :=
  match line.splitOn "|" with
  | ["A", ls, dels, adds] =>
    match parseLines ls, parseNats dels, parseAdds adds with
    | some ls, some dels, some adds =>
      let model := match applyChanges [⟨dels, adds⟩] ls with
        | .ok r => encLines r
        | .error e => showExc e
      let (spec, wf) := match adds with
        | some a => if ChangeWF ls dels then (encLines (specApply ls dels a), "1") else ("na", "0")
        | none => (encLines ls, "1")
      s!"model={model} spec={spec} wf={wf}"
    | _, _, _ => "bad-op"
  | ["I", ls, raw, rounds, limit] =>
    match parseLines ls, (words raw).mapM parseDiag, rounds.toNat?, limit.toNat? with
    | some ls, some raw, some rounds, some limit =>
      let st : St := ⟨ls, raw⟩
      if !(raw.all fun d => decide (1 ≤ d.line) && decide (d.line ≤ (pyLines ls).length) && decide (d.line ≤ ls.length)) then "EXC"
      else
        let d := classes [(D16_twoCodesOneLine raw, "twoCodesOneLine"), (D16_ignoreAboveLineOne ls raw, "ignoreAboveLineOne"),
                          (D16_insideString ls raw, "insideString"), (D16_afterBackslash ls raw, "afterBackslash")]
        let (stN, link, rs) := runRounds rounds st true []
        let out := match mainLoop limit (limit + 2) 0 st with
          | .done _ n => s!"done:{n}"
          | .limitExceeded _ => "limit"
        let ok := if AddIgnoresOK st then "1" else "0"
        s!"D={d} ok={ok} c11={if link then "ok" else "diff"} lex={lexLetters ls} out={out} spec={hashLines (specFinal st)} " ++
          s!"rounds={";".intercalate rs} srounds={";".intercalate (specRounds rounds st [])} last={encLines stN.lines}"
    | _, _, _, _ => "bad-op"
  | ["R", ls, first, astLast, stmtEnd] =>
    match parseLines ls, first.toNat?, astLast.toNat?, stmtEnd.toNat? with
    | some ls, some first, some astLast, some stmtEnd =>
      if first = 0 || first > ls.length then "EXC:IndexError"
      else
        let d := if D16_stmtRangeOverrun ls first stmtEnd then "stmtRangeOverrun" else "-"
        s!"range={showNats (lineRange ls first astLast)} spec={showNats (specRange first stmtEnd)} D={d}"
    | _, _, _, _ => "bad-op"
  | ["X", ls, first, stmtEnd, adds, flags] =>
    match parseLines ls, first.toNat?, stmtEnd.toNat?, parseAdds adds, flags.toList with
    | some ls, some first, some stmtEnd, some adds, [a, b, c, e] =>
      let fc : FixCase := { lines := ls, first := first, stmtEnd := stmtEnd, adds := adds,
                            sharesLine := a == '1', soleInBlock := b == '1', isElif := c == '1', pctRisky := e == '1' }
      let d := classes [(D16_stmtRangeOverrun ls first stmtEnd, "stmtRangeOverrun"), (D16_sharedLine fc, "sharedLine"),
                        (D16_emptyBlock fc, "emptyBlock"), (D16_elifHeader fc, "elifHeader"),
                        (D16_fstringConversion fc, "fstringConversion")]
      s!"D={d}"
    | _, _, _, _, _ => "bad-op"
  | _ => "bad-op"

partial def loop (h : IO.FS.Stream) : IO Unit := do
  let line ← h.getLine
  if line.isEmpty then return ()
  IO.println (handle (line.trimAscii.toString))
  loop h

def main : IO Unit := do loop (← IO.getStdin)
