import PyaModel.Spec.CpyFormat
/-! Line protocol driver for C17.

Templates are comma-separated decimal code points (`-` = empty template).

in : `P <s|b> <template> | <arg> [/ <arg> …]`   `%` formatting; s = str, b = bytes template;
        several ` / `-separated args = a union-typed operand (cpy: one verdict per member, `;`-separated)
        arg  : `S <elem>` | `T <elem>*` | `D <key>=<elem> …`
        elem : `i<int>` `bT` `bF` `f` `s<len>` `y<len>` `N` `c` `L` `T` `D`
        key  : `s<cp.cp…>` (str key) | `y<cp.cp…>` (bytes key) | `o` (any other literal key)
out: `errs=<kind,…|-> ty=<str|bytes> cpy=<raises|ok:str|ok:bytes> D=<class,…|->`

in : `F <template> | <nargs> <kwname>*`   `str.format`; keyword names as dot-separated code points
out: `msgs=<kind,…|-> perr=<kind|-> fields=<name/path/conv/spec/depth;…|-> cpy=<0|1> D=<class,…|->`

in : `R <template>`                     the scanner alone (checked against Python's `re`)
out: `<tok>;<tok>…` tok = `bad` | `conv:key:flags:width:prec:len`
-/
open Pya Pya.C17

def parseCps (sep : Char) (s : String) : Option (List Char) :=
  if s == "-" || s == "" then some []
  else (s.splitOn (String.singleton sep)).mapM fun x => x.toNat?.map Char.ofNat

def words (s : String) : List String := (s.splitOn " ").filter (· != "")

def parseScalar (t : String) : Option Scalar :=
  if t == "bT" then some (.bool true) else if t == "bF" then some (.bool false)
  else if t == "f" then some .float else if t == "N" then some .none
  else if t == "c" then some .complex else if t == "L" then some .list
  else if t.startsWith "i" then (t.drop 1).toString.toInt?.map Scalar.int
  else if t.startsWith "s" then (t.drop 1).toString.toNat?.map Scalar.str
  else if t.startsWith "y" then (t.drop 1).toString.toNat?.map Scalar.bytes
  else none

def parseElem (t : String) : Option Elem :=
  if t == "T" then some .tuple else if t == "D" then some .dict
  else (parseScalar t).map Elem.sc

def parseKey (t : String) : Option Key :=
  if t == "o" then some .other
  else if t.startsWith "s" then (parseCps '.' (t.drop 1).toString).map Key.str
  else if t.startsWith "y" then (parseCps '.' (t.drop 1).toString).map Key.bytes
  else none

def parseArg (s : String) : Option Arg :=
  match words s with
  | "S" :: [e] => (parseScalar e).map Arg.sc
  | "T" :: es => (es.mapM parseElem).map Arg.tup
  | "D" :: kvs => (kvs.mapM fun (kv : String) =>
      match kv.splitOn "=" with
      | [k, v] => do let k ← parseKey k; let v ← parseElem v; pure (k, v)
      | _ => none).map Arg.dict
  | _ => none

def showErr : PErr → String
  | .pctOpts => "pctOpts" | .bOnStr => "bOnStr" | .combine => "combine" | .badSpec => "badSpec"
  | .noSpecs => "noSpecs" | .needMapping => "needMapping" | .missingKeys => "missingKeys"
  | .tooFew => "tooFew" | .tooMany => "tooMany" | .numeric => "numeric" | .intOnly => "intOnly"
  | .cRange => "cRange"
  | .cLen => "cLen" | .cType => "cType" | .bytesOnly => "bytesOnly" | .starInt => "starInt"
  | .pctArg => "pctArg"

def showList (xs : List String) : String := if xs.isEmpty then "-" else ",".intercalate xs

def showTy : RTy → String | .str => "str" | .bytes => "bytes"

def cpsOf (cs : List Char) : String :=
  if cs.isEmpty then "" else ".".intercalate (cs.map fun c => toString c.toNat)

def showWP : WP → String | .none => "n" | .star => "*" | .num n => toString n

def showTok : Tok → String
  | .bad => "bad"
  | .spec s =>
    let key := match s.key with | some k => "k" ++ cpsOf k | none => "n"
    s!"{s.conv.toNat}:{key}:{if s.flags then 1 else 0}:{showWP s.width}:{showWP s.prec}:{if s.len then 1 else 0}"

def pctClasses (b : Bool) (t : List Char) (a : Arg) : List String :=
  (if D17_cRangeStr b t a then ["cRangeStr"] else []) ++
  (if D17_dotNoDigits t then ["dotNoDigits"] else []) ++
  (if D17_emptyKey t then ["emptyKey"] else []) ++
  (if D17_parenKey t then ["parenKey"] else []) ++
  (if D17_hugeWidthPrec t then ["hugeWidthPrec"] else []) ++
  (if D17_bytesMapping b t a then ["bytesMapping"] else []) ++
  (if D17_nonStrKey b t a then ["nonStrKey"] else []) ++
  (if D17_pctOnlyMapping b t a then ["pctOnlyMapping"] else [])

def dedup (xs : List String) : List String := xs.foldl (fun acc x => if acc.contains x then acc else acc ++ [x]) []

/-- `arg` may be a union: members separated by ` / `. -/
def handleP (kind tmpl arg : String) : String :=
  match parseCps ',' tmpl, (arg.splitOn "/").mapM parseArg with
  | some t, some as =>
    let b := kind == "b"
    let o := pyaPercentU b t as
    let cpy := as.map fun a => match cpyPercent b t a with
      | .raises => "raises"
      | .ok ty => "ok:" ++ showTy ty
    let ds := dedup (as.flatMap (pctClasses b t))
    s!"errs={showList (o.errs.map showErr)} ty={showTy o.ty} cpy={";".intercalate cpy} D={showList ds}"
  | _, _ => "bad-op"

def showFErr : FErr → String
  | .eofBrace => "eofBrace" | .eofBracket => "eofBracket" | .single => "single"
  | .expectedOne => "expectedOne" | .badAttr => "badAttr" | .badConv => "badConv"
  | .braceInName => "braceInName"

def showFMsg : FMsg → String
  | .parse e => "parse:" ++ showFErr e
  | .tooFew => "tooFew" | .outOfRange => "outOfRange" | .notGiven => "notGiven"
  | .unusedIdx => "unusedIdx" | .unusedKw => "unusedKw"

def showField (f : Field) : String :=
  let n := match f.name with
    | .auto => "A" | .idx i => s!"I{i}" | .name s => "N" ++ cpsOf s
  let c := match f.conv with | some c => toString c.toNat | none => "n"
  s!"{n}/{f.path}/{c}/{if f.hasSpec then 1 else 0}/{f.depth}"

def fmtClasses (t : List Char) : List String :=
  (if D17_fmtAutoManual t then ["fmtAutoManual"] else []) ++
  (if D17_fmtPath t then ["fmtPath"] else []) ++
  (if D17_fmtSpec t then ["fmtSpec"] else [])

def handleF (tmpl args : String) : String :=
  match parseCps ',' tmpl, words args with
  | some t, n :: kws =>
    match n.toNat?, kws.mapM (parseCps '.') with
    | some nargs, some kws =>
      let (fs, errs) := parseFormat t
      let msgs := pyaFormat t nargs kws
      let perr := match errs with | e :: _ => showFErr e | [] => "-"
      s!"msgs={showList (msgs.map showFMsg)} perr={perr} fields={if fs.isEmpty then "-" else ";".intercalate (fs.map showField)} cpy={if cpyFormat t nargs kws then 1 else 0} D={showList (fmtClasses t)}"
    | _, _ => "bad-op"
  | _, _ => "bad-op"

def handle (line : String) : String :=
  if line.startsWith "P " then
    match (line.drop 2).toString.splitOn "|" with
    | [l, arg] =>
      match words l with
      | [kind, tmpl] => if kind == "s" || kind == "b" then handleP kind tmpl arg else "bad-op"
      | _ => "bad-op"
    | _ => "bad-op"
  else if line.startsWith "F " then
    match (line.drop 2).toString.splitOn "|" with
    | [l, args] =>
      match words l with
      | [tmpl] => handleF tmpl args
      | _ => "bad-op"
    | _ => "bad-op"
  else if line.startsWith "R " then
    match parseCps ',' (line.drop 2).toString.trimAscii.toString with
    | some t => let ts := scan t; if ts.isEmpty then "-" else ";".intercalate (ts.map showTok)
    | none => "bad-op"
  else "bad-op"

partial def loop (h : IO.FS.Stream) : IO Unit := do
  let line ← h.getLine
  if line.isEmpty then return ()
  IO.println (handle (line.trimAscii.toString))
  loop h

def main : IO Unit := do loop (← IO.getStdin)
