import Lean.Data.Json
import PyaModel.Spec.ConfigSpec
import PyaModel.Generated.OptionsRegistry
/-! Line protocol driver for C18 (one JSON object per input line, one output line per case).

in : `{"fs": [[name, TABLE], …], "main": name, "cli": [[opt, VAL], …], "q": [[opt, "a.b"], …]}`
       TABLE = `[[key, TV], …]` (ordered)   TV = true | false | int | "str" | {"f": 0|1} | [TV, …] | {"t": TABLE}
       VAL = true | false | int | ["s", …]        module path "" = the empty path
out: `parse=<ok|ERR:kind> valid=<0|1> extInOv=<0|1> || m=<val|ERR> s=<val|REJECT> D=<classes|-> || …`
       m = model (`Pya.effective`), s = spec (`Pya.specEffective`), D = exception classes of the query
     unparseable input: `bad-op`
-/
open Lean Pya Pya.C18

partial def tvOfJson (j : Json) : Option TV :=
  match j with
  | .bool b => some (.bool b)
  | .num n => if n.exponent == 0 then some (.int n.mantissa) else none
  | .str s => some (.str s)
  | .arr xs => (xs.toList.mapM tvOfJson).map .arr
  | .obj _ =>
    match j.getObjVal? "f" with
    | .ok (.num n) => some (.float (n.mantissa != 0))
    | _ =>
      match j.getObjVal? "t" with
      | .ok (.arr kvs) => (kvs.toList.mapM fun kv =>
          match kv with
          | Json.arr #[Json.str k, v] => (tvOfJson v).map (k, ·)
          | _ => none).map .tbl
      | _ => none
  | _ => none

def tableOfJson (j : Json) : Option Table :=
  match tvOfJson (Json.mkObj [("t", j)]) with
  | some (.tbl kvs) => some kvs
  | _ => none

def strList (xs : Array Json) : Option (List String) :=
  xs.toList.mapM fun | .str s => some s | _ => none

def valOfJson (k : OptKind) (j : Json) : Option Val :=
  match j with
  | .bool b => some (.bool b)
  | .num n => if n.exponent == 0 then some (.int n.mantissa) else none
  | .arr xs => (strList xs).map (if k == .pathSeq then .paths else .strs)
  | _ => none

def showVal : Val → String
  | .bool b => if b then "T" else "F"
  | .int n => toString n
  | .strs l => "[" ++ ",".intercalate l ++ "]"
  | .paths l => "[" ++ ",".intercalate l ++ "]"

def showErr : CfgErr → String
  | .topLevelModule => "topLevelModule" | .extendNotStr => "extendNotStr" | .cannotOpen => "cannotOpen"
  | .recursive => "recursive" | .nestedOverrides => "nestedOverrides" | .overridesNotList => "overridesNotList"
  | .overrideNotDict => "overrideNotDict" | .overrideModule => "overrideModule"
  | .disableNotBool => "disableNotBool"
  | .unknownKey k => s!"unknownKey:{k}" | .badValue o => s!"badValue:{o}" | .unmodelled o => s!"unmodelled:{o}"
  | .fuel => "fuel"

def classes (l : List (String × Bool)) : String :=
  match (l.filter (·.2)).map (·.1) with
  | [] => "-"
  | cs => ",".intercalate cs

def modOfString (s : String) : List String := if s == "" then [] else s.splitOn "."

def handle (line : String) : String :=
  let reg := liveRegistry
  match Json.parse line with
  | .error _ => "bad-op"
  | .ok j =>
    let fs? : Option FS := match j.getObjVal? "fs" with
      | .ok (.arr fs) => fs.toList.mapM fun f => match f with
          | Json.arr #[Json.str n, t] => (tableOfJson t).map (n, ·)
          | _ => none
      | _ => none
    let cli? : Option (List (String × Val)) := match j.getObjVal? "cli" with
      | .ok (.arr cs) => cs.toList.mapM fun c => match c with
          | Json.arr #[Json.str n, v] => (reg.find n).bind fun d => (valOfJson d.kind v).map (n, ·)
          | _ => none
      | _ => none
    let qs? : Option (List (OptDecl × List String)) := match j.getObjVal? "q" with
      | .ok (.arr qs) => qs.toList.mapM fun q => match q with
          | Json.arr #[Json.str n, Json.str m] => (reg.find n).map (·, modOfString m)
          | _ => none
      | _ => none
    match fs?, j.getObjVal? "main", cli?, qs? with
    | some fs, .ok (.str main), some cli, some qs =>
      let fuel := fs.length + 1
      let parsed := parseFile reg fs fuel main 0 []
      let stack? := specStack fs fuel main []
      let valid := match stack? with | some st => st.all (specValidBody reg) | none => false
      let dom := match stack? with | some st => extendInOverride st | none => false
      let head := s!"parse={match parsed with | .ok _ => "ok" | .error e => "ERR:" ++ showErr e} valid={if valid then 1 else 0} extInOv={if dom then 1 else 0}"
      let outs := qs.map fun (d, mod) =>
        let m := match parsed with
          | .ok insts => showVal (getValueFor d (cliInsts cli ++ insts) mod)
          | .error _ => "ERR"
        let s := match specEffective reg fs main cli d mod with
          | some v => showVal v
          | none => "REJECT"
        let dc := match stack? with
          | some _ => classes [("pathListNoConcat", D18_pathListNoConcat d)]
          | none => "-"
        s!"m={m} s={s} D={dc}"
      " || ".intercalate (head :: outs)
    | _, _, _, _ => "bad-op"

partial def loop (h : IO.FS.Stream) : IO Unit := do
  let line ← h.getLine
  if line.isEmpty then return ()
  IO.println (handle (line.trimAscii.toString))
  loop h

def main : IO Unit := do loop (← IO.getStdin)
