import PyaModel.Spec.OpsSpec
/-! Line protocol driver for C19.
in : `T k op a b ta tb fl c ct cv p pt pv`      one operation-table row (13 naturals, Spec/OpsSpec `Row`)
     `G <t|l> <key> <members…|->`               literal subscript; member = `<class id>` or `<class id>*` (variadic)
     `B same rprio lhas lsig lany lrt rhas rsig rany rrt`   binary-operator protocol, one `Side` per operand
     `A onlyKnown hasGetattr ignoredRef`         attribute fallback on a known object
out: `agree=<0|1> D=<class|-> model=<0|1|NA> conf=<0|1> spec=<0|1>`
     `res=<E|F|M:i> set=<{ids}|ERR> D=- exp=<{ids}>/<#IndexError>`   (no exception class: `getitem` is proved sound for all inputs)
     `bin=<report|left|right|nonlit> cpy=<TE|OTHER|L|R> D=<classes|->`
     `diag=<0|1>`
Unparseable input prints `bad-op`. -/
open Pya Pya.C19

def words (s : String) : List String := (s.splitOn " ").filter (· != "")

def b01 (b : Bool) : String := if b then "1" else "0"

def parseBool (s : String) : Option Bool :=
  if s == "1" then some true else if s == "0" then some false else none

def showSet (xs : List Nat) : String :=
  let sorted := (xs.eraseDups.toArray.qsort (· < ·)).toList
  "{" ++ ",".intercalate (sorted.map toString) ++ "}"

def resSet (ms : List (Bool × Nat)) : GetRes Nat → String
  | .member m => showSet [m]
  | .fallback => showSet (ms.map (·.2))
  | .error => "ERR"

def parseMember (t : String) : Option (Bool × Nat) :=
  if t.endsWith "*" then (t.dropEnd 1).toNat?.map fun n => (true, n)
  else t.toNat?.map fun n => (false, n)

def parseInt (t : String) : Option Int :=
  if t.startsWith "-" then (t.drop 1).toNat?.map fun n => -(n : Int) else t.toNat?.map fun n => (n : Int)

/-- The expansion count vectors the Python oracle enumerates (0‥3 copies per variadic member). -/
def combos (m : Nat) : List (List Nat) :=
  if m ≤ 3 then
    (List.range m).foldl (fun acc _ => acc.flatMap fun v => (List.range 4).map fun n => v ++ [n]) [[]]
  else
    (List.range 4).map (fun n => List.replicate m n) ++
    (List.range 4).map (fun n => (List.range m).map fun j => (j + n) % 4)

def handleG (typ : String) (key : String) (mem : List String) : String :=
  let typ? : Option SeqTyp := if typ == "t" then some .tuple else if typ == "l" then some .list else none
  let ms? : Option (List (Bool × Nat)) := if mem == ["-"] then some [] else mem.mapM parseMember
  match typ?, parseInt key, ms? with
  | some typ, some k, some ms =>
    let res := getitem typ ms k
    let tag := match res with | .member m => s!"M:{m}" | .fallback => "F" | .error => "E"
    let nMany := (ms.filter (·.1)).length
    let outs := (combos nMany).map fun ns => elemAt (expand ms ns) k
    let classes := outs.filterMap id
    let nerr := (outs.filter (·.isNone)).length
    s!"res={tag} set={resSet ms res} D=- exp={showSet classes}/{nerr}"
  | _, _, _ => "bad-op"

def handleT (ws : List String) : String :=
  match ws.mapM String.toNat? with
  | some [k, op, a, b, ta, tb, fl, c, ct, cv, p, pt, pv] =>
    let x : Row := ⟨k, op, a, b, ta, tb, fl, c, ct, cv, p, pt, pv⟩
    let m := match modelDiag x with | none => "NA" | some d => b01 d
    s!"agree={b01 (agree x)} D={dName x} model={m} conf={b01 (conforms x)} spec={b01 (specMatches x)}"
  | _ => "bad-op"

def handleB (ws : List String) : String :=
  match ws.mapM String.toNat? with
  | some [same, rprio, lhas, lsig, lany, lrt, rhas, rsig, rany, rrt] =>
    if [same, rprio, lhas, lsig, lany, rhas, rsig, rany].any (· > 1) || lrt > 3 || rrt > 3 then "bad-op" else
    let l : Side := ⟨lhas == 1, lsig == 1, lany == 1, rtOf lrt⟩
    let r : Side := ⟨rhas == 1, rsig == 1, rany == 1, rtOf rrt⟩
    let res := match binop l r with
      | .report => "report" | .leftLit => "left" | .rightLit => "right" | .nonLit => "nonlit"
    let cpy := match cpyBinop (same == 1) (rprio == 1) l.rside r.rside with
      | .typeError => "TE" | .otherExc => "OTHER" | .fromLeft => "L" | .fromRight => "R"
    let ds := (if Dbin_stub l || Dbin_stub r then ["stub"] else []) ++
      (if Dbin_sameTypeReflected (same == 1) l.rside r.rside then ["sameTypeReflected"] else []) ++
      (if Dbin_firstRaisesTE (same == 1) (rprio == 1) l.rside r.rside then ["firstRaisesTE"] else []) ++
      (if Dbin_subclassReflected (same == 1) (rprio == 1) l.rside r.rside then ["subclassReflected"] else [])
    let d := if ds.isEmpty then "-" else ",".intercalate ds
    s!"bin={res} cpy={cpy} D={d}"
  | _ => "bad-op"

def handleA (ws : List String) : String :=
  match ws.mapM parseBool with
  | some [ok, hg, ign] => s!"diag={b01 (attrFallback ⟨ok, hg, ign⟩)}"
  | _ => "bad-op"

def handle (line : String) : String :=
  match words line with
  | "T" :: rest => handleT rest
  | "G" :: typ :: key :: mem => if mem.isEmpty then "bad-op" else handleG typ key mem
  | "B" :: rest => handleB rest
  | "A" :: rest => handleA rest
  | _ => "bad-op"

partial def loop (h : IO.FS.Stream) : IO Unit := do
  let line ← h.getLine
  if line.isEmpty then return ()
  IO.println (handle (line.trimAscii.toString))
  loop h

def main : IO Unit := do loop (← IO.getStdin)
