import PyaModel.Core.Sexp
import PyaModel.Spec.TypeEvalSpec
import PyaModel.Generated.ClassTable
/-! Line protocol driver for C20 (s-expressions, Core/Sexp.lean).
in : `(params (<name> <po|pk|vp|ko|vk> <none|(lit <obj>)|(ann <ty>)>) …) (args (p <ty>) (k <name> <ty>) (S <ty>) (D <ty>) …)
      (ret <ty>) (body <stmt> …)`
     stmt: `pass` | `(ret <ty>)` | `(err <msg>)` | `(if <cond> (<stmt> …) (<stmt> …))`
     cond: `(oftype <v> <ty> <0|1>)` | `(cmp <v> <obj> <0|1>)` (1 = `!=` / `is not`) | `(kind <provided|positional|keyword> <v>)`
           | `(sys <0|1>)` | `(not <cond>)` | `(and <cond> …)` | `(or <cond> …)`
out: `r=<ty> e=<m1,m2…|-> ref=<ty> refe=<…|-> pos=<name:POS;…> vars=<name=ty;…> D=<class,…|->`
     | `ERR` (the call does not bind) | `bad-op`
-/
open Pya Pya.C20

def parseKind : String → Option Kind
  | "po" => some .posOnly | "pk" => some .posOrKw | "vp" => some .varPos
  | "ko" => some .kwOnly | "vk" => some .varKw | _ => none

def parseDflt : Sexp → Option Dflt
  | .atom "none" => some .none
  | .node [.atom "lit", o] => o.toObj.map .lit
  | .node [.atom "ann", t] => t.toTy.map .ann
  | _ => none

def parseParam : Sexp → Option EParam
  | .node [.atom n, .atom k, d] => do some ⟨n, ← parseKind k, ← parseDflt d⟩
  | _ => none

def parseArg : Sexp → Option EArg
  | .node [.atom "p", t] => t.toTy.map .pos
  | .node [.atom "k", .atom n, t] => t.toTy.map (.kw n)
  | .node [.atom "S", t] => t.toTy.map .star
  | .node [.atom "D", t] => t.toTy.map .dstar
  | _ => none

def parseKindFn : String → Option KindFn
  | "provided" => some .provided | "positional" => some .positional | "keyword" => some .keyword
  | _ => none

mutual
partial def parseCond : Sexp → Option Cond
  | .node [.atom "oftype", .atom v, t, .atom x] => t.toTy.map fun t => .ofType v t (x == "1")
  | .node [.atom "cmp", .atom v, o, .atom n] => o.toObj.map fun o => .cmp v o (n == "1")
  | .node [.atom "kind", .atom f, .atom v] => (parseKindFn f).map fun f => .kind f v
  | .node [.atom "sys", .atom b] => some (.sys (b == "1"))
  | .node [.atom "not", c] => (parseCond c).map .not
  | .node (.atom "and" :: cs) => (cs.mapM parseCond).map .and
  | .node (.atom "or" :: cs) => (cs.mapM parseCond).map .or
  | _ => none
end

mutual
partial def parseStmt : Sexp → Option Stmt
  | .atom "pass" => some .pass
  | .node [.atom "ret", t] => t.toTy.map .ret
  | .node [.atom "err", .atom m] => some (.err m)
  | .node [.atom "if", c, .node b, .node o] => do
      some (.ite (← parseCond c) (← b.mapM parseStmt) (← o.mapM parseStmt))
  | _ => none
end

def showPos : Pos → String
  | .idx n => s!"{n}" | .kw s => s!"'{s}'" | .args => "ARGS" | .kwargs => "KWARGS"
  | .dflt => "DEFAULT" | .unknown => "UNKNOWN"

def showMsgs (ms : List String) : String := if ms.isEmpty then "-" else ",".intercalate ms

def handle (line : String) : String :=
  match readSexps line with
  | some [.node (.atom "params" :: ps), .node (.atom "args" :: as), .node [.atom "ret", rt],
          .node (.atom "body" :: ss)] =>
    match ps.mapM parseParam, as.mapM parseArg, rt.toTy, ss.mapM parseStmt with
    | some ps, some as, some rt, some ss =>
      let c : EvalCase := ⟨ps, as, rt, ss⟩
      match context c, evalCall liveTable c, refCall liveTable c with
      | some (poss, vars), some (r, es), some (rr, res) =>
        let pos := ";".intercalate (poss.map fun np => s!"{np.1}:{showPos np.2}")
        let vs := ";".intercalate (vars.map fun kv => s!"{kv.1}={kv.2.show}")
        let d := match d20Classes liveTable c with | [] => "-" | cs => ",".intercalate cs
        s!"r={r.show} e={showMsgs es} ref={rr.show} refe={showMsgs res} pos={pos} vars={vs} D={d}"
      | _, _, _ => "ERR"
    | _, _, _, _ => "bad-op"
  | _ => "bad-op"

partial def loop (h : IO.FS.Stream) : IO Unit := do
  let line ← h.getLine
  if line.isEmpty then return ()
  IO.println (handle (line.trimAscii.toString))
  loop h

def main : IO Unit := do loop (← IO.getStdin)
