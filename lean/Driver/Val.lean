import PyaModel.Core.Sexp
import PyaModel.Spec.Mem
import PyaModel.Generated.ClassTable
import PyaModel.Spec.WF
import PyaModel.Spec.D04
import PyaModel.Spec.D04Sound
import PyaModel.Core.Union
import PyaModel.Spec.D14
/-! Line protocol driver for the value kernels (C03, C04, …).
in : `ca <0|1> <e> <a>` | `mem <o> <T>` | `beq <a> <b>`      (s-expressions, Core/Sexp.lean)
out: `1` | `0` | `bad-op`
-/
open Pya

def b2s (b : Bool) : String := if b then "1" else "0"

def handle (line : String) : String :=
  match readSexps line with
  | some [.atom "ca", .atom x, e, a] =>
    match e.toTy, a.toTy with
    | some e, some a => b2s (ca liveTable (x == "1") e a)
    | _, _ => "bad-op"
  | some [.atom "mem", o, t] =>
    match o.toObj, t.toTy with
    | some o, some t => b2s (mem liveTable o t)
    | _, _ => "bad-op"
  | some [.atom "d03", t, o] =>
    match t.toTy, o.toObj with
    | some t, some o => (match d03Classes liveTable t o with | [] => "-" | cs => ",".intercalate cs)
    | _, _ => "bad-op"
  | some [.atom "d04", a, b] =>
    match a.toTy, b.toTy with
    | some a, some b => (match d04SoundClasses liveTable a b with | [] => "-" | cs => ",".intercalate cs)
    | _, _ => "bad-op"
  | some (.atom "subst" :: .node kvs :: [t]) =>
    -- `subst ((0 T) (1 U)) term`
    let m : Option TvMap := kvs.mapM fun kv => match kv with
      | .node [.atom i, v] => do some ((← i.toNat?), (← v.toTy))
      | _ => none
    match m, t.toTy with
    | some m, some t => (subst m t).show
    | _, _ => "bad-op"
  | some (.atom "d14subst" :: .node kvs :: [a, b]) =>
    let m : Option TvMap := kvs.mapM fun kv => match kv with
      | .node [.atom i, v] => do some ((← i.toNat?), (← v.toTy))
      | _ => none
    match m, a.toTy, b.toTy with
    | some m, some a, some b => (match d14Subst m a b with | [] => "-" | cs => ",".intercalate cs)
    | _, _, _ => "bad-op"
  | some (.atom "unite" :: ts) =>
    match Sexp.toTys ts with
    | some ts => (unite ts).show
    | none => "bad-op"
  | some (.atom "d14ops" :: ts) =>
    match Sexp.toTys ts with
    | some ts => (match d14Ops ts with | [] => "-" | cs => ",".intercalate cs)
    | none => "bad-op"
  | some [.atom "d14pair", a, b] =>
    match a.toTy, b.toTy with
    | some a, some b => (match d14Pair a b with | [] => "-" | cs => ",".intercalate cs)
    | _, _ => "bad-op"
  | some [.atom "heq", a, b] =>
    match a.toTy, b.toTy with
    | some a, some b => b2s (Ty.hashEq a b)
    | _, _ => "bad-op"
  | some [.atom "beq", a, b] =>
    match a.toTy, b.toTy with
    | some a, some b => b2s (Ty.beq a b)
    | _, _ => "bad-op"
  | _ => "bad-op"

partial def loop (h : IO.FS.Stream) : IO Unit := do
  let line ← h.getLine
  if line.isEmpty then return ()
  IO.println (handle (line.trimAscii.toString))
  loop h

def main : IO Unit := do loop (← IO.getStdin)
