import PyaModel.Core.Sig
import PyaModel.Spec.CpyBind
import PyaModel.Proofs.C05
import PyaModel.Props.C05
