import PyaModel.Core.Sig
import PyaModel.Spec.CpyBind
import PyaModel.Proofs.C05
import PyaModel.Props.C05
import PyaModel.Core.Sexp
import PyaModel.Spec.WF
import PyaModel.Generated.ClassTable
import PyaModel.Props.C03
