def hello := "world"
