/-!
# Core/AnnVisit — model of the dispatch of `pyanalyze.annotations._Visitor` (before and after fix 9c1e869)

`_Visitor` (annotations.py:966‥1134) evaluates an annotation given as an AST (string annotations,
annotations under `from __future__ import annotations`, stub annotations). It is an
`ast.NodeVisitor` whose `generic_visit` **raises** `NotImplementedError` (annotations.py:970), so
visiting any node kind without a `visit_X` method aborts the whole check of the enclosing statement
with an `internal_error` (name_check_visitor.py:1380‥1388).

The model follows each `visit_X` as far as *which children it visits, in which order*:

* `visit_Name` :973, `visit_Constant` :1019 — leaves;
* `visit_Subscript` :976 — `value`, then `slice`;  `visit_Attribute` :989 — `value`;
* `visit_Tuple` / `visit_List` / `visit_Set` :993‥1003 — every element;
* `visit_Dict` :1005 — every key that is present (`**d` entries have none), then every value;
* `visit_BinOp` :1025 — both operands **only for `|`**, otherwise nothing;
* `visit_UnaryOp` :1033 — the operand **only for unary minus**;
* `visit_Call` :1043 — `func`; then, only if `func` evaluated to the runtime object `NewType`,
  `TypeVar`, `ParamSpec` (positional arguments, then keyword values) or `deprecated` (positional
  arguments, and only if there are no keywords); for every other callee no argument is visited.

What a `Name` / `Attribute` resolves to is an input (`Option Ctor`: one of the four constructors the
visitor treats specially, or anything else). Not modelled: the `Value`s built and the diagnostics shown
through `ctx.show_error`. Since fix 0e3888a *calling* `NewType(...)` / `TypeVar(...)` / `ParamSpec(...)`
with the evaluated arguments no longer raises (annotations.py:1081‥1085 catches and reports, :1095 /
:1127 reject a non-string name), so `generic_visit` is the only way `_Visitor.visit` raises and the
model's `raise` outcome is complete: the correspondence run compares *every* exception of the real
visitor with the model (an exception other than `NotImplementedError` is a disagreement).

The table of supported kinds is a parameter (`sup`); the driver instantiates it with the list
regenerated from the live class (`Generated/TotalTables.lean : visitorMethods`).
-/
namespace Pya.C12

/-- The callees `visit_Call` treats specially. -/
inductive Ctor
  | newType | typeVar | paramSpec | deprecated
  deriving DecidableEq, Repr, Inhabited

/-- Annotation expressions: one constructor per `visit_X` method, `other kind` for every other
`ast` expression kind (`Starred`, `Slice`, `Lambda`, `IfExp`, `Compare`, `BoolOp`, `JoinedStr`,
comprehensions, `NamedExpr`, `Await`, `Yield`, …; their children are never reached). -/
inductive AExpr where
  | name (c : Option Ctor)
  | const
  | attr (v : AExpr) (c : Option Ctor)
  | sub (v s : AExpr)
  | tuple (es : List AExpr)
  | list (es : List AExpr)
  | set (es : List AExpr)
  | dict (ks vs : List AExpr)
  | binop (bitor : Bool) (l r : AExpr)
  | unary (usub : Bool) (e : AExpr)
  | call (f : AExpr) (args kws : List AExpr)
  | other (kind : String)
  deriving Repr, Inhabited

/-- `type(node).__name__` -/
def AExpr.kind : AExpr → String
  | .name _ => "Name" | .const => "Constant" | .attr _ _ => "Attribute" | .sub _ _ => "Subscript"
  | .tuple _ => "Tuple" | .list _ => "List" | .set _ => "Set" | .dict _ _ => "Dict"
  | .binop _ _ _ => "BinOp" | .unary _ _ => "UnaryOp" | .call _ _ _ => "Call" | .other k => k

/-- Outcome of `_Visitor.visit(node)`: `raise k` = `NotImplementedError` from `generic_visit` on a
node of kind `k`; `ok c` = a value came back, `c` tells whether it is one of the special callees. -/
inductive Res
  | raise (kind : String)
  | ok (c : Option Ctor)
  deriving DecidableEq, Repr, Inhabited

mutual
/-- `_Visitor(ctx).visit(e)`; `sup k` = the class has a method `visit_<k>`. -/
def oldAnnVisit (sup : String → Bool) : AExpr → Res
  | .name c => if sup "Name" then .ok c else .raise "Name"
  | .const => if sup "Constant" then .ok none else .raise "Constant"
  | .attr v c =>
    if sup "Attribute" then
      match oldAnnVisit sup v with
      | .raise k => .raise k
      | .ok _ => .ok c
    else .raise "Attribute"
  | .sub v s =>
    if sup "Subscript" then
      match oldAnnVisit sup v with
      | .raise k => .raise k
      | .ok _ =>
        match oldAnnVisit sup s with
        | .raise k => .raise k
        | .ok _ => .ok none
    else .raise "Subscript"
  | .tuple es => if sup "Tuple" then (match oldAnnVisitL sup es with | some k => .raise k | none => .ok none) else .raise "Tuple"
  | .list es => if sup "List" then (match oldAnnVisitL sup es with | some k => .raise k | none => .ok none) else .raise "List"
  | .set es => if sup "Set" then (match oldAnnVisitL sup es with | some k => .raise k | none => .ok none) else .raise "Set"
  | .dict ks vs =>
    if sup "Dict" then
      match oldAnnVisitL sup ks with
      | some k => .raise k
      | none => (match oldAnnVisitL sup vs with | some k => .raise k | none => .ok none)
    else .raise "Dict"
  | .binop bitor l r =>
    if sup "BinOp" then
      if bitor then
        match oldAnnVisit sup l with
        | .raise k => .raise k
        | .ok _ => (match oldAnnVisit sup r with | .raise k => .raise k | .ok _ => .ok none)
      else .ok none
    else .raise "BinOp"
  | .unary usub e =>
    if sup "UnaryOp" then
      if usub then (match oldAnnVisit sup e with | .raise k => .raise k | .ok _ => .ok none) else .ok none
    else .raise "UnaryOp"
  | .call f args kws =>
    if sup "Call" then
      match oldAnnVisit sup f with
      | .raise k => .raise k
      | .ok none => .ok none
      | .ok (some .deprecated) =>
        if kws.isEmpty then (match oldAnnVisitL sup args with | some k => .raise k | none => .ok none) else .ok none
      | .ok (some _) =>
        match oldAnnVisitL sup args with
        | some k => .raise k
        | none => (match oldAnnVisitL sup kws with | some k => .raise k | none => .ok none)
    else .raise "Call"
  | .other k => if sup k then .ok none else .raise k
/-- visiting a list of nodes in order: the kind of the first node that raises -/
def oldAnnVisitL (sup : String → Bool) : List AExpr → Option String
  | [] => none
  | e :: es =>
    match oldAnnVisit sup e with
    | .raise k => some k
    | .ok _ => oldAnnVisitL sup es
end

/-! ## The visitor since fix 9c1e869

`generic_visit` no longer raises: it reports one `"Unsupported syntax in annotation: <Kind>"` error
through `ctx.show_error` and returns `AnyValue(error)` (annotations.py:984‥991); the children of such a
node are still never visited, but the visit of the *enclosing* nodes now continues. The model returns
the kinds reported, in order, and the callee class of the value. `oldAnnVisit` above is the visitor
before the fix, kept for the regression witnesses of Props/C12.lean. Not modelled: callees that are
`Annotated[]` metadata classes (`CustomCheck` / `annotated_types.BaseMetadata` subclasses, fix
1007ddd: their arguments are visited until the first one that is not a literal) — the
correspondence namespace contains none. -/

mutual
/-- `_Visitor(ctx).visit(e)`: (kinds reported as unsupported, in order; callee class of the result). -/
def annVisit (sup : String → Bool) : AExpr → List String × Option Ctor
  | .name c => if sup "Name" then ([], c) else (["Name"], none)
  | .const => if sup "Constant" then ([], none) else (["Constant"], none)
  | .attr v c =>
    if sup "Attribute" then
      let ev := (annVisit sup v).1
      (ev, if ev.isEmpty then c else none)
    else (["Attribute"], none)
  | .sub v s => if sup "Subscript" then ((annVisit sup v).1 ++ (annVisit sup s).1, none) else (["Subscript"], none)
  | .tuple es => if sup "Tuple" then (annVisitL sup es, none) else (["Tuple"], none)
  | .list es => if sup "List" then (annVisitL sup es, none) else (["List"], none)
  | .set es => if sup "Set" then (annVisitL sup es, none) else (["Set"], none)
  | .dict ks vs => if sup "Dict" then (annVisitL sup ks ++ annVisitL sup vs, none) else (["Dict"], none)
  | .binop bitor l r =>
    if sup "BinOp" then
      if bitor then ((annVisit sup l).1 ++ (annVisit sup r).1, none) else ([], none)
    else (["BinOp"], none)
  | .unary usub e =>
    if sup "UnaryOp" then (if usub then ((annVisit sup e).1, none) else ([], none)) else (["UnaryOp"], none)
  | .call f args kws =>
    if sup "Call" then
      match annVisit sup f with
      | (ef, none) => (ef, none)
      | (ef, some .deprecated) => if kws.isEmpty then (ef ++ annVisitL sup args, none) else (ef, none)
      | (ef, some _) => (ef ++ (annVisitL sup args ++ annVisitL sup kws), none)
    else (["Call"], none)
  | .other k => if sup k then ([], none) else ([k], none)
/-- visiting a list of nodes in order -/
def annVisitL (sup : String → Bool) : List AExpr → List String
  | [] => []
  | e :: es => (annVisit sup e).1 ++ annVisitL sup es
end

end Pya.C12
