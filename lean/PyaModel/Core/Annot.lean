import PyaModel.Core.Union
import PyaModel.Core.Sig
/-!
# Core/Annot — model of pyanalyze's three ways of reading a type annotation, and of the two ways
of deriving a function's parameters (C13)

Annotation expressions are syntax trees `AnnExpr`; the three routes evaluate them into `Ty`
(Core/Obj.lean):

* `astEval`  — the AST / string route: `annotations.py` `type_from_ast` → `_type_from_ast` :389 →
  `_Visitor` :966 (first pass: expression → `_SubscriptedValue` tree; **no `visit_Starred`**, so a
  starred member is reported by `generic_visit` :984 and read as `Any[error]`) → `_type_from_value` :677 →
  `_type_from_subscripted_value` :721 (second pass).  A string constant is a `KnownValue(str)` and is
  sent through `_type_from_runtime` :405 → `_eval_forward_ref` :663, i.e. parsed and evaluated by
  the same route.
* `rtEval`   — the runtime-object route: `_type_from_runtime` :402 → `_value_of_origin_args` :1141,
  applied to the object `typing` built (`Spec/AnnotSpec.lean : tnorm` models what `typing` does to
  the expression: `Optional[X]` → `Union[X, None]`, flattening / de-duplication of `Union`, `|`,
  `Literal`, merging of nested `Annotated`).  A `str` / `ForwardRef` argument is handed to the AST
  route (:405, :499).
* `visEval`  — an annotation in checked source: `name_check_visitor.py` `value_of_annotation` :2483
  visits the expression *as an expression* (`composite_from_subscript` :4919 really calls
  `__getitem__` / `__class_getitem__` on known operands, so the result is `KnownValue(<the runtime
  object>)`) and then `type_from_value` → `_type_from_value` :684 → `_type_from_runtime`.  A quoted
  annotation is a `KnownValue(str)` → AST route with the visitor resolving names.  A subscript tuple
  with a starred member is not a known value: `tuple.__class_getitem__` is then re-called with `Any`
  (:5020), giving `tuple[Any]`; `typing.Tuple.__getitem__` gives `Any`.

Every result carries the number of `ctx.show_error` calls (`errs`) and whether it is an
`UnpackedValue` (`unp`, only possible when `allow_unpack` = `au`); `none` = the route raises
(`NotImplementedError`).

Def headers: `fromDef` follows `functions.py` `compute_parameters` :220 (default alignment by list
concatenation + `zip_longest`, kinds, implicit `self`, `translate_vararg_type` :346) and
`fromInspect` follows `arg_spec.py` `from_signature` :396 / `_make_sig_parameter` :471 /
`_get_type_for_parameter` :521 over the `inspect.Signature` (`Spec/AnnotSpec.lean : inspectOf`).

Not modelled: Callable / TypedDict / Protocol / TypeVar / ParamSpec / TypeGuard / Required /
type aliases (search only); the *content* of `Annotated` metadata (only their number); `Any`
sources; `type[list[int]]` (a `SubclassValue` of a generic is not a `Ty`; excluded by `Supported`);
`Signature.make`'s expansion of `*args: Unpack[tuple[...]]`; decorators, async, classmethods.
-/
namespace Pya.C13

/-- The objects `Literal[...]` may hold: int, bool, str, bytes, None, enum members. -/
inductive LitObj where
  | int (n : Int) | bool (b : Bool) | str (s : String) | bytes (s : String) | none
  | enum (c : Cls) (i : Nat)
  deriving DecidableEq, Repr, Inhabited

def LitObj.toObj : LitObj → Obj
  | .int n => .int n | .bool b => .bool b | .str s => .str s | .bytes s => .bytes s | .none => .none
  | .enum c i => .inst c i

/-- What a name used in an annotation may be bound to (a module global or a builtin): a class of the
universe, a NewType, an unsubscripted `typing` alias, `Any`, or an object outside the value
universe (`opaque`, e.g. the builtin `TimeoutError`; only ever reached through a shadowed builtin). -/
inductive NameTarget where
  | cls (c : Cls) | newtype (n : Nat) (c : Cls) | bare (c : Cls) | anyT | opaque (k : Nat)
  | objv (k : Nat)      -- a module / class / instance that is only used to reach its attributes (`M.N`)
  deriving DecidableEq, Repr, Inhabited

/-- lookup: the object a name is bound to, `none` = undefined. Attribute lookup `getattr(obj k, a)` lives
in the same function under the key `attrKey k a` (names are below `attrBase`). -/
abbrev Lookup := Nat → Option NameTarget

def attrBase : Nat := 1000000
/-- the key of attribute `a` of container object `k` -/
def attrKey (k a : Nat) : Nat := attrBase + k * 1000 + a

/-- Annotation expression syntax. `old` = the `typing` alias spelling (`List[int]`, `Tuple[...]`,
`Type[...]`), otherwise the builtin / `collections.abc` class is subscripted. -/
inductive AnnExpr where
  | cls (c : Cls)                                   -- a class name of the universe: `int`, `list`, `A`
  | none                                            -- `None`
  | anyT                                            -- `Any`
  | newtype (n : Nat) (c : Cls)                     -- a name bound to `NewType(..., c)`
  | bare (c : Cls)                                  -- `typing.List`, `typing.Tuple`, `typing.Type` … unsubscripted
  | gen (old : Bool) (c : Cls) (args : List AnnExpr) -- `List[a]`, `dict[k, v]`, `Sequence[a]`
  | tup (old : Bool) (ms : List AnnExpr)            -- `tuple[m₁, …, mₙ]`, n ≥ 1; members may be `unpack` / `star`
  | tupE (old : Bool)                               -- `tuple[()]`
  | tupV (old : Bool) (e : AnnExpr)                 -- `tuple[e, ...]`
  | unpack (e : AnnExpr)                            -- `Unpack[e]`
  | star (e : AnnExpr)                              -- `*e`
  | lit (os : List LitObj)                          -- `Literal[o₁, …]`
  | typ (old : Bool) (e : AnnExpr)                  -- `type[e]` / `Type[e]`
  | ann (e : AnnExpr) (k : Nat)                     -- `Annotated[e, m₁, …, mₖ]`
  | final (e : AnnExpr)                             -- `Final[e]`
  | classVar (e : AnnExpr)                          -- `ClassVar[e]`
  | opt (e : AnnExpr)                               -- `Optional[e]`
  | union (es : List AnnExpr)                       -- `Union[e₁, …]`
  | bor (a b : AnnExpr)                             -- `a | b`
  | str (e : AnnExpr)                               -- `'e'` (a string / forward reference)
  | name (n : Nat)                                  -- a name looked up in an environment (`Lookup`)
  | dotted (n : Nat) (path : List Nat)              -- `N.a₁.….aₖ`: a name and a chain of attributes
  deriving Repr, Inhabited

/-- The outcome of evaluating an annotation: the value, the number of errors shown, and whether the
value is wrapped in `UnpackedValue`. -/
structure Res where
  ty : Ty
  errs : Nat
  unp : Bool
  deriving Repr, Inhabited

def ok (t : Ty) : Option Res := some ⟨t, 0, false⟩
/-- `ctx.show_error(...); return AnyValue(AnySource.error)` -/
def errAny : Option Res := some ⟨.any, 1, false⟩

/-- `_type_from_runtime` on a class object (:471 → `_maybe_typed_value` :1279). -/
def rtCls (c : Cls) : Ty := if c == C.none then .known .none else .typed c

/-- `_type_from_runtime` on an unsubscripted `typing` alias: `get_origin` is the class and
`get_args` is `()`, so `_value_of_origin_args` :1150‥1192 runs with no arguments — `typing.Type` →
`TypedValue(type)`, **`typing.Tuple` → `SequenceValue(tuple, [])`** (:1155), others → the class. -/
def rtBare (c : Cls) : Ty := if c == C.tuple then .seq C.tuple [] else rtCls c

/-- `_type_from_runtime` on the object a name is bound to -/
def NameTarget.ty : NameTarget → Ty
  | .cls c => rtCls c
  | .newtype n c => .newtype n c
  | .bare c => rtBare c
  | .anyT => .any
  | .opaque k => rtCls (1000 + k)
  | .objv k => rtCls (2000 + k)      -- a module as an annotation: unsupported (the code reports an invalid annotation)

/-- `UnpackedValue.get_elements` (value.py:2663) followed by the fallback of
`_make_sequence_value` :1294 (`elements is None` → one error, `[(True, Any)]`). -/
def unpackElems : Ty → List Ty × Nat
  | .seq c ms => if c == C.tuple then (ms, 0) else ([.many .any], 1)
  | .generic c (a :: _) => if c == C.tuple then ([.many a], 0) else ([.many .any], 1)
  | .typed c => if c == C.tuple then ([.many .any], 0) else ([.many .any], 1)
  | _ => ([.many .any], 1)

/-- `_make_sequence_value(tuple, members)` :1289. -/
def seqMembers : List Res → List Ty × Nat
  | [] => ([], 0)
  | r :: rs =>
    let (ms, n) := seqMembers rs
    if r.unp then
      let (es, k) := unpackElems r.ty
      (es ++ ms, r.errs + k + n)
    else (r.ty :: ms, r.errs + n)

/-- `SubclassValue.make` (value.py:1929) on a non-union value. A `SubclassValue` of a
`GenericValue` / `SequenceValue` / `NewTypeValue` is not a `Ty`; those clauses drop the extra
structure and are excluded by `Supported`. -/
def mkSub1 : Ty → Ty
  | .any => .typed C.type
  | .typed c => .subclass c
  | .generic c _ => .subclass c
  | .seq c _ => .subclass c
  | .newtype _ c => .subclass c
  | _ => .any

def mkSub : Ty → Ty
  | .union ts => unite (ts.map mkSub1)
  | t => mkSub1 t

/-- `annotate_value(origin, metadata)` (value.py:2810): no metadata → `origin`. -/
def annotateK (k : Nat) (t : Ty) : Ty := if k == 0 then t else annotate t

/-- `visit_Attribute` :989 → `ctx.get_attribute` :183 hop by hop: `getattr` on the object reached so far. -/
def chain (look : Lookup) : NameTarget → List Nat → Option NameTarget
  | t, [] => some t
  | .objv k, a :: p =>
    match look (attrKey k a) with
    | some t => chain look t p
    | none => none
  | _, _ :: _ => none

/-- a dotted name: the root by name lookup, then the attribute chain; `none` = one error (an undefined
root, or the first missing attribute — after it `get_attribute` passes `Any[error]` on silently) -/
def resolveDotted (look : Lookup) (n : Nat) (p : List Nat) : Option NameTarget :=
  match look n with
  | some t => chain look t p
  | none => none

mutual
/-- Does the expression contain a starred member outside string constants? (`_Visitor`'s first
pass reaches it and raises.) -/
def AnnExpr.starU : AnnExpr → Bool
  | .star _ => true
  | .gen _ _ args => AnnExpr.starUL args
  | .tup _ ms => AnnExpr.starUL ms
  | .tupV _ e => e.starU
  | .unpack e => e.starU
  | .typ _ e => e.starU
  | .ann e _ => e.starU
  | .final e => e.starU
  | .classVar e => e.starU
  | .opt e => e.starU
  | .union es => AnnExpr.starUL es
  | .bor a b => a.starU || b.starU
  | _ => false
def AnnExpr.starUL : List AnnExpr → Bool
  | [] => false
  | e :: es => e.starU || AnnExpr.starUL es
end

mutual
/-- the number of starred members `_Visitor`'s first pass meets (outside string constants; it does not look
into a starred member): each is reported once by `generic_visit` :984 -/
def AnnExpr.starCount : AnnExpr → Nat
  | .star _ => 1
  | .gen _ _ args => AnnExpr.starCountL args
  | .tup _ ms => AnnExpr.starCountL ms
  | .tupV _ e => e.starCount
  | .unpack e => e.starCount
  | .typ _ e => e.starCount
  | .ann e _ => e.starCount
  | .final e => e.starCount
  | .classVar e => e.starCount
  | .opt e => e.starCount
  | .union es => AnnExpr.starCountL es
  | .bor a b => a.starCount + b.starCount
  | _ => 0
def AnnExpr.starCountL : List AnnExpr → Nat
  | [] => 0
  | e :: es => e.starCount + AnnExpr.starCountL es
end

/-! ## The AST / string route -/
mutual
/-- `_type_from_ast(node, ctx, allow_unpack=au)`. -/
def astEval (look : Lookup) (au : Bool) : AnnExpr → Option Res
  | .cls c => ok (rtCls c)                     -- visit_Name → KnownValue(cls) → _type_from_runtime
  | .none => ok (.known .none)                  -- visit_Constant → KnownValue(None) → :473
  | .anyT => ok .any
  | .newtype n c => ok (.newtype n c)
  | .bare c => ok (rtBare c)
  | .gen _ c args =>                            -- :864 `isinstance(root, type)` / :867 `get_origin(root)`
    (astEvalL look args).map fun (ts, n) => ⟨.generic c ts, n, false⟩
  | .tup _ ms =>                                -- :775 `_is_tuple(root)`, last branch
    (astEvalM look ms).map fun rs => ⟨.seq C.tuple (seqMembers rs).1, (seqMembers rs).2, false⟩
  | .tupE _ => ok (.seq C.tuple [])             -- members = () → `_make_sequence_value(tuple, [])`
  | .tupV _ e =>                                -- :776 members[1] == KnownValue(Ellipsis)
    (astEval look false e).map fun r => ⟨.generic C.tuple [r.ty], r.errs, false⟩
  | .unpack e =>                                -- :844
    if au then (astEval look false e).map fun r => ⟨r.ty, r.errs, true⟩
    else some ⟨.any, 1 + e.starCount, false⟩     -- the second pass stops here; the first pass has reported the starred members
  | .star _ => errAny                           -- `_Visitor.generic_visit` :984: "Unsupported syntax in annotation: Starred", Any[error]
  | .lit os => ok (unite (os.map fun o => .known o.toObj))   -- :769 all members are KnownValue
  | .typ _ e =>                                 -- :791
    (astEval look false e).map fun r => ⟨mkSub r.ty, r.errs, false⟩
  | .ann e k =>                                 -- :797 `_make_annotated(_type_from_value(origin, ctx), …)`
    (astEval look false e).map fun r => ⟨annotateK k r.ty, r.errs, false⟩
  | .final e =>                                 -- :814 `return _type_from_value(members[0], ctx)`
    (astEval look false e).map fun r => ⟨r.ty, r.errs, false⟩
  | .classVar e =>                              -- :820
    (astEval look false e).map fun r => ⟨r.ty, r.errs, false⟩
  | .opt e =>                                   -- :786 `unite_values(KnownValue(None), …)`
    (astEval look false e).map fun r => ⟨unite [.known .none, r.ty], r.errs, false⟩
  | .union es =>                                -- :767
    (astEvalL look es).map fun (ts, n) => ⟨unite ts, n, false⟩
  | .bor a b =>                                 -- visit_BinOp :1025 → `_SubscriptedValue(KnownValue(Union), (l, r))`
    match astEval look false a, astEval look false b with
    | some ra, some rb => some ⟨unite [ra.ty, rb.ty], ra.errs + rb.errs, false⟩
    | _, _ => none
  | .str e => astEval look au e                 -- :405 → `_eval_forward_ref` → `_type_from_ast`
  | .name n =>                                  -- visit_Name :973 → `ctx.get_name(node)`
    match look n with
    | some t => ok t.ty
    | none => errAny                            -- "Undefined name … used in annotation", Any[error]
  | .dotted n p =>                              -- visit_Attribute :989 → `ctx.get_attribute` :183
    match resolveDotted look n p with
    | some t => ok t.ty
    | none => errAny
/-- arguments evaluated with `_type_from_value(member, ctx)` (no `allow_unpack`) -/
def astEvalL (look : Lookup) : List AnnExpr → Option (List Ty × Nat)
  | [] => some ([], 0)
  | e :: es =>
    match astEval look false e, astEvalL look es with
    | some r, some (ts, n) => some (r.ty :: ts, r.errs + n)
    | _, _ => none
/-- tuple members: `_type_from_value(arg, ctx, allow_unpack=True)` :783 -/
def astEvalM (look : Lookup) : List AnnExpr → Option (List Res)
  | [] => some []
  | e :: es =>
    match astEval look true e, astEvalM look es with
    | some r, some rs => some (r :: rs)
    | _, _ => none
end

/-! ## The runtime-object route (on the object `typing` built: apply to `tnorm e`) -/
mutual
/-- `_type_from_runtime(val, ctx, allow_unpack=au)`. -/
def rtEval (look : Lookup) (au : Bool) : AnnExpr → Option Res
  | .cls c => ok (rtCls c)
  | .none => ok (.known .none)
  | .anyT => ok .any
  | .newtype n c => ok (.newtype n c)
  | .bare c => ok (rtBare c)
  | .gen _ c args =>                            -- :1186 `isinstance(origin, type)`
    (rtEvalL look args).map fun (ts, n) => ⟨.generic c ts, n, false⟩
  | .tup _ ms =>                                -- :1162
    (rtEvalM look ms).map fun rs => ⟨.seq C.tuple (seqMembers rs).1, (seqMembers rs).2, false⟩
  | .tupE _ => ok (.seq C.tuple [])             -- :1155 `not args`
  | .tupV _ e =>                                -- :1157
    (rtEval look false e).map fun r => ⟨.generic C.tuple [r.ty], r.errs, false⟩
  | .unpack e =>                                -- :1253
    if au then (rtEval look false e).map fun r => ⟨r.ty, r.errs, true⟩ else errAny
  | .star e =>                                  -- `*tuple[...]` is a GenericAlias whose origin is `tuple`:
    (rtEval look false e).map fun r => ⟨r.ty, r.errs, false⟩  --   read as a plain (nested) tuple, `__unpacked__` ignored
  | .lit os =>                                  -- :1193
    match os with
    | [o] => ok (.known o.toObj)
    | os => ok (unite (os.map fun o => .known o.toObj))
  | .typ _ e =>                                 -- :1150
    (rtEval look false e).map fun r => ⟨mkSub r.ty, r.errs, false⟩
  | .ann e k =>                                 -- :1177 (passes `allow_unpack` down; an unpacked origin is unsupported)
    (rtEval look au e).map fun r => ⟨annotateK k r.ty, r.errs, false⟩
  | .final e => (rtEval look false e).map fun r => ⟨r.ty, r.errs, false⟩     -- :1212
  | .classVar e => (rtEval look false e).map fun r => ⟨r.ty, r.errs, false⟩  -- :1218
  | .opt e =>                                   -- not a runtime object (`tnorm` removes it); read as Union[e, None]
    (rtEval look false e).map fun r => ⟨unite [r.ty, .known .none], r.errs, false⟩
  | .union es =>                                -- :1166 `is_union(origin)`
    (rtEvalL look es).map fun (ts, n) => ⟨unite ts, n, false⟩
  | .bor a b =>                                 -- not a runtime object; read as Union[a, b]
    match rtEval look false a, rtEval look false b with
    | some ra, some rb => some ⟨unite [ra.ty, rb.ty], ra.errs + rb.errs, false⟩
    | _, _ => none
  | .str e => astEval look au e                 -- :405 str, :499 ForwardRef → `_eval_forward_ref`
  | .name n =>                                  -- not a runtime object (Python has resolved it); read like the AST route
    match look n with
    | some t => ok t.ty
    | none => errAny
  | .dotted n p =>
    match resolveDotted look n p with
    | some t => ok t.ty
    | none => errAny
def rtEvalL (look : Lookup) : List AnnExpr → Option (List Ty × Nat)
  | [] => some ([], 0)
  | e :: es =>
    match rtEval look false e, rtEvalL look es with
    | some r, some (ts, n) => some (r.ty :: ts, r.errs + n)
    | _, _ => none
def rtEvalM (look : Lookup) : List AnnExpr → Option (List Res)
  | [] => some []
  | e :: es =>
    match rtEval look true e, rtEvalM look es with
    | some r, some rs => some (r :: rs)
    | _, _ => none
end

/-! ## Name resolution

Three pieces of code look a name of an annotation up:

* an annotation in checked source (quoted or not): `_DefaultContext.get_name` :910 with a visitor →
  `NameCheckVisitor.resolve_name` (name_check_visitor.py:1663) → `StackedScopes.get_with_scope`,
  which walks the scope stack from the innermost scope outwards — for a def at module level or
  nested in a function that binds none of the names: the module scope, then the builtins scope;
* a string annotation of a function object (`arg_spec.py:188 AnnotationsContext.get_name`,
  `RuntimeEvaluator.get_name`): `Context.get_name_from_globals` :176 — `name in globals`, `elif
  hasattr(builtins, name)`, else `handle_undefined_name`;
* `type_from_ast` / `type_from_runtime` called with `globals=`: `_DefaultContext.get_name` :918 —
  the same three steps written out again.

Function-local names used in annotations are not modelled. -/

def NameTarget.toAnn : NameTarget → AnnExpr
  | .cls c => .cls c
  | .newtype n c => .newtype n c
  | .bare c => .bare c
  | .anyT => .anyT
  | .opaque k => .cls (1000 + k)
  | .objv k => .cls (2000 + k)

abbrev Bindings := List (Nat × NameTarget)

def Bindings.get (b : Bindings) (n : Nat) : Option NameTarget := (b.find? (·.1 == n)).map (·.2)
def Bindings.has (b : Bindings) (n : Nat) : Bool := b.any (·.1 == n)

/-- the names a module binds before the `def` statement is executed (`early`), the names it binds
when it has been executed completely (`late`, what `f.__globals__` and the visitor's module scope
hold), and the builtins -/
structure NameEnv where
  early : Bindings
  late : Bindings
  builtins : Bindings
  /-- what `getattr(object k, a)` gives, under the key `attrKey k a` — by whatever mechanism Python has for
  it: a `__dict__` entry, a submodule, a module-level `__getattr__`, a metaclass `__getattr__`, a property, the
  MRO, an instance attribute -/
  attrs : Bindings := []
  deriving Repr, Inhabited

/-- **The one attribute lookup of every route** (`Context.get_attribute` annotations.py:183 — shared by the
visitor-backed context, `AnnotationsContext` and `RuntimeEvaluator` — is `getattr`; CPython evaluating
`M.N` is `getattr`): name keys go to the route's name lookup, attribute keys to the environment's table. -/
def withAttrs (attrs : Bindings) (f : Lookup) : Lookup := fun n =>
  if n < attrBase then f n else attrs.get n

/-- `StackedScopes.get_with_scope`: the innermost scope that binds the name -/
def scopeLookup : List Bindings → Lookup
  | [], _ => none
  | s :: rest, n => if s.has n then s.get n else scopeLookup rest n

/-- `NameCheckVisitor.resolve_name` for an annotation of a module-level / nested def -/
def visLookup (env : NameEnv) : Lookup := withAttrs env.attrs (scopeLookup [env.late, env.builtins])

/-- `Context.get_name_from_globals` (annotations.py:176) with `globals = f.__globals__` -/
def globalsLookup (env : NameEnv) : Lookup := withAttrs env.attrs fun n =>
  if env.late.has n then env.late.get n
  else if env.builtins.has n then env.builtins.get n
  else none

/-- `_DefaultContext.get_name` (annotations.py:918) without a visitor, `globals = f.__globals__` -/
def defaultLookup (env : NameEnv) : Lookup := withAttrs env.attrs fun n =>
  if env.late.has n then env.late.get n
  else if env.builtins.has n then env.builtins.get n
  else none

mutual
/-- evaluating the annotation *as an expression* replaces every name outside string constants by
the object it is bound to (a name `look` does not bind stays: an undefined name) -/
def resolveV (look : Lookup) : AnnExpr → AnnExpr
  | .name n => match look n with | some t => t.toAnn | none => .name n
  | .dotted n p => match resolveDotted look n p with | some t => t.toAnn | none => .dotted n p
  | .gen o c args => .gen o c (resolveVL look args)
  | .tup o ms => .tup o (resolveVL look ms)
  | .tupV o e => .tupV o (resolveV look e)
  | .unpack e => .unpack (resolveV look e)
  | .star e => .star (resolveV look e)
  | .typ o e => .typ o (resolveV look e)
  | .ann e k => .ann (resolveV look e) k
  | .final e => .final (resolveV look e)
  | .classVar e => .classVar (resolveV look e)
  | .opt e => .opt (resolveV look e)
  | .union es => .union (resolveVL look es)
  | .bor a b => .bor (resolveV look a) (resolveV look b)
  | e => e
def resolveVL (look : Lookup) : List AnnExpr → List AnnExpr
  | [] => []
  | e :: es => resolveV look e :: resolveVL look es
end

def AnnExpr.isStar : AnnExpr → Bool
  | .star _ => true
  | _ => false

mutual
/-- What evaluating the annotation *as an expression* in `NameCheckVisitor` amounts to when a
subscript tuple has a starred member: the index is not a `KnownValue`, `tuple.__class_getitem__`
is re-called with `Any` (name_check_visitor.py:5020) → `tuple[Any]`; `typing.Tuple[...]` → `Any`.
Without a starred member this is the identity. String constants are not looked into. -/
def squash : AnnExpr → AnnExpr
  | .gen o c args => .gen o c (squashL args)
  | .tup o ms =>
    if (squashL ms).any AnnExpr.isStar then (if o then .anyT else .tup false [.anyT])
    else .tup o (squashL ms)
  | .tupV o e => .tupV o (squash e)
  | .unpack e => .unpack (squash e)
  | .star e => .star (squash e)
  | .typ o e => .typ o (squash e)
  | .ann e k => .ann (squash e) k
  | .final e => .final (squash e)
  | .classVar e => .classVar (squash e)
  | .opt e => .opt (squash e)
  | .union es => .union (squashL es)
  | .bor a b => .bor (squash a) (squash b)
  | e => e
def squashL : List AnnExpr → List AnnExpr
  | [] => []
  | e :: es => squash e :: squashL es
end

/-! ## Def headers -/

/-- a default value expression: a literal constant or `...` -/
inductive Dflt where
  | lit (o : Obj)
  | ellipsis
  deriving Repr, Inhabited

/-- the `default` of a `SigParameter` -/
inductive DVal where
  | known (o : Obj)        -- `KnownValue(o)`
  | anyUnannotated         -- `_visit_default` turns `...` into `AnyValue(unannotated)` (functions.py:215)
  | knownEllipsis          -- `KnownValue(Ellipsis)` (inspect route)
  deriving Repr, Inhabited

structure PArg where
  name : String
  ann : Option AnnExpr
  deriving Repr, Inhabited

/-- what kind of function the `def` statement makes: `def`, `async def` without `yield` (a coroutine
function), `async def` with `yield` (an async generator), `def` with `yield` (a generator) -/
inductive FnKind where
  | plain | coro | asyncGen | gen
  deriving DecidableEq, Repr, Inhabited

/-- class id standing for `collections.abc.Coroutine` (outside the shared class table; the harness
registers it under this id) -/
def coroCls : Cls := 900

/-- `make_coro_type` (value.py:3396) -/
def coroTy (t : Ty) : Ty := .generic coroCls [.any, .any, t]

def wrapRet (isCoro : Bool) (t : Ty) : Ty := if isCoro then coroTy t else t

/-- `ast.arguments` + `returns` of a `def`, the class it is a plain method of (if any), and whether
the module has `from __future__ import annotations`. -/
structure DefArgs where
  kind : FnKind := .plain
  posonly : List PArg
  args : List PArg
  vararg : Option PArg
  kwonly : List PArg
  kwDefaults : List (Option Dflt)
  kwarg : Option PArg
  defaults : List Dflt
  returns : Option AnnExpr
  methodOf : Option Cls
  future : Bool
  deriving Repr, Inhabited

structure SigParam where
  name : String
  kind : Kind
  dflt : Option DVal
  ann : Ty
  errs : Nat
  deriving Repr, Inhabited

def allowUnpackK : Kind → Bool
  | .varPos => true
  | .varKw => true
  | _ => false

/-- `translate_vararg_type` (functions.py:346). The `UnpackedValue` clauses are simplified:
`Signature.make` afterwards rewrites such a `*args` into positional-only parameters, which is not
modelled (headers with `Unpack` on `*args` / `**kwargs` are outside `DefArgs.Supported`). -/
def translateVararg (k : Kind) (r : Res) : Ty :=
  match k with
  | .varPos => if r.unp then r.ty else .generic C.tuple [r.ty]
  | .varKw => if r.unp then r.ty else .generic C.dict [.typed C.str, r.ty]
  | _ => r.ty

def visitDefault : Dflt → DVal
  | .lit o => .known o
  | .ellipsis => .anyUnannotated

def DVal.ty : DVal → Ty
  | .known o => .known o
  | _ => .any

/-- `itertools.zip_longest` -/
def zipLongest {α β : Type} : List α → List β → List (Option α × Option β)
  | [], bs => bs.map fun b => (none, some b)
  | a :: as, [] => (some a, none) :: zipLongest as []
  | a :: as, b :: bs => (some a, some b) :: zipLongest as bs

/-- the `args` list of `compute_parameters` (functions.py:245‥252) -/
def DefArgs.kinded (d : DefArgs) : List (Kind × PArg) :=
  d.posonly.map (fun a => (Kind.posOnly, a)) ++ d.args.map (fun a => (Kind.posOrKw, a)) ++
  (match d.vararg with | some a => [(Kind.varPos, a)] | none => []) ++
  d.kwonly.map (fun a => (Kind.kwOnly, a)) ++
  (match d.kwarg with | some a => [(Kind.varKw, a)] | none => [])

/-- the `defaults` list of `compute_parameters` (functions.py:230‥244) -/
def DefArgs.alignedDefaults (d : DefArgs) : List (Option DVal) :=
  List.replicate (d.args.length + d.posonly.length - d.defaults.length) none ++
  d.defaults.map (fun x => some (visitDefault x)) ++
  (match d.vararg with | some _ => [none] | none => []) ++
  d.kwDefaults.map (fun x => x.map visitDefault)

/-- `is_positional_only_arg_name` (analysis_lib.py:130) for a function that is not a method of a
class whose name prefixes the parameter name. -/
def isDunderName (s : String) : Bool :=
  s.toList.take 2 == ['_', '_'] && !(s.toList.reverse.take 2 == ['_', '_'])

/-- One iteration of the loop of `compute_parameters` (functions.py:257‥342); `eval` is the
evaluation of an annotation in checked source (`ctx.value_of_annotation`). -/
def defParam (eval : Bool → AnnExpr → Option Res) (methodOf : Option Cls) (idx : Nat)
    (kind : Kind) (arg : PArg) (dflt : Option DVal) : Option SigParam :=
  match arg.ann with
  | some a =>
    (eval (allowUnpackK kind) a).map fun r => ⟨arg.name, kind, dflt, translateVararg kind r, r.errs⟩
  | none =>
    match idx, methodOf with
    | 0, some c => some ⟨arg.name, kind, dflt, translateVararg kind ⟨.typed c, 0, false⟩, 0⟩
    | _, _ =>
      let v : Ty := match dflt with
        | some dv => unite [.any, dv.ty]      -- `unite_values(AnyValue(unannotated), default)` :305
        | none => .any
      some ⟨arg.name, kind, dflt, translateVararg kind ⟨v, 0, false⟩, 0⟩

/-- the loop of `compute_parameters` (functions.py:257‥353). A positional-or-keyword parameter
named `__x` becomes positional-only **and so does every parameter before it** (:341‥349, the
PEP 484 rule, as in `from_signature`); the annotation has been read with the original kind. -/
def defLoop (eval : Bool → AnnExpr → Option Res) (methodOf : Option Cls) :
    Nat → List SigParam → List (Option (Kind × PArg) × Option (Option DVal)) → Option (List SigParam)
  | _, acc, [] => some acc
  | _, _, (none, _) :: _ => none              -- `assert param is not None` :258
  | idx, acc, (some (k, a), d) :: rest =>
    match defParam eval methodOf idx k a (d.getD none) with
    | none => none
    | some p =>
      if k == .posOrKw && isDunderName a.name then
        defLoop eval methodOf (idx + 1)
          (acc.map (fun q => { q with kind := .posOnly }) ++ [{ p with kind := .posOnly }]) rest
      else defLoop eval methodOf (idx + 1) (acc ++ [p]) rest

structure SigOut where
  params : List SigParam
  ret : Ty
  hasRet : Bool
  retErrs : Nat
  deriving Repr, Inhabited

/-- `compute_parameters` + the return annotation (name_check_visitor.py:1932‥1943) +
`compute_value_of_function` :418, with `eval` = the in-source reading of an annotation.
`none` = an exception escaped (reported as `internal_error`; the function's value is `Any`). -/
def fromDefWith (eval : Bool → AnnExpr → Option Res) (d : DefArgs) : Option SigOut :=
  match defLoop eval d.methodOf 0 [] (zipLongest d.kinded d.alignedDefaults) with
  | none => none
  | some ps =>
    -- `compute_value_of_function` :418: the annotation (or Any[unannotated]); an `async def` whose body has no
    -- `yield` (IsGeneratorVisitor :388) is wrapped in Coroutine[Any, Any, …]
    match d.returns with
    | none => some ⟨ps, wrapRet (d.kind == .coro) .any, false, 0⟩
    | some a => (eval false a).map fun r => ⟨ps, wrapRet (d.kind == .coro) r.ty, true, r.errs⟩

/-- the parameter as `inspect.signature` reports it -/
structure IParam where
  name : String
  kind : Kind
  dflt : Option Dflt
  ann : Option AnnExpr        -- the annotation *object* (already `tnorm`-ed; a string under `future`)
  deriving Repr, Inhabited

structure ISig where
  params : List IParam
  returns : Option AnnExpr
  methodOf : Option Cls
  /-- `asyncio.iscoroutinefunction(f)` (arg_spec.py:840) -/
  isAsync : Bool := false
  deriving Repr, Inhabited

/-- `_get_type_for_parameter` (arg_spec.py:521) + the rest of `_make_sig_parameter` :471 (without
the ParamSpec clauses); the kind is fixed up by `fromInspect`. -/
def inspParam (look : Lookup) (methodOf : Option Cls) (idx : Nat) (p : IParam) : Option SigParam :=
  let dflt : Option DVal := p.dflt.map fun
    | .lit o => .known o
    | .ellipsis => .knownEllipsis
  match p.ann with
  | some a =>
    (rtEval look (allowUnpackK p.kind) a).map fun r => ⟨p.name, p.kind, dflt, translateVararg p.kind r, r.errs⟩
  | none =>
    match idx, methodOf, p.kind with
    | 0, some c, .posOnly => some ⟨p.name, p.kind, dflt, .typed c, 0⟩
    | 0, some c, .posOrKw => some ⟨p.name, p.kind, dflt, .typed c, 0⟩
    | _, _, _ => some ⟨p.name, p.kind, dflt, .any, 0⟩      -- :574 (no `translate_vararg_type` here)

/-- the loop of `from_signature` (arg_spec.py:440‥458): a positional-or-keyword parameter named
`__x` becomes positional-only **and so does every parameter before it**. -/
def inspLoop (look : Lookup) (methodOf : Option Cls) : Nat → List SigParam → List IParam → Option (List SigParam)
  | _, acc, [] => some acc
  | idx, acc, p :: ps =>
    match inspParam look methodOf idx p with
    | none => none
    | some sp =>
      if p.kind == .posOrKw && isDunderName p.name then
        inspLoop look methodOf (idx + 1) (acc.map (fun q => { q with kind := .posOnly }) ++ [{ sp with kind := .posOnly }]) ps
      else inspLoop look methodOf (idx + 1) (acc ++ [sp]) ps

def fromInspect (look : Lookup) (s : ISig) : Option SigOut :=
  match inspLoop look s.methodOf 0 [] s.params with
  | none => none
  | some ps =>
    -- `from_signature` :424‥436: no annotation → Any[unannotated], else the annotation object read by the
    -- runtime route; then, **in either case**, `if is_async: returns = make_coro_type(returns)`
    match s.returns with
    | none => some ⟨ps, wrapRet s.isAsync .any, false, 0⟩
    | some a => (rtEval look false a).map fun r => ⟨ps, wrapRet s.isAsync r.ty, true, r.errs⟩

end Pya.C13
