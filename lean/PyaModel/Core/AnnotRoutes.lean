import PyaModel.Spec.AnnotSpec
/-!
# Core/AnnotRoutes — the in-source route and the two signature routes assembled (C13)

`visEval` needs `typing`'s normalisation (`Spec/AnnotSpec.lean : tnorm`): the visitor evaluates the
annotation as an expression, i.e. really builds the `typing` object, and reads that object with the
runtime route; a quoted annotation is a string constant and goes to the AST route
(name_check_visitor.py:2483 `value_of_annotation` → annotations.py:684 `_type_from_value` on a
`KnownValue`).
-/
namespace Pya.C13

/-- an annotation in checked source, names resolved by the visitor (`resolve_name`): a quoted
annotation is parsed and read by the AST route; an unquoted one is evaluated as an expression —
names become the objects they are bound to, subscripts really build the `typing` object — and the
object is read by the runtime route, nested strings again by the AST route. -/
def visEval (env : NameEnv) (au : Bool) : AnnExpr → Option Res
  | .str x => astEval (visLookup env) au x
  | e => rtEval (visLookup env) au (tnorm (squash (resolveV (visLookup env) e)))

/-- the signature pyanalyze derives from the `def` statement -/
def fromDef (env : NameEnv) (d : DefArgs) : Option SigOut := fromDefWith (visEval env) d

/-- the signature pyanalyze derives from the function object: the annotation objects `inspect`
reports, string annotations resolved through `f.__globals__` (`AnnotationsContext`) -/
def fromRuntime (env : NameEnv) (d : DefArgs) : Option SigOut :=
  fromInspect (globalsLookup env) (inspectOf env d)

/-- the signature as the shared binder model (Core/Sig.lean, `Signature.bind_arguments`, verified
against CPython in C05) consumes it: names, kinds, default presence -/
def toBindSig (s : SigOut) : List Param := s.params.map fun p => ⟨p.name, p.kind, p.dflt.isSome⟩

/-- the verdict of `bind_arguments` on a call (`none` = `incompatible_call`) and the declared types
the bound arguments are then checked against -/
def callView (s : SigOut) (args : List Arg) : Option (List (String × Pos)) × List Ty × Ty :=
  (pyaCall (toBindSig s) args, s.params.map (·.ann), s.ret)

end Pya.C13
