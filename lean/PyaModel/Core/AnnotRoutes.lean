import PyaModel.Spec.AnnotSpec
/-!
# Core/AnnotRoutes — the in-source route and the two signature routes assembled (C13)

`visEval` needs `typing`'s normalisation (`Spec/AnnotSpec.lean : tnorm`): the visitor evaluates the
annotation as an expression, i.e. really builds the `typing` object, and reads that object with the
runtime route; a quoted annotation is a string constant and goes to the AST route
(name_check_visitor.py:2483 `value_of_annotation` → annotations.py:684 `_type_from_value` on a
`KnownValue`).
-/
namespace Pya.C13

/-- an annotation in checked source, names resolved by the visitor (`resolve_name`): a quoted
annotation is parsed and read by the AST route; an unquoted one is evaluated as an expression —
names become the objects they are bound to, subscripts really build the `typing` object — and the
object is read by the runtime route, nested strings again by the AST route. -/
def visEval (env : NameEnv) (au : Bool) : AnnExpr → Option Res
  | .str x => astEval (visLookup env) au x
  | e => rtEval (visLookup env) au (tnorm (squash (resolveV (visLookup env) e)))

/-- the signature pyanalyze derives from the `def` statement -/
def fromDef (env : NameEnv) (d : DefArgs) : Option SigOut := fromDefWith (visEval env) d

/-- the signature pyanalyze derives from the function object: the annotation objects `inspect`
reports, string annotations resolved through `f.__globals__` (`AnnotationsContext`) -/
def fromRuntime (env : NameEnv) (d : DefArgs) : Option SigOut :=
  fromInspect (globalsLookup env) (inspectOf env d)

/-! ## Checker-level state

One `Checker` serves every module of a run. The only state of the signature route that outlives a
function is `ArgSpecCache.known_argspecs` (arg_spec.py:382; read :607, written :621), a dict keyed by
the **function object**; `generic_bases_cache` is keyed by the class. (The set of such caches and
their key expressions is regenerated from the source on every run, `Generated/ArgSpecCaches.lean`,
and pinned by `Props/C13.lean : argspec_caches_registered`.) -/

/-- identity of a function object: (module, function) -/
abbrev FnId := Nat × Nat

structure CheckerSt where
  /-- `ArgSpecCache.known_argspecs` -/
  known : List (FnId × Option SigOut)
  deriving Inhabited

/-- `ArgSpecCache._cached_get_argspec` (arg_spec.py:599): the signature of function object `id`, whose
module environment is `env` and whose header is `d`, asked of a Checker in state `st` -/
def rtSigSt (st : CheckerSt) (id : FnId) (env : NameEnv) (d : DefArgs) : CheckerSt × Option SigOut :=
  match st.known.lookup id with
  | some r => (st, r)
  | none => let r := fromRuntime env d; (⟨st.known ++ [(id, r)]⟩, r)

/-- a multi-module run: signatures asked one after the other of the same Checker -/
def runSt : CheckerSt → List (FnId × NameEnv × DefArgs) → List (Option SigOut)
  | _, [] => []
  | st, (id, env, d) :: rest => (rtSigSt st id env d).2 :: runSt (rtSigSt st id env d).1 rest

/-- the same requests, each answered on its own (a fresh Checker per function) -/
def runAlone (run : List (FnId × NameEnv × DefArgs)) : List (Option SigOut) :=
  run.map fun x => fromRuntime x.2.1 x.2.2

/-- the signature as the shared binder model (Core/Sig.lean, `Signature.bind_arguments`, verified
against CPython in C05) consumes it: names, kinds, default presence -/
def toBindSig (s : SigOut) : List Param := s.params.map fun p => ⟨p.name, p.kind, p.dflt.isSome⟩

/-- the verdict of `bind_arguments` on a call (`none` = `incompatible_call`) and the declared types
the bound arguments are then checked against -/
def callView (s : SigOut) (args : List Arg) : Option (List (String × Pos)) × List Ty × Ty :=
  (pyaCall (toBindSig s) args, s.params.map (·.ann), s.ret)

end Pya.C13
