import PyaModel.Core.ClassTable
/-!
# Core/Assign — model of `Value.can_assign` (pyanalyze/value.py, type_object.py)

`ca tbl x e a` = "`e.can_assign(a, ctx)` is not a `CanAssignError`", with
`x = ctx.should_exclude_any()`. One clause per Python dispatch branch:

* `Value.can_assign` (value.py:89) — the fallback `base`;
* `AnyValue` :424, `KnownValue` :582, `TypedValue` :819 (+ `TypeObject.can_assign`
  type_object.py:110 through the regenerated class-level relation `tbl.nominal`, and the
  `is_instance` fallback), `NewTypeValue` :991, `GenericValue` :1042 (generic bases through the
  regenerated `tbl.gbase`), `SequenceValue` :1214, `SubclassValue` :1862,
  `MultiValuedValue` :1992, `AnnotatedValue` :2597 (no extensions).

Normal-form choices (each validated by the correspondence run):
* `replace_known_sequence_value` is not materialised: a `KnownValue` of a list/tuple/set is
  treated as the `SequenceValue` of its `KnownValue` elements, a dict as the
  `DictIncompleteValue` of its pairs (frozensets are *not* expanded — as in the code);
* `SequenceValue.args`/`DictIncompleteValue.args` are `unite_values(members)`; since every
  `can_assign` distributes over a union on the right, the model iterates over the members;
  an empty member list is `AnyValue(unreachable)`;
* terms are flat (no union directly inside a union), as `MultiValuedValue` guarantees.
Not modelled: TypeVars and bounds maps (C15 has its own model), `used_any` bookkeeping,
TypedDict, Callable, thrift enums, `super` objects, mock classes, extensions.
-/
namespace Pya

/-! ### `Value.__hash__` (value.py:632 `KnownValue.__hash__`, dataclass hashes elsewhere)

`Ty.hashEq a b` models `hash(a) == hash(b)` (no accidental collisions): structural and
**order-sensitive on unions** (dataclass hash of the `vals` tuple), type-sensitive on literals
(`hash((type(val), val))`), and *never* equal for two distinct unhashable literals (identity hash;
the model cannot see object identity, the correspondence builds distinct objects). Defined before
`Ty.beq` because `MultiValuedValue.__eq__` compares `set(vals)`, i.e. looks members up by hash.

One **systematic collision** is modelled: `hash(KnownValue(v)) = hash((type(v), v))` and the dataclass
hash of `TypedValue(t)` is `hash((t, literal_only)) = hash((t, False))`; a tuple hash depends on the
element hashes only, and `hash(False) = 0`, so for every literal `v` with `hash(v) = 0` — `0`, `False`,
`''`, `b''` in the object universe — `KnownValue(v)` and `TypedValue(type(v))` hash equal (they are not
`==`). The collision propagates through every enclosing value (all other hashes are tuple hashes of
the parts). Not modelled: `SequenceValue`'s dataclass hash / `==` also cover the derived field
`args = unite_values(members)` (Spec/D14.lean, class `seqArgs`, delimits where that matters). -/

/-- the class `c` such that the literal hashes like `TypedValue(c)`: literals with Python hash 0 -/
def Obj.zeroHashCls : Obj → Option Cls
  | .int n => if n == 0 then some C.int else Option.none
  | .bool b => if b then Option.none else some C.bool
  | .str s => if s == "" then some C.str else Option.none
  | .bytes s => if s == "" then some C.bytes else Option.none
  | _ => Option.none

mutual
def Ty.hashEq : Ty → Ty → Bool
  | .any, .any => true
  | .known a, .known b => a.hashable && b.hashable && Obj.same a b
  | .known a, .typed c => a.zeroHashCls == some c
  | .typed c, .known a => a.zeroHashCls == some c
  | .typed c, .typed d => c == d
  | .newtype n c, .newtype m d => n == m && c == d
  | .generic c as, .generic d bs => c == d && Ty.hashEqList as bs
  | .seq c as, .seq d bs => c == d && Ty.hashEqList as bs
  | .many a, .many b => Ty.hashEq a b
  | .union as, .union bs => Ty.hashEqList as bs
  | .subclass c, .subclass d => c == d
  | .annotated a, .annotated b => Ty.hashEq a b
  | .tvar i, .tvar j => i == j
  | _, _ => false
def Ty.hashEqList : List Ty → List Ty → Bool
  | [], [] => true
  | a :: as, b :: bs => Ty.hashEq a b && Ty.hashEqList as bs
  | _, _ => false
end

/-! ### `Value.__eq__`

`MultiValuedValue.__eq__` (value.py) is `self.vals == other.vals or set(self.vals) == set(other.vals)`:
the tuple comparison is member-wise `==` (`beqList`); the set comparison looks every member up
by hash **and** `==` (`subsetH` both ways), so two members that are `==` but hash differently
(separately built unhashable literals, reordered nested unions) do not match. -/
mutual
def Ty.beq : Ty → Ty → Bool
  | .any, .any => true
  | .known a, .known b => Obj.same a b
  | .typed c, .typed d => c == d
  | .newtype n c, .newtype m d => n == m && c == d
  | .generic c as, .generic d bs => c == d && Ty.beqList as bs
  | .seq c as, .seq d bs => c == d && Ty.beqList as bs
  | .many a, .many b => Ty.beq a b
  | .union as, .union bs => Ty.beqList as bs || (Ty.subsetH as bs && Ty.subsetH bs as)
  | .subclass c, .subclass d => c == d
  | .annotated a, .annotated b => Ty.beq a b
  | .tvar i, .tvar j => i == j
  | _, _ => false
termination_by a b => sizeOf a + sizeOf b
def Ty.beqList : List Ty → List Ty → Bool
  | [], [] => true
  | a :: as, b :: bs => Ty.beq a b && Ty.beqList as bs
  | _, _ => false
termination_by a b => sizeOf a + sizeOf b
/-- every element of the first list is `==` to some element of the second -/
def Ty.subsetBy : List Ty → List Ty → Bool
  | [], _ => true
  | a :: as, bs => Ty.memBy a bs && Ty.subsetBy as bs
termination_by a b => sizeOf a + sizeOf b
def Ty.memBy : Ty → List Ty → Bool
  | _, [] => false
  | a, b :: bs => Ty.beq a b || Ty.memBy a bs
termination_by a b => sizeOf a + sizeOf b
/-- every element of the first list is found in `set(second)`: same hash and `==` -/
def Ty.subsetH : List Ty → List Ty → Bool
  | [], _ => true
  | a :: as, bs => Ty.memH a bs && Ty.subsetH as bs
termination_by a b => sizeOf a + sizeOf b
/-- `a in set(bs)`: some stored `b` has the same hash and is `==` -/
def Ty.memH : Ty → List Ty → Bool
  | _, [] => false
  | a, b :: bs => (Ty.hashEq b a && Ty.beq b a) || Ty.memH a bs
termination_by a b => sizeOf a + sizeOf b
end

/-- What the "other" side offers for one generic parameter. -/
inductive TArg where
  | ty (t : Ty)            -- an ordinary argument
  | mems (ns : List Ty)    -- `unite_values(members)` of a SequenceValue (`many` stripped)
  deriving Inhabited

def instArgs (gargs : List GArg) (own : List TArg) : List TArg :=
  gargs.map fun
    | .param i => own.getD i (.ty .any)      -- missing own argument: AnyValue(generic_argument)
    | .fixed t => .ty t

/-- Generic arguments the actual value `a` offers when viewed as class `c`
(`TypedValue.get_generic_args_for_type`); `none` = `c` is not a generic base. -/
def theirArgs (tbl : ClassTable) (c : Cls) : Ty → Option (Cls × List TArg)
  | .typed d => (tbl.gbase d c).map fun g => (d, instArgs g [])
  | .newtype _ d => (tbl.gbase d c).map fun g => (d, instArgs g [])
  | .generic d bs => (tbl.gbase d c).map fun g => (d, instArgs g (bs.map .ty))
  | .seq d ns => (tbl.gbase d c).map fun g => (d, instArgs g [.mems ns])
  | .known (.tuple xs) => (tbl.gbase C.tuple c).map fun g => (C.tuple, instArgs g [.mems (xs.map .known)])
  | .known (.list xs) => (tbl.gbase C.list c).map fun g => (C.list, instArgs g [.mems (xs.map .known)])
  | .known (.set xs) => (tbl.gbase C.set c).map fun g => (C.set, instArgs g [.mems (xs.map .known)])
  | .known (.dict ks vs) => (tbl.gbase C.dict c).map fun g => (C.dict, instArgs g [.mems (ks.map .known), .mems (vs.map .known)])
  | .known k => (tbl.gbase (clsOf tbl k) c).map fun g => (clsOf tbl k, instArgs g [])
  | _ => none

/-- The class a `TypedValue`-like actual carries (`other.typ`), for the nominal check. -/
def typOf (tbl : ClassTable) : Ty → Option Cls
  | .typed d => some d
  | .newtype _ d => some d
  | .generic d _ => some d
  | .seq d _ => some d
  | .subclass d => some (tbl.metaOf d)   -- SubclassValue.get_type_object: type(d)
  | _ => none

/-- `TypedValue(c).can_assign(a)` for an `a` that is not Any / union / annotated
(value.py:819): class-level relation, plus the `is_instance` fallback for literals. -/
def typedCA (tbl : ClassTable) (x : Bool) (c : Cls) (a : Ty) : Bool :=
  match a with
  | .known (.cls d) => tbl.nominalC x c d || tbl.issub (tbl.metaOf d) c
  | .known k => tbl.nominalK x c (clsOf tbl k) || tbl.issub (clsOf tbl k) c
  | _ => match typOf tbl a with
    | some d => tbl.nominal x c d
    | none => false

def stripMany : Ty → Ty
  | .many t => t
  | t => t

def isMany : Ty → Bool
  | .many _ => true
  | _ => false

mutual
/-- `e.can_assign(a)`; `x` = `ctx.should_exclude_any()`. -/
def ca (tbl : ClassTable) (x : Bool) : Ty → Ty → Bool
  | .any, _ => true                                            -- AnyValue.can_assign
  | e, .annotated t => ca tbl x e t                            -- AnnotatedValue.can_be_assigned
  | e, .union bs => caAllR tbl x e bs                          -- Value.can_assign / MultiValuedValue
  | .union es, a =>                                            -- MultiValuedValue.can_assign
    (match a with | .any => !x | _ => false) || caAnyL tbl x es a
  | .annotated t, a => ca tbl x t a                            -- AnnotatedValue.can_assign
  | _, .any => !x                                              -- Value.can_assign, first branch
  | .known k, a => (match a with | .known k' => Obj.same k k' | _ => false)
  | .typed c, a => typedCA tbl x c a
  | .newtype n c, a =>
    (match a with
     | .newtype m _ => n == m
     | .known k => clsOf tbl k == c && typedCA tbl x c a
     | .subclass _ => typedCA tbl x c a
     | _ => match typOf tbl a with
       | some d => d == c && typedCA tbl x c a
       | none => false)
  | .generic c args, a =>
    (match theirArgs tbl c a with
     | some (_, theirs) =>
       if theirs.length == args.length then
         !args.isEmpty && caArgs tbl x args theirs
       else typedCA tbl x c a
     | none => typedCA tbl x c a)
  | .seq c ms, a =>
    (match a with
     | .seq d ns => tbl.nominal x c d && ms.length == ns.length && caZip tbl x ms ns
     | .known (.tuple xs) => tbl.nominal x c C.tuple && ms.length == xs.length && caZipK tbl x ms xs
     | .known (.list xs) => tbl.nominal x c C.list && ms.length == xs.length && caZipK tbl x ms xs
     | .known (.set xs) => tbl.nominal x c C.set && ms.length == xs.length && caZipK tbl x ms xs
     | _ =>
       -- super().can_assign: GenericValue(c, [unite(members)])
       match theirArgs tbl c a with
       | some (_, [their]) => caAnyM tbl x ms their
       | _ => typedCA tbl x c a)
  | .many _, _ => false
  | .tvar _, _ => false                                        -- TypeVarValue: outside the modelled fragment
  | .subclass c, a =>
    (match a with
     | .subclass d => tbl.nominal x c d
     | .known (.cls d) => tbl.nominal x c d
     | .typed d => d == C.type || (tbl.issub d C.type && tbl.issub (tbl.metaOf c) d)
     | _ => false)
termination_by e a => (sizeOf e, sizeOf a, 0)
def caAllR (tbl : ClassTable) (x : Bool) : Ty → List Ty → Bool
  | _, [] => true
  | e, b :: bs => ca tbl x e b && caAllR tbl x e bs
termination_by e bs => (sizeOf e, sizeOf bs, 0)
def caAnyL (tbl : ClassTable) (x : Bool) : List Ty → Ty → Bool
  | [], _ => false
  | e :: es, a => ca tbl x e a || caAnyL tbl x es a
termination_by es a => (sizeOf es, sizeOf a, 0)
/-- `my_arg.can_assign(their_arg)` for each generic parameter. -/
def caArgs (tbl : ClassTable) (x : Bool) : List Ty → List TArg → Bool
  | [], _ => true
  | _, [] => true
  | e :: es, t :: ts => caArg tbl x e t && caArgs tbl x es ts
termination_by es ts => (sizeOf es, sizeOf ts, 0)
def caArg (tbl : ClassTable) (x : Bool) : Ty → TArg → Bool
  | e, .ty t => ca tbl x e t
  | e, .mems [] => ca tbl x e .any
  | e, .mems (n :: ns) => caMems tbl x e (n :: ns)
termination_by e t => (sizeOf e, sizeOf t, 0)
def caMems (tbl : ClassTable) (x : Bool) : Ty → List Ty → Bool
  | _, [] => true
  | e, .many n :: ns => ca tbl x e n && caMems tbl x e ns
  | e, n :: ns => ca tbl x e n && caMems tbl x e ns
termination_by e ns => (sizeOf e, sizeOf ns, 0)
/-- member-wise comparison of two SequenceValues -/
def caZip (tbl : ClassTable) (x : Bool) : List Ty → List Ty → Bool
  | [], _ => true
  | _, [] => true
  | .many m :: ms, .many n :: ns => ca tbl x m n && caZip tbl x ms ns
  | .many _ :: _, _ :: _ => false
  | _ :: _, .many _ :: _ => false
  | m :: ms, n :: ns => ca tbl x m n && caZip tbl x ms ns
termination_by ms ns => (sizeOf ms, sizeOf ns, 0)
/-- member-wise comparison with the KnownValue elements of a literal -/
def caZipK (tbl : ClassTable) (x : Bool) : List Ty → List Obj → Bool
  | [], _ => true
  | _, [] => true
  | .many _ :: _, _ :: _ => false
  | m :: ms, o :: os => ca tbl x m (.known o) && caZipK tbl x ms os
termination_by ms os => (sizeOf ms, sizeOf os, 0)
/-- `unite_values(members).can_assign(their)`: `AnyValue(unreachable)` when there are no
members, otherwise some member accepts (per member of a union on the right). -/
def caAnyM (tbl : ClassTable) (x : Bool) : List Ty → TArg → Bool
  | [], _ => true
  | m :: ms, .ty t => caAnyMT tbl x (m :: ms) t
  | m :: ms, .mems [] => caAnyMT tbl x (m :: ms) .any
  | m :: ms, .mems (n :: ns) => caAnyMM tbl x (m :: ms) (n :: ns)
termination_by ms t => (sizeOf ms, sizeOf t, 2)
def caAnyMT (tbl : ClassTable) (x : Bool) : List Ty → Ty → Bool
  | ms, .union bs => caAnyMTs tbl x ms bs
  | ms, .annotated t => caAnyMT tbl x ms t
  | ms, t => (match t with | .any => !x | _ => false) || caAnyS tbl x ms t
termination_by ms t => (sizeOf ms, sizeOf t, 1)
def caAnyMTs (tbl : ClassTable) (x : Bool) : List Ty → List Ty → Bool
  | _, [] => true
  | ms, b :: bs => caAnyMT tbl x ms b && caAnyMTs tbl x ms bs
termination_by ms bs => (sizeOf ms, sizeOf bs, 0)
def caAnyMM (tbl : ClassTable) (x : Bool) : List Ty → List Ty → Bool
  | _, [] => true
  | ms, .many n :: ns => caAnyMT tbl x ms n && caAnyMM tbl x ms ns
  | ms, n :: ns => caAnyMT tbl x ms n && caAnyMM tbl x ms ns
termination_by ms ns => (sizeOf ms, sizeOf ns, 0)
/-- some (stripped) member accepts the non-union `t` -/
def caAnyS (tbl : ClassTable) (x : Bool) : List Ty → Ty → Bool
  | [], _ => false
  | .many m :: ms, t => ca tbl x m t || caAnyS tbl x ms t
  | m :: ms, t => ca tbl x m t || caAnyS tbl x ms t
termination_by ms t => (sizeOf ms, sizeOf t, 0)
end

end Pya
