/-!
# Core/Binding — which names a statement binds, and the "delete the whole statement" fix (property C16)

`NameCheckVisitor._check_function_unused_vars` (name_check_visitor.py:2395‥2490) reports a name node `unused`
that is bound but never read, and — for an `ast.Assign` statement — attaches the replacement
`remove_node(unused, statement)` (delete every line of the statement) when a guard on the *shape of the
statement's target list* holds.  This file has the vocabulary that guard is written in; the guard itself is
**regenerated from the live source** (`Generated/FixConsts.lean`, `Gen.removalGuard`) by the harness's
`translate`, so an edit of the Python condition changes the Lean definition the theorems are about.

* `Target`          — an assignment target: a name, a tuple / list display of targets, a starred target, or
                      something that binds no name (`Attribute`, `Subscript`).
* `AssignStmt`      — `statement.targets` (chained `a = b = v` has two) and the names bound by `:=` inside the
                      value or inside subscript / attribute targets (`valueBinds`).
* `bound`           — every name the statement binds.
* `Stmt`, `undefReads` — a straight-line def-use skeleton (each statement: names it reads, names it binds) and
                      the reads that find no earlier binding: what "removing the statement breaks a binding"
                      means.
-/
namespace Pya.C16

mutual
  inductive Target
    | name (x : String)
    | tuple (ts : TargetList)
    | list (ts : TargetList)
    | starred (t : Target)
    /-- `ast.Attribute` / `ast.Subscript`: binds no name -/
    | other (kind : String)
  inductive TargetList
    | nil
    | cons (t : Target) (rest : TargetList)
end

mutual
  def Target.binds : Target → List String
    | .name x => [x]
    | .tuple ts => ts.binds
    | .list ts => ts.binds
    | .starred t => t.binds
    | .other _ => []
  def TargetList.binds : TargetList → List String
    | .nil => []
    | .cons t rest => t.binds ++ rest.binds
end

def TargetList.length : TargetList → Nat
  | .nil => 0
  | .cons _ rest => rest.length + 1

/-- `statement.targets[k]` (an `Assign` has at least one target; outside the list: a target that binds nothing). -/
def TargetList.nth : TargetList → Nat → Target
  | .nil, _ => .other "IndexError"
  | .cons t _, 0 => t
  | .cons _ rest, k + 1 => rest.nth k

/-- `type(t).__name__` -/
def Target.kind : Target → String
  | .name _ => "Name"
  | .tuple _ => "Tuple"
  | .list _ => "List"
  | .starred _ => "Starred"
  | .other k => k

/-- `isinstance(t, (ast.K1, ast.K2, …))` -/
def Target.isKind (t : Target) (ks : List String) : Bool := ks.contains t.kind

/-- `t is unused` for the unused name node `u` (names stand for their nodes). -/
def Target.isName (t : Target) (u : String) : Bool :=
  match t with
  | .name x => x == u
  | _ => false

structure AssignStmt where
  targets : TargetList
  /-- names bound by `:=` inside the value or inside subscript / attribute targets -/
  valueBinds : List String := []

/-- Every name the statement binds. -/
def AssignStmt.bound (s : AssignStmt) : List String := s.targets.binds ++ s.valueBinds

/-- A starred target only occurs inside a tuple / list display (`*a = v` is a syntax error). -/
def AssignStmt.topLevelOk (s : AssignStmt) : Bool :=
  let rec go : TargetList → Bool
    | .nil => true
    | .cons t rest => t.kind != "Starred" && go rest
  go s.targets

/-! ## Straight-line def-use skeleton -/

structure Stmt where
  reads : List String
  binds : List String
  deriving DecidableEq, Repr

/-- The reads that find no binding (`env`: the names bound before), in program order. -/
def undefReads : List String → List Stmt → List String
  | _, [] => []
  | env, s :: rest => s.reads.filter (fun x => !env.contains x) ++ undefReads (env ++ s.binds) rest

/-- All names read by the statements. -/
def readsOf : List Stmt → List String
  | [] => []
  | s :: rest => s.reads ++ readsOf rest

/-- All names bound by the statements. -/
def bindsOf : List Stmt → List String
  | [] => []
  | s :: rest => s.binds ++ bindsOf rest

end Pya.C16
